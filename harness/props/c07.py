"""C07 -- an interrupted draw() still restores the terminal and the image.

Claim = the theorems of coq/props/C07.v: (a) control flow, over the skeletons translated
from the current source (every path, iteration count, fault position outside clean-up: the
obligation vector is clean, still images re-raise KeyboardInterrupt, animations swallow
it); (b) terminal side, over model/DrawInt.v (every write, every cut position: parser
ground, no pending chunk, cursor visible, SGR default).

Tie, checked on every run: FAULT ENUMERATION on a real pty (harness/impl/impl_c07.py).
For each scenario the fault-free run is recorded, then FOR ALL k the k-th faultable call
(stream write -- delivering a j-character prefix, j swept --, flush, sleep, frame render)
raises KeyboardInterrupt or an Exception.  Judged INSIDE Coq (model/C07Tie.v):
  * specification: Term.exec on the observed byte stream (lexed per write; the interrupted
    write's prefix ends in a TCut) must end parser-ground / nothing pending / cursor visible /
    SGR default; termios before = after; RenderData finalized; image.size setting and
    tell() unchanged; exception type as the property says;
  * model: the observed call trace is a run of the translated skeleton (which also decides
    whether the fault fell inside the operation's own clean-up = outside the property), and
    the observed token stream equals DrawInt.old_interrupted / new_interrupted.
A run whose fault is in scope and that violates the specification is the replay."""
from __future__ import annotations

import json
import re

import core
import lexer

LEVEL = "proof"
EXTRA_TARGETS = ["model/C07Tie.vo", "model/C07Spec.vo"]

KITTY_CHUNKED = {"api": "old", "style": "kitty", "frames": 3, "size": "fixed", "width": 8, "noise": True, "px": [80, 80],
                 "style_args": {"method": "whole"}}
KITTY_CHUNKED_Q = dict(KITTY_CHUNKED, width=6, px=[60, 60])

# (name, scenario, sweep of the quick tier: "deep" | "light" | None = thorough only)
SCENARIOS = [
    ("old/block/still", {"api": "old", "style": "block", "frames": 1, "size": "fixed", "width": 4}, "deep"),
    ("old/block/anim3", {"api": "old", "style": "block", "frames": 3, "size": "dynamic", "size_enum": "ORIGINAL", "seek": 1}, "deep"),
    ("old/kitty/anim3/chunked", KITTY_CHUNKED_Q, "deep"),
    ("old/kitty/still/lines", {"api": "old", "style": "kitty", "frames": 1, "size": "dynamic", "size_enum": "ORIGINAL"}, "light"),
    ("old/iterm2/still", {"api": "old", "style": "iterm2", "frames": 1, "size": "fixed", "width": 4}, "deep"),
    ("old/iterm2/anim3", {"api": "old", "style": "iterm2", "frames": 3, "size": "dynamic", "size_enum": "ORIGINAL", "seek": 2}, "light"),
    ("old/block/anim3/cached/repeat2", {"api": "old", "style": "block", "frames": 3, "size": "fixed", "width": 4, "cached": True,
                                        "loops": 2, "alpha": "#"}, "light"),
    ("old/kitty/still/chunked", dict(KITTY_CHUNKED_Q, frames=1, size="dynamic", size_enum="AUTO"), "light"),
    ("old/iterm2/anim3/konsole", {"api": "old", "style": "iterm2", "frames": 3, "size": "fixed", "width": 4, "term": "konsole",
                                  "cached": 2, "seek": 1}, "light"),
    ("old/block/frame-of-anim", {"api": "old", "style": "block", "frames": 3, "animate": False, "seek": 2, "size": "dynamic",
                                 "size_enum": "FIT", "alpha": 0.5}, "light"),
    ("old/kitty/anim3/one-line", {"api": "old", "style": "kitty", "frames": 3, "size": "fixed", "width": 4, "px": [8, 2]}, "light"),
    ("new/text/still", {"api": "new", "style": "text", "frames": 1, "hide_cursor": True, "echo_input": False}, "deep"),
    ("new/text/anim3", {"api": "new", "style": "text", "frames": 3, "hide_cursor": True, "echo_input": False}, "deep"),
    ("new/text/still/nohide/echo", {"api": "new", "style": "text", "frames": 1, "hide_cursor": False, "echo_input": True}, "light"),
    ("new/text/anim3/nohide/echo/loops2/cache", {"api": "new", "style": "text", "frames": 3, "hide_cursor": False, "echo_input": True,
                                                 "loops": 2, "cache": True}, "light"),
    ("new/text/anim3/padded", {"api": "new", "style": "text", "frames": 3, "hide_cursor": True, "echo_input": False,
                               "pad": [2, 1, 1, 1], "seek": 1}, "light"),
    ("new/text/frame-of-anim", {"api": "new", "style": "text", "frames": 3, "animate": False, "seek": 1, "hide_cursor": True,
                                "echo_input": True}, "light"),
    ("new/text/indefinite2", {"api": "new", "style": "text", "indefinite": 2, "hide_cursor": True, "echo_input": False}, "light"),
    # thorough only
    ("old/block/still/dynamic", {"api": "old", "style": "block", "frames": 1, "size": "dynamic", "size_enum": "ORIGINAL"}, None),
    ("old/block/anim3/fixed", {"api": "old", "style": "block", "frames": 3, "size": "fixed", "width": 4}, None),
    ("old/block/anim3/padded/fit-to-width", {"api": "old", "style": "block", "frames": 3, "size": "dynamic", "size_enum": "FIT_TO_WIDTH",
                                             "px": [8, 2], "pad_width": 80, "pad_height": 6, "h_align": "<", "v_align": "^"}, None),
    ("old/kitty/anim3/chunked/4-chunks", KITTY_CHUNKED, None),
    ("old/kitty/anim3/lines", {"api": "old", "style": "kitty", "frames": 3, "size": "dynamic", "size_enum": "ORIGINAL", "seek": 1}, None),
    ("old/kitty/anim3/konsole", dict(KITTY_CHUNKED_Q, term="konsole", kitty_version=[]), None),
    ("old/kitty/still/uncompressed", {"api": "old", "style": "kitty", "frames": 1, "size": "fixed", "width": 4,
                                      "style_args": {"method": "whole", "compress": 0, "z_index": 5, "mix": True}}, None),
    ("old/iterm2/still/whole", {"api": "old", "style": "iterm2", "frames": 1, "size": "fixed", "width": 4,
                                "style_args": {"method": "whole"}}, None),
    ("old/iterm2/still/wezterm", {"api": "old", "style": "iterm2", "frames": 1, "size": "fixed", "width": 4, "term": "wezterm"}, None),
    ("old/iterm2/anim3/padded", {"api": "old", "style": "iterm2", "frames": 3, "size": "fixed", "width": 4, "pad_width": 8,
                                 "pad_height": 4}, None),
    ("new/text/still/echo", {"api": "new", "style": "text", "frames": 1, "hide_cursor": True, "echo_input": True}, None),
    ("new/text/still/nohide", {"api": "new", "style": "text", "frames": 1, "hide_cursor": False, "echo_input": False}, None),
    ("new/text/anim3/echo", {"api": "new", "style": "text", "frames": 3, "hide_cursor": True, "echo_input": True}, None),
    ("new/text/anim3/nohide", {"api": "new", "style": "text", "frames": 3, "hide_cursor": False, "echo_input": False}, None),
    ("new/text/anim3/loops2/cache", {"api": "new", "style": "text", "frames": 3, "loops": 2, "cache": True, "hide_cursor": True}, None),
    ("new/text/indefinite0", {"api": "new", "style": "text", "indefinite": 0, "hide_cursor": True, "echo_input": True}, None),
    ("new/text/indefinite3/nohide", {"api": "new", "style": "text", "indefinite": 3, "hide_cursor": False}, None),
    ("new/text/anim1", {"api": "new", "style": "text", "frames": 2, "loops": 1, "hide_cursor": True, "size_wh": [5, 1]}, None),
]
SCN = {n: s for n, s, _ in SCENARIOS}
MODE = {n: m for n, _, m in SCENARIOS}

C_OUT, C_FLUSH, C_RENDER, C_SLEEP = 8, 9, 10, 11
CLS_NAME = {8: "write", 9: "flush", 10: "render", 11: "sleep", 12: "handler", 13: "finalize", 0: "tcgetattr", 1: "tcsetattr"}
BIT_NAME = [(1, "terminal left dirty (parser / pending chunk / cursor / SGR)"), (2, "terminal attributes differ"),
            (4, "render data not finalized"), (8, "image size setting changed"), (16, "frame position changed"),
            (32, "wrong exception behaviour")]

_ESC_SEQ = re.compile(r"\x1b(?:\[[0-?]*[ -/]*[@-~]|[_\]][^\x1b\x07]*(?:\x1b\\|\x07)|\\)")


def is_anim(scn):
    return (scn.get("frames", 1) > 1 or scn.get("indefinite") is not None) and scn.get("animate", True)


def n_frames(scn):
    return scn["indefinite"] if scn.get("indefinite") is not None else scn["frames"] * scn.get("loops", 1)


def j_sweep(s, rng, mode):
    """cut positions for a write of text s; mode: "full" (thorough) | "deep" | "light" (quick)"""
    n = len(s)
    if n == 0:
        return [0]
    js = {0, n}
    spans = [m.span() for m in _ESC_SEQ.finditer(s)]
    if mode == "full" and n <= 600:
        return list(range(n + 1))
    if mode == "light":
        picks, cap = spans[:1], 2
    elif mode == "deep":
        picks, cap = spans[:1] + spans[-1:], 14
    else:
        picks, cap = spans, 136
    for a, b in picks:
        inner = list(range(a + 1, b))
        if len(inner) > cap:
            if mode == "light":
                inner = [inner[0], inner[len(inner) // 2]]
            elif mode == "deep":
                inner = inner[:9] + inner[-5:]
            else:
                inner = inner[:64] + inner[-64:] + [rng.randrange(a + 1, b) for _ in range(8)]
        js.update(inner)
        js.add(a)
        js.add(b)
    for a, b in spans:  # every graphics-protocol string: inside its control data, its payload, its terminator
        if s[a + 1] in "_]" and b - a > 8:
            js.update((a + 1, a + 4, (a + b) // 2, b - 1))
    for _ in range({"light": 1, "deep": 3, "full": 60}[mode]):
        js.add(rng.randrange(n + 1))
    return sorted(js)


def lex_segments(segs):
    toks = []
    for text, cut in segs:
        toks += lexer.lex(text)
    return toks


def nonempty_writes(calls):
    """(call index, text) of the non-empty writes outside the interrupt handler"""
    return [(i, c[1]) for i, c in enumerate(calls) if c[0] == C_OUT and c[1] and not c[2]]


def frames_of(scn, base):
    """the render-output writes of the fault-free run, by the structure the model assumes"""
    ws = [t for _, t in nonempty_writes(base["calls"])]
    if scn["api"] == "old":
        if is_anim(scn):
            return [ws[1 + 2 * i] for i in range(n_frames(scn))]  # HIDE, then per frame: the frame, "\r" + cursor_up
        return [ws[1]]
    h0 = 1 if scn.get("hide_cursor", True) else 0
    if is_anim(scn):
        return [ws[h0 + 2 * i] for i in range(n_frames(scn))]
    return [ws[h0]]


def coords(case, res):
    f = case["fault"]
    calls = res["calls"]
    k = f["k"]
    if k >= len(calls):
        return None
    before = [c for c in calls[:k] if c[0] == C_OUT and c[1] and not c[2]]
    cls, text = calls[k][0], calls[k][1]
    if cls == C_OUT and text:
        j = res["hit"][2]
        pre = lexer.lex(text[:j])
        if pre and pre[-1][0] == "cut":
            return (len(before), len(pre) - 1, pre[-1][1], True)
        return (len(before), len(pre), None, True)
    if cls in (C_OUT, C_FLUSH):
        if not before:
            return (0, 0, None, False)
        return (len(before) - 1, len(lexer.lex(before[-1][1])), None, True)
    return (len(before), 0, None, False)


def scope_end(scn, base):
    """Index of the first faultable call of the fault-free run that belongs to draw()'s own
    clean-up (used to cross-check the skeleton's verdict, and instead of it when the
    translator refuses the source)."""
    calls = base["calls"]
    last = lambda classes: max(i for i, c in enumerate(calls) if c[0] in classes)  # noqa: E731
    if scn["api"] == "old":
        # still: ... render, print(frame, flush) | SGR0 SHOW LF;  animation: ... final next() | CUD, SGR0 SHOW LF
        return last((C_FLUSH, C_RENDER, C_SLEEP)) + 1
    if is_anim(scn):
        # ... final next(), sleep | cursor down, flush, LF, SHOW, flush
        return last((C_RENDER, C_SLEEP)) + 1
    return last((C_RENDER,)) + 3  # the render, the write of its output, its flush | LF, SHOW, flush


def b(x):
    return "true" if x else "false"


def scn_term(scn, base):
    if scn["api"] == "old":
        st = {"block": "SBlock", "kitty": "SKitty", "iterm2": "SIterm"}[scn["style"]]
        lines = max(scn.get("pad_height", 1), base["lines"])
        return f"SOld {st} {b(is_anim(scn))} {core.z(lines)}"
    pad = scn.get("pad", [0, 0, 0, 0])
    h = scn.get("size_wh", [3, 2])[1]
    return (f"SNew {b(scn.get('hide_cursor', True))} {b(is_anim(scn))} {core.z(h)} {core.z(pad[3])} {core.z(pad[0])} "
            f"{b(scn.get('handler', True))}")


def ev_term(e):
    cls, arg, f = e
    ft = ["FNone", "(FBefore KI)", "(FBefore Exc)", "(FAfter KI)", "(FAfter Exc)"][f]
    return f"mkev {cls}%nat {b(arg)} {ft}"


def case_term(sidx, case, res, pos, obs):
    f = case.get("fault") if res.get("injected") else None   # e.g. "after" a next() that raised StopIteration
    kind = 0 if not f else (1 if f["kind"] == "KI" else 2)
    if pos is None:
        pt = "None"
    else:
        k, j, c, inw = pos
        ct = "None" if c is None else "(Some " + {"csi": "CutCsi", "osc": "CutOsc", "apc": "CutApc"}[c] + ")"
        pt = f"(Some (mkpos {k}%nat {j}%nat {ct} {b(inw)}))"
    fin = True if res.get("finalized") is None else res["finalized"]
    return (f"mkcase sc_{sidx} fr_{sidx} {pt} {kind}%nat {b(res.get('started'))} {lexer.coq_toks(obs)} "
            f"{core.coq_list(res['events'], ev_term)} {res['out']}%nat {b(res['termios_same'])} {b(fin)} "
            f"{b(res['size_same'])} {b(res['seek_same'])}")


def describe(name, case, res=None, bits=0):
    f = case.get("fault")
    s = f"{name}: "
    if not f:
        s += "no fault"
    else:
        s += f"faultable call #{f['k']}"
        if res is not None and res.get("hit"):
            cls, text, j = res["hit"]
            s += f" ({CLS_NAME.get(cls, cls)}"
            if text is not None:
                s += f" of {text[:24]!r}{'...' if len(text) > 24 else ''} cut after {j} of {len(text)} characters"
            elif not f.get("after"):
                s += ", before it takes effect"
            else:
                s += ", after it took effect"
            s += ")"
        s += f" raises {'KeyboardInterrupt' if f['kind'] == 'KI' else 'an Exception'}"
    if res is not None:
        s += f" | draw() {['returned', 'raised KeyboardInterrupt', 'raised ' + str(res.get('exc'))][res['out']]}"
        tail = "".join(t for t, _ in res["segs"][-6:])
        s += f" | stream tail {tail[-60:]!r}"
        if bits:
            s += " | VIOLATED: " + "; ".join(n for bit, n in BIT_NAME if bits & bit)
            if bits & 8:
                s += f" size {res.get('size')}"
            if bits & 16:
                s += f" tell {res.get('seek')}"
    return s


def run(ctx):
    quick = ctx.quick
    rng = ctx.rng
    errors, mismatches, failures = [], [], []
    hist = {"scenario": {}, "fault_kind": {}, "hit_class": {}, "cut_kind": {}, "judgement": {}, "outcome": {}, "spec_bits": {}}

    if ctx.replay:
        rc = ctx.replay["replay"]["case"]
        names = [rc["name"]]
    else:
        names = [n for n, _, m in SCENARIOS if m or not quick]
    # ---- fault-free runs
    base_cases = [{"name": n, "scn": SCN[n], "fault": None} for n in names]
    base_res = core.run_impl_parallel("impl_c07.py", base_cases)
    sidx = {}
    defs = []
    cases = []
    for i, (c, r) in enumerate(zip(base_cases, base_res)):
        if r.get("abort") or r.get("out") != 0:
            errors.append(f"fault-free run failed: {c['name']}: {r.get('abort') or r.get('exc')}")
            continue
        try:
            frames = frames_of(c["scn"], r)
            ftoks = [lexer.lex(f) for f in frames]
        except (lexer.LexError, IndexError) as e:
            errors.append(f"fault-free run of {c['name']} has an unexpected shape: {type(e).__name__}: {e}")
            continue
        sidx[c["name"]] = i
        defs.append(f"Definition sc_{i} : scn := {scn_term(c['scn'], r)}.\n"
                    f"Definition fr_{i} : list (list tok) := {core.coq_list(ftoks, lexer.coq_toks)}.\n")
        cases.append(c)
        if ctx.replay:
            continue
        for k, call in enumerate(r["calls"]):
            cls, text = call[0], call[1]
            for kind in ("KI", "Exc"):
                if cls == C_OUT:
                    for j in j_sweep(text, rng, MODE[c["name"]] if quick else "full"):
                        cases.append({"name": c["name"], "scn": c["scn"], "fault": {"k": k, "kind": kind, "j": j}})
                else:
                    for after in (False, True):
                        cases.append({"name": c["name"], "scn": c["scn"], "fault": {"k": k, "kind": kind, "j": None, "after": after}})
    if ctx.replay and names[0] in sidx:
        cases.append({"name": rc["name"], "scn": SCN[rc["name"]], "fault": rc["fault"]})
    # stripe the cases over the workers (the expensive scenarios are contiguous)
    perm = [i for r in range(core.NCPU) for i in range(r, len(cases), core.NCPU)]
    striped = core.run_impl_parallel("impl_c07.py", [cases[i] for i in perm])
    results = [None] * len(cases)
    for i, r in zip(perm, striped):
        results[i] = r

    # ---- encode
    keys, key_idx, owner = [], {}, []
    for c, r in zip(cases, results):
        if r.get("abort"):
            errors.append(f"run aborted: {describe(c['name'], c)}: {r['abort']}")
            owner.append(None)
            continue
        if not r.get("master_ok"):
            errors.append(f"pty master bytes differ from what the stream delivered: {describe(c['name'], c)} {r.get('master_diff')}")
            owner.append(None)
            continue
        try:
            obs = lex_segments(r["segs"])
            pos = coords(c, r) if c.get("fault") and r.get("injected") else None
            term = case_term(sidx[c["name"]], c, r, pos, obs)
        except lexer.LexError as e:
            errors.append(f"unlexable stream: {describe(c['name'], c)}: {e}")
            owner.append(None)
            continue
        if term not in key_idx:
            key_idx[term] = len(keys)
            keys.append(term)
        owner.append(key_idx[term])
    header = ("From Coq Require Import List ZArith Bool Arith.\nImport ListNotations.\n"
              "From TI Require Import lib.Term lib.Eff model.SkelTie model.DrawInt model.C07Spec @TIE@.\nOpen Scope Z_scope.\n"
              + "".join(defs))
    codes = {}
    tie, spec, gen = core.COQ / "model" / "C07Tie.vo", core.COQ / "model" / "C07Spec.vo", core.COQ / "gen" / "Skeletons.v"
    # never judge against a stale comparison module (its build fails when the translator refuses the source)
    coq_ok = tie.exists() and gen.exists() and tie.stat().st_mtime >= gen.stat().st_mtime
    spec_ok = spec.exists()
    shard = max(30, (len(keys) + core.NCPU - 1) // core.NCPU)
    if coq_ok and keys:
        bad, errs = core.coq_shards("c07", header.replace("@TIE@", "model.C07Tie"), keys, "tcase", "bad cases", shard=shard)
        if errs:
            coq_ok = False
            errors += [e[-900:] for e in errs[:3]]
        codes = {i: (v // 100, v % 100) for i, v in bad}
    spec_codes = None
    if not coq_ok:
        errors.append("model/C07Tie.vo is missing or older than gen/Skeletons.v (the translator refused the source or the build "
                      "failed): the call traces were not judged against the skeleton; scope decided by position")
        if spec_ok and keys:
            vals, errs = core.coq_shards("c07s", header.replace("@TIE@", ""), keys, "tcase", "spec_only cases", shard=shard)
            if errs:
                errors += [e[-900:] for e in errs[:3]]
            else:
                spec_codes = {i: (v // 100, v % 100) for i, v in vals}
    ends = {c["name"]: scope_end(c["scn"], r) for c, r in zip(base_cases, base_res) if c["name"] in sidx}

    distinct = set()
    in_scope_fault_runs = 0
    for c, r, o in zip(cases, results, owner):
        if o is None:
            continue
        f = c.get("fault") if r.get("injected") else None
        inscope = (not f) or f["k"] < ends[c["name"]]
        if coq_ok:
            code, bits = codes.get(o, (0, 0))
            if code in (0, 2, 4, 10) and (code != 10) != inscope:
                mismatches.append({"case": describe(c["name"], c, r), "why": "the skeleton places the fault "
                                   + ("inside" if code == 10 else "outside") + " draw()'s clean-up, its position says otherwise"})
        elif spec_codes is not None:
            differs, bits = spec_codes.get(o, (0, 0))
            code = 10 if not inscope else (2 if bits else (4 if differs else 0))
        else:
            code, bits = 99, 0  # not judged
        hist["scenario"][c["name"]] = hist["scenario"].get(c["name"], 0) + 1
        fk = "none" if not f else f["kind"]
        hist["fault_kind"][fk] = hist["fault_kind"].get(fk, 0) + 1
        if r.get("hit"):
            hc = CLS_NAME.get(r["hit"][0], str(r["hit"][0]))
            hist["hit_class"][hc] = hist["hit_class"].get(hc, 0) + 1
        cuts = [t for t, cut in r["segs"] if cut]
        if cuts:
            last = lexer.lex(cuts[-1])
            ck = last[-1][1] if last and last[-1][0] == "cut" else "between-sequences"
            hist["cut_kind"][ck] = hist["cut_kind"].get(ck, 0) + 1
            opened = [t for t in last if t[0] in ("kfirst", "kcont")]
            if opened and opened[-1][-3 if opened[-1][0] == "kfirst" else -3] is True:
                hist["cut_with_chunked_transmission_pending"] = hist.get("cut_with_chunked_transmission_pending", 0) + 1
        hist["judgement"][str(code)] = hist["judgement"].get(str(code), 0) + 1
        hist["outcome"][str(r["out"])] = hist["outcome"].get(str(r["out"]), 0) + 1
        if bits:
            hist["spec_bits"][str(bits)] = hist["spec_bits"].get(str(bits), 0) + 1
        if f and code == 0:
            in_scope_fault_runs += 1
            distinct.add(o)
        if code in (2, 3) or (not f and bits):
            failures.append({
                "signature": core.sig({"scenario": c["name"], "fault": f}),
                "what": "interrupted draw() leaves an obligation open: " + describe(c["name"], c, r, bits)
                        + ("" if coq_ok else " [scope decided by position: the translated skeleton is unavailable]"),
                "replay": {"case": {"name": c["name"], "scn": c["scn"], "fault": f}, "bits": bits, "code": code,
                           "observed": {k: r.get(k) for k in ("out", "exc", "termios_same", "finalized", "size", "seek", "hit")},
                           "stream": "".join(t for t, _ in r["segs"])[-400:]},
            })
        elif code in (1, 4):
            mismatches.append({"case": describe(c["name"], c, r),
                               "why": "the observed call trace is not a run of the translated skeleton" if code == 1
                               else "the observed token stream differs from model/DrawInt.v",
                               "events": r["events"] if code == 1 else None})
    # smallest failing input first; one per (scenario, violated obligations, fault kind, class of the faulted call)
    def size(fl):
        f = fl["replay"]["case"]["fault"] or {}
        return (len(json.dumps(fl["replay"]["case"]["scn"])), f.get("k", -1), f.get("j") or 0)
    failures.sort(key=size)
    total_failing = len(failures)
    seen, kept = set(), []
    for fl in failures:
        f = fl["replay"]["case"]["fault"] or {}
        hit = fl["replay"]["observed"].get("hit") or [None]
        key = (fl["replay"]["case"]["name"], fl["replay"]["bits"], f.get("kind"), hit[0])
        if key not in seen:
            seen.add(key)
            kept.append(fl)
    failures = kept

    picks = [i for i, c in enumerate(cases) if c.get("fault") and owner[i] is not None]
    samples = [describe(cases[0]["name"], cases[0], results[0])] if cases else []
    for i in picks[:: max(1, len(picks) // 5)][:5]:
        samples.append(describe(cases[i]["name"], cases[i], results[i]))
    return {
        "corr_name": "fault enumeration of draw() on a pty (3 old-API styles + an instrumented Renderable; still / animated): "
                     "final terminal state of Term.exec on the observed stream + termios / finalized / size / seek / exception, "
                     "call trace vs. translated skeleton, token stream vs. model/DrawInt.v",
        "evaluations": len(cases),
        "distinct_nontrivial": len(distinct),
        "rule": f"{len(names)} scenarios ({', '.join(names)}); for each the fault-free run, then FOR ALL k the k-th faultable call "
                "(every stream write() incl. the empty sep/end strings of print(), flush(), sleep, frame render / next frame; "
                "clean-up included) raises KeyboardInterrupt or an Exception (OSError for the stream, RuntimeError otherwise): "
                "non-write calls before / after their effect; writes after delivering j characters, j in {0, len} + "
                + ("every position inside the first and the last escape sequence of the text (long sequences: first 9 / last 5), 4 positions inside every APC / OSC string (after ESC, in the control data, mid-payload, inside the terminator) + 3 random"
                   if quick else "every position (texts over 600 characters: 64 leading / trailing positions of every escape sequence + "
                   "68 random)")
                + ".  Non-trivial: distinct observations (stream, trace, outcome) with a fault that the skeleton places outside "
                "the operation's own clean-up, judged in Coq as agreeing with specification and model.",
        "samples": samples,
        "histogram": hist,
        "mismatches": mismatches,
        "failures": failures,
        "errors": errors,
        "assumptions": [
            "terminal semantics of coq/lib/Term.v: a cut CSI is aborted by the next escape sequence (C0 controls execute inside "
            "it), a cut APC / OSC string swallows everything up to ST, `q=1,m=0` ends a pending chunked transmission",
            "an interrupted write delivers a prefix of its text (character granularity) and nothing of it later; each write() call "
            "is lexed on its own, the interrupted one ending in TCut",
            "asynchronous delivery between two bytecodes is represented as the next faultable call raising before its effect / "
            "the previous one raising after it; signals landing inside the clean-up itself are outside the property",
            "the control-flow proof abstracts data conditions to nondeterministic choice and trusts the call table of "
            "harness/tx/tx_skel.py (validated here by the trace judgement)",
            "new API: the render output and _handle_interrupted_draw_ belong to the subclass; the terminal-side theorem is for "
            "text frames (C0 + CSI tokens, ending in SGR reset) and any handler that grounds the parser and resets SGR "
            "(CSI 0 m as the docstring hints); a cursor-positioning write cut inside its CSI with hide_cursor=False before the "
            "first frame is complete leaves that CSI open (ended by the next escape sequence or character): accepted",
            "animations: KeyboardInterrupt raised before the first frame render call is reached (HIDE_CURSOR write) may propagate",
        ],
        "trusted": ["harness/tx/tx_skel.py (Python ast -> prog, fail-closed)", "harness/lexer.py",
                    "the pty driver harness/impl/impl_c07.py (sys.stdout replacement on the pty slave, patches print in the image "
                    "modules, time.sleep, _render_image, ImageIterator._animate, RenderIterator.__next__, termios.tc[gs]etattr, "
                    "RenderData.finalize)"],
        "extra": {"in_scope_fault_runs": in_scope_fault_runs, "distinct_observations_judged": len(keys),
                  "failing_runs_total": total_failing},
    }
