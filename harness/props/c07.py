"""C07 -- an interrupted draw() still restores the terminal and the image.

Claim = the theorems of coq/props/C07.v: (a) control flow, over the skeletons translated
from the current source (every path, iteration count, fault position outside clean-up: the
obligation vector is clean, still images re-raise KeyboardInterrupt, animations swallow
it); (b) terminal side, over model/DrawInt.v (every write, every cut position: parser
ground, no pending chunk, cursor visible, SGR default).

Tie, checked on every run: FAULT ENUMERATION on a real pty (harness/impl/impl_c07.py).
For each scenario the fault-free run is recorded, then FOR ALL k the k-th faultable call
(stream write -- delivering a j-character prefix, j swept --, flush, sleep, frame render)
raises KeyboardInterrupt or an Exception.  Judged INSIDE Coq (model/C07Tie.v):
  * specification: Term.exec on the observed byte stream (lexed per write; the interrupted
    write's prefix ends in a TCut) must end parser-ground / nothing pending / cursor visible /
    SGR default; termios before = after; RenderData finalized; image.size setting and
    tell() unchanged; exception type as the property says;
  * model: the observed call trace is a run of the translated skeleton (which also decides
    whether the fault fell inside the operation's own clean-up = outside the property), and
    the observed token stream equals DrawInt.old_interrupted / new_interrupted.
A run whose fault is in scope and that violates the specification is the replay.

Round 4 -- faults at ANY point (model/C07Any.v, proofs/SkelC07Any.v: every call of the skeletons a
fault position, [cfg_all]).  Dynamic side:
  * ASYNCHRONOUS exceptions (harness/impl/asyncfault.py): KeyboardInterrupt / an OSError raised at the
    k-th 'line' event executed inside term_image code while draw() runs.  A counting run records, per
    line event, the chain of call sites from draw() down to depth 3; quick tier: one k per distinct
    chain (= every statement of draw(), render(), _renderer, _display_animated, _animate_,
    _init_render_, ... and of their direct callees is interrupted at least once; first occurrence with
    KeyboardInterrupt, last occurrence with the OSError) + random k; thorough tier: ALL k, both kinds,
    for the scenarios of ASYNC_ALL (every style / API, still and animated), stratified + 40 random k per
    kind for those of ASYNC_STRATA.
  * SOURCE faults: the file of a file-sourced image is removed / replaced by garbage / by a directory
    between the construction of the image and draw().
  Whether a position is clean-up code (outside the property) is decided by the driver from the source
  text (ast: `except` clauses, `finally` bodies, the library's clean-up entry points; the line of a
  `try:` keyword is no position at all -- CPython places its NOP outside the enclosing exception
  table and never delivers a signal there), see harness/impl/impl_c07.py `classify`.  Judged inside
  Coq (C07Any.check_any): terminal state of Term.exec on the observed stream, termios, render data
  finalized (at once inside draw()'s try ... finally, by RenderData.__del__ before it), image.size
  setting, tell(), exception contract."""
from __future__ import annotations

import json
import os
import re

import core
import lexer

LEVEL = "proof"
EXTRA_TARGETS = ["model/C07Tie.vo", "model/C07Spec.vo", "model/C07Any.vo"]

KITTY_CHUNKED = {"api": "old", "style": "kitty", "frames": 3, "size": "fixed", "width": 8, "noise": True, "px": [80, 80],
                 "style_args": {"method": "whole"}}
KITTY_CHUNKED_Q = dict(KITTY_CHUNKED, width=6, px=[60, 60])

# (name, scenario, sweep of the quick tier: "deep" | "light" | None = thorough only)
SCENARIOS = [
    ("old/block/still", {"api": "old", "style": "block", "frames": 1, "size": "fixed", "width": 4}, "deep"),
    ("old/block/anim3", {"api": "old", "style": "block", "frames": 3, "size": "dynamic", "size_enum": "ORIGINAL", "seek": 1}, "deep"),
    ("old/kitty/anim3/chunked", KITTY_CHUNKED_Q, "deep"),
    ("old/kitty/still/lines", {"api": "old", "style": "kitty", "frames": 1, "size": "dynamic", "size_enum": "ORIGINAL"}, "light"),
    ("old/iterm2/still", {"api": "old", "style": "iterm2", "frames": 1, "size": "fixed", "width": 4}, "deep"),
    ("old/iterm2/anim3", {"api": "old", "style": "iterm2", "frames": 3, "size": "dynamic", "size_enum": "ORIGINAL", "seek": 2}, "light"),
    ("old/block/anim3/cached/repeat2", {"api": "old", "style": "block", "frames": 3, "size": "fixed", "width": 4, "cached": True,
                                        "loops": 2, "alpha": "#"}, "light"),
    ("old/kitty/still/chunked", dict(KITTY_CHUNKED_Q, frames=1, size="dynamic", size_enum="AUTO"), "light"),
    ("old/iterm2/anim3/konsole", {"api": "old", "style": "iterm2", "frames": 3, "size": "fixed", "width": 4, "term": "konsole",
                                  "cached": 2, "seek": 1}, "light"),
    ("old/block/frame-of-anim", {"api": "old", "style": "block", "frames": 3, "animate": False, "seek": 2, "size": "dynamic",
                                 "size_enum": "FIT", "alpha": 0.5}, "light"),
    ("old/kitty/anim3/one-line", {"api": "old", "style": "kitty", "frames": 3, "size": "fixed", "width": 4, "px": [8, 2]}, "light"),
    ("new/text/still", {"api": "new", "style": "text", "frames": 1, "hide_cursor": True, "echo_input": False}, "deep"),
    ("new/text/anim3", {"api": "new", "style": "text", "frames": 3, "hide_cursor": True, "echo_input": False}, "deep"),
    ("new/text/still/nohide/echo", {"api": "new", "style": "text", "frames": 1, "hide_cursor": False, "echo_input": True}, "light"),
    ("new/text/anim3/nohide/echo/loops2/cache", {"api": "new", "style": "text", "frames": 3, "hide_cursor": False, "echo_input": True,
                                                 "loops": 2, "cache": True}, "light"),
    ("new/text/anim3/padded", {"api": "new", "style": "text", "frames": 3, "hide_cursor": True, "echo_input": False,
                               "pad": [2, 1, 1, 1], "seek": 1}, "light"),
    ("new/text/frame-of-anim", {"api": "new", "style": "text", "frames": 3, "animate": False, "seek": 1, "hide_cursor": True,
                                "echo_input": True}, "light"),
    ("new/text/indefinite2", {"api": "new", "style": "text", "indefinite": 2, "hide_cursor": True, "echo_input": False}, "light"),
    # thorough only
    ("old/block/still/dynamic", {"api": "old", "style": "block", "frames": 1, "size": "dynamic", "size_enum": "ORIGINAL"}, None),
    ("old/block/anim3/fixed", {"api": "old", "style": "block", "frames": 3, "size": "fixed", "width": 4}, None),
    ("old/block/anim3/padded/fit-to-width", {"api": "old", "style": "block", "frames": 3, "size": "dynamic", "size_enum": "FIT_TO_WIDTH",
                                             "px": [8, 2], "pad_width": 80, "pad_height": 6, "h_align": "<", "v_align": "^"}, None),
    ("old/kitty/anim3/chunked/4-chunks", KITTY_CHUNKED, None),
    ("old/kitty/anim3/lines", {"api": "old", "style": "kitty", "frames": 3, "size": "dynamic", "size_enum": "ORIGINAL", "seek": 1}, None),
    ("old/kitty/anim3/konsole", dict(KITTY_CHUNKED_Q, term="konsole", kitty_version=[]), None),
    ("old/kitty/still/uncompressed", {"api": "old", "style": "kitty", "frames": 1, "size": "fixed", "width": 4,
                                      "style_args": {"method": "whole", "compress": 0, "z_index": 5, "mix": True}}, None),
    ("old/iterm2/still/whole", {"api": "old", "style": "iterm2", "frames": 1, "size": "fixed", "width": 4,
                                "style_args": {"method": "whole"}}, None),
    ("old/iterm2/still/wezterm", {"api": "old", "style": "iterm2", "frames": 1, "size": "fixed", "width": 4, "term": "wezterm"}, None),
    ("old/iterm2/anim3/padded", {"api": "old", "style": "iterm2", "frames": 3, "size": "fixed", "width": 4, "pad_width": 8,
                                 "pad_height": 4}, None),
    ("new/text/still/echo", {"api": "new", "style": "text", "frames": 1, "hide_cursor": True, "echo_input": True}, None),
    ("new/text/still/nohide", {"api": "new", "style": "text", "frames": 1, "hide_cursor": False, "echo_input": False}, None),
    ("new/text/anim3/echo", {"api": "new", "style": "text", "frames": 3, "hide_cursor": True, "echo_input": True}, None),
    ("new/text/anim3/nohide", {"api": "new", "style": "text", "frames": 3, "hide_cursor": False, "echo_input": False}, None),
    ("new/text/anim3/loops2/cache", {"api": "new", "style": "text", "frames": 3, "loops": 2, "cache": True, "hide_cursor": True}, None),
    ("new/text/indefinite0", {"api": "new", "style": "text", "indefinite": 0, "hide_cursor": True, "echo_input": True}, None),
    ("new/text/indefinite3/nohide", {"api": "new", "style": "text", "indefinite": 3, "hide_cursor": False}, None),
    ("new/text/anim1", {"api": "new", "style": "text", "frames": 2, "loops": 1, "hide_cursor": True, "size_wh": [5, 1]}, None),
]
# file-sourced images (round 4): _get_image() really opens the source at every draw()
FILE_SCENARIOS = [
    ("old/block/still/file/dynamic", {"api": "old", "style": "block", "frames": 1, "size": "dynamic", "size_enum": "AUTO",
                                      "source": "file"}),
    ("old/kitty/anim3/file/dynamic", {"api": "old", "style": "kitty", "frames": 3, "size": "dynamic", "size_enum": "ORIGINAL",
                                      "source": "file", "seek": 1}),
    ("old/iterm2/still/file/dynamic", {"api": "old", "style": "iterm2", "frames": 1, "size": "dynamic", "size_enum": "ORIGINAL",
                                       "source": "file"}),
    ("old/block/anim3/file/fixed", {"api": "old", "style": "block", "frames": 3, "size": "fixed", "width": 4, "source": "file",
                                    "seek": 2}),
    ("old/iterm2/anim3/file/dynamic", {"api": "old", "style": "iterm2", "frames": 3, "size": "dynamic", "size_enum": "AUTO",
                                       "source": "file"}),
    ("old/kitty/still/file/fit-to-width", {"api": "old", "style": "kitty", "frames": 1, "size": "dynamic",
                                           "size_enum": "FIT_TO_WIDTH", "px": [8, 2], "source": "file"}),
]
SCENARIOS += [(n, s, None) for n, s in FILE_SCENARIOS]
SRC_FAULTS = ("removed", "garbage", "directory")
# asynchronous faults: quick tier (one k per distinct chain of call sites + random)
ASYNC_QUICK = ["old/block/still/file/dynamic", "old/block/anim3", "old/kitty/anim3/file/dynamic", "old/kitty/still/chunked",
               "old/iterm2/still", "old/iterm2/anim3", "new/text/still", "new/text/anim3", "new/text/still/nohide/echo",
               "new/text/anim3/nohide/echo/loops2/cache"]
# thorough tier: ALL k, both kinds, for one still and one animation per style / API (+ the echo / hide_cursor variants)
ASYNC_ALL = list(ASYNC_QUICK)
# ... one k per chain of call sites + 40 random per kind (the last one: Size.FIT, ~10000 line events: + 10 random)
ASYNC_STRATA = ["old/block/still", "old/kitty/still/lines", "old/kitty/anim3/chunked", "old/iterm2/still/file/dynamic",
                "old/iterm2/anim3/file/dynamic", "old/block/anim3/file/fixed", "old/block/anim3/cached/repeat2",
                "old/iterm2/anim3/konsole", "old/kitty/anim3/one-line", "old/kitty/still/file/fit-to-width",
                "new/text/frame-of-anim", "new/text/anim3/padded", "new/text/indefinite2", "new/text/still/echo",
                "new/text/anim3/echo", "old/block/frame-of-anim"]
# file-sourced scenarios left out of the enumeration of tracked-call faults (same call structure as the others)
SYNC_SKIP = {"old/block/anim3/file/fixed", "old/iterm2/anim3/file/dynamic", "old/kitty/still/file/fit-to-width"}
SCN = {n: s for n, s, _ in SCENARIOS}
MODE = {n: m for n, _, m in SCENARIOS}

C_OUT, C_FLUSH, C_RENDER, C_SLEEP = 8, 9, 10, 11
CLS_NAME = {8: "write", 9: "flush", 10: "render", 11: "sleep", 12: "handler", 13: "finalize", 0: "tcgetattr", 1: "tcsetattr"}
BIT_NAME = [(1, "terminal left dirty (parser / pending chunk / cursor / SGR)"), (2, "terminal attributes differ"),
            (4, "render data not finalized"), (8, "image size setting changed"), (16, "frame position changed"),
            (32, "wrong exception behaviour")]

_ESC_SEQ = re.compile(r"\x1b(?:\[[0-?]*[ -/]*[@-~]|[_\]][^\x1b\x07]*(?:\x1b\\|\x07)|\\)")


def is_anim(scn):
    return (scn.get("frames", 1) > 1 or scn.get("indefinite") is not None) and scn.get("animate", True)


def n_frames(scn):
    return scn["indefinite"] if scn.get("indefinite") is not None else scn["frames"] * scn.get("loops", 1)


def j_sweep(s, rng, mode):
    """cut positions for a write of text s; mode: "full" (thorough) | "deep" | "light" (quick)"""
    n = len(s)
    if n == 0:
        return [0]
    js = {0, n}
    spans = [m.span() for m in _ESC_SEQ.finditer(s)]
    if mode == "full" and n <= 600:
        return list(range(n + 1))
    if mode == "light":
        picks, cap = spans[:1], 2
    elif mode == "deep":
        picks, cap = spans[:1] + spans[-1:], 14
    else:
        picks, cap = spans, 136
    for a, b in picks:
        inner = list(range(a + 1, b))
        if len(inner) > cap:
            if mode == "light":
                inner = [inner[0], inner[len(inner) // 2]]
            elif mode == "deep":
                inner = inner[:9] + inner[-5:]
            else:
                inner = inner[:64] + inner[-64:] + [rng.randrange(a + 1, b) for _ in range(8)]
        js.update(inner)
        js.add(a)
        js.add(b)
    for a, b in spans:  # every graphics-protocol string: inside its control data, its payload, its terminator
        if s[a + 1] in "_]" and b - a > 8:
            js.update((a + 1, a + 4, (a + b) // 2, b - 1))
    for _ in range({"light": 1, "deep": 3, "full": 60}[mode]):
        js.add(rng.randrange(n + 1))
    return sorted(js)


def lex_segments(segs):
    toks = []
    for text, cut in segs:
        toks += lexer.lex(text)
    return toks


def nonempty_writes(calls):
    """(call index, text) of the non-empty writes outside the interrupt handler"""
    return [(i, c[1]) for i, c in enumerate(calls) if c[0] == C_OUT and c[1] and not c[2]]


def frames_of(scn, base):
    """the render-output writes of the fault-free run, by the structure the model assumes"""
    ws = [t for _, t in nonempty_writes(base["calls"])]
    if scn["api"] == "old":
        if is_anim(scn):
            return [ws[1 + 2 * i] for i in range(n_frames(scn))]  # HIDE, then per frame: the frame, "\r" + cursor_up
        return [ws[1]]
    h0 = 1 if scn.get("hide_cursor", True) else 0
    if is_anim(scn):
        return [ws[h0 + 2 * i] for i in range(n_frames(scn))]
    return [ws[h0]]


def coords(case, res):
    f = case["fault"]
    calls = res["calls"]
    k = f["k"]
    if k >= len(calls):
        return None
    before = [c for c in calls[:k] if c[0] == C_OUT and c[1] and not c[2]]
    cls, text = calls[k][0], calls[k][1]
    if cls == C_OUT and text:
        j = res["hit"][2]
        pre = lexer.lex(text[:j])
        if pre and pre[-1][0] == "cut":
            return (len(before), len(pre) - 1, pre[-1][1], True)
        return (len(before), len(pre), None, True)
    if cls in (C_OUT, C_FLUSH):
        if not before:
            return (0, 0, None, False)
        return (len(before) - 1, len(lexer.lex(before[-1][1])), None, True)
    return (len(before), 0, None, False)


def scope_end(scn, base):
    """Index of the first faultable call of the fault-free run that belongs to draw()'s own
    clean-up (used to cross-check the skeleton's verdict, and instead of it when the
    translator refuses the source)."""
    calls = base["calls"]
    last = lambda classes: max(i for i, c in enumerate(calls) if c[0] in classes)  # noqa: E731
    if scn["api"] == "old":
        # still: ... render, print(frame, flush) | SGR0 SHOW LF;  animation: ... final next() | CUD, SGR0 SHOW LF
        return last((C_FLUSH, C_RENDER, C_SLEEP)) + 1
    if is_anim(scn):
        # ... final next(), sleep | cursor down, flush, LF, SHOW, flush
        return last((C_RENDER, C_SLEEP)) + 1
    return last((C_RENDER,)) + 3  # the render, the write of its output, its flush | LF, SHOW, flush


def b(x):
    return "true" if x else "false"


def scn_term(scn, base):
    if scn["api"] == "old":
        st = {"block": "SBlock", "kitty": "SKitty", "iterm2": "SIterm"}[scn["style"]]
        lines = max(scn.get("pad_height", 1), base["lines"])
        return f"SOld {st} {b(is_anim(scn))} {core.z(lines)}"
    pad = scn.get("pad", [0, 0, 0, 0])
    h = scn.get("size_wh", [3, 2])[1]
    return (f"SNew {b(scn.get('hide_cursor', True))} {b(is_anim(scn))} {core.z(h)} {core.z(pad[3])} {core.z(pad[0])} "
            f"{b(scn.get('handler', True))}")


def ev_term(e):
    cls, arg, f = e
    ft = ["FNone", "(FBefore KI)", "(FBefore Exc)", "(FAfter KI)", "(FAfter Exc)"][f]
    return f"mkev {cls}%nat {b(arg)} {ft}"


def case_term(sidx, case, res, pos, obs):
    f = case.get("fault") if res.get("injected") else None   # e.g. "after" a next() that raised StopIteration
    kind = 0 if not f else (1 if f["kind"] == "KI" else 2)
    if pos is None:
        pt = "None"
    else:
        k, j, c, inw = pos
        ct = "None" if c is None else "(Some " + {"csi": "CutCsi", "osc": "CutOsc", "apc": "CutApc"}[c] + ")"
        pt = f"(Some (mkpos {k}%nat {j}%nat {ct} {b(inw)}))"
    fin = True if res.get("finalized") is None else res["finalized"]
    return (f"mkcase sc_{sidx} fr_{sidx} {pt} {kind}%nat {b(res.get('started'))} {lexer.coq_toks(obs)} "
            f"{core.coq_list(res['events'], ev_term)} {res['out']}%nat {b(res['termios_same'])} {b(fin)} "
            f"{b(res['size_same'])} {b(res['seek_same'])}")


def describe(name, case, res=None, bits=0):
    f = case.get("fault")
    s = f"{name}: "
    if not f:
        s += "no fault"
    else:
        s += f"faultable call #{f['k']}"
        if res is not None and res.get("hit"):
            cls, text, j = res["hit"]
            s += f" ({CLS_NAME.get(cls, cls)}"
            if text is not None:
                s += f" of {text[:24]!r}{'...' if len(text) > 24 else ''} cut after {j} of {len(text)} characters"
            elif not f.get("after"):
                s += ", before it takes effect"
            else:
                s += ", after it took effect"
            s += ")"
        s += f" raises {'KeyboardInterrupt' if f['kind'] == 'KI' else 'an Exception'}"
    if res is not None:
        s += f" | draw() {['returned', 'raised KeyboardInterrupt', 'raised ' + str(res.get('exc'))][res['out']]}"
        tail = "".join(t for t, _ in res["segs"][-6:])
        s += f" | stream tail {tail[-60:]!r}"
        if bits:
            s += " | VIOLATED: " + "; ".join(n for bit, n in BIT_NAME if bits & bit)
            if bits & 8:
                s += f" size {res.get('size')}"
            if bits & 16:
                s += f" tell {res.get('seek')}"
    return s


def async_ks(res, rng, mode):
    """line-event numbers to fault: [(k, kind)]"""
    n = res["acount"]
    if mode == "all" and n <= 2500:
        return [(k, kind) for k in range(1, n + 1) for kind in ("KI", "Exc")]
    first, last = {}, {}
    for i, g in enumerate(res["groups"]):
        first.setdefault(g, i + 1)
        last[g] = i + 1
    picks = {(k, "KI") for k in first.values()} | {(k, "Exc") for k in last.values()}
    for _ in range(6 if mode == "strata" else (40 if n <= 2500 else 10)):
        picks.add((rng.randrange(1, n + 1), "KI"))
        picks.add((rng.randrange(1, n + 1), "Exc"))
    return sorted(picks)


def acase_term(sidx, case, res, obs):
    origin = "OAsync" if case.get("async") else "OSource"
    kind = 1 if (case.get("async") or {}).get("kind") == "KI" else 2
    fin = True if res.get("finalized") is None else res["finalized"]
    rel = True if res.get("final_released") is None else res["final_released"]
    return (f"mkacase sc_{sidx} {origin} {kind}%nat {b(res.get('cleanup'))} {b(res.get('strict'))} {b(res.get('started'))} "
            f"{lexer.coq_toks(obs)} {res['out']}%nat {b(res['termios_same'])} {b(fin)} {b(rel)} "
            f"{b(res['size_same'])} {b(res['seek_same'])}")


def describe_any(name, case, res=None, bits=0):
    s = f"{name}: "
    if case.get("async"):
        a = case["async"]
        s += f"asynchronous {'KeyboardInterrupt' if a['kind'] == 'KI' else 'OSError'} at line event #{a['k']}"
        if res is not None and res.get("astack"):
            st = res["astack"]
            s += " (" + " > ".join(f"{fn}() {os.path.basename(f)}:{ln}" for f, ln, fn in st[-3:]) + ")"
            if res.get("cleanup"):
                s += f" [clean-up code: {res['cleanup']}]"
    else:
        s += f"source file {case.get('srcfault')} between construction and draw()"
    if res is not None:
        s += f" | draw() {['returned', 'raised KeyboardInterrupt', 'raised ' + str(res.get('exc'))][res['out']]}"
        tail = "".join(t for t, _ in res["segs"][-6:])
        s += f" | stream tail {tail[-60:]!r}"
        if bits:
            s += " | VIOLATED: " + "; ".join(n for bit, n in BIT_NAME if bits & bit)
            if bits & 8:
                s += f" size {res.get('size')}"
            if bits & 16:
                s += f" tell {res.get('seek')}"
    return s


def run(ctx):
    quick = ctx.quick
    rng = ctx.rng
    errors, mismatches, failures = [], [], []
    hist = {"scenario": {}, "fault_kind": {}, "hit_class": {}, "cut_kind": {}, "judgement": {}, "outcome": {}, "spec_bits": {},
            "any_point_scenario": {}, "any_point_fault": {}, "async_scope": {}, "any_point_outcome": {}, "async_function": {}}
    in_scope_any = 0
    impl_timeout = 900 if quick else 3000   # (a loaded machine: the thorough tier needs ~10 CPU-minutes per worker at most)

    if ctx.replay:
        rc = ctx.replay["replay"]["case"]
        names = sync_names = [rc["name"]]
        async_names, src_names = [], []
    else:
        sync_names = [n for n, _, m in SCENARIOS if m or (not quick and n not in SYNC_SKIP)]
        async_names = list(ASYNC_QUICK) if quick else ASYNC_ALL + ASYNC_STRATA
        src_names = [n for n, _ in FILE_SCENARIOS][: 2 if quick else None]
        names = sync_names + [n for n in dict.fromkeys(async_names + src_names) if n not in sync_names]
    # ---- fault-free runs (+ the counting runs of the asynchronous faults)
    base_cases = [{"name": n, "scn": SCN[n], "fault": None} for n in names]
    count_cases = [{"name": n, "scn": SCN[n], "fault": None, "async": {"k": None, "record": True}} for n in async_names]
    all_base = core.run_impl_parallel("impl_c07.py", base_cases + count_cases, timeout=impl_timeout)
    base_res, count_res = all_base[: len(base_cases)], all_base[len(base_cases):]
    sidx = {}
    defs = []
    cases = []
    acases = []   # round 4: asynchronous / source faults, judged by model/C07Any.v
    for i, (c, r) in enumerate(zip(base_cases, base_res)):
        if r.get("abort") or r.get("out") != 0:
            errors.append(f"fault-free run failed: {c['name']}: {r.get('abort') or r.get('exc')}")
            continue
        try:
            frames = frames_of(c["scn"], r)
            ftoks = [lexer.lex(f) for f in frames]
        except (lexer.LexError, IndexError) as e:
            errors.append(f"fault-free run of {c['name']} has an unexpected shape: {type(e).__name__}: {e}")
            continue
        sidx[c["name"]] = i
        defs.append(f"Definition sc_{i} : scn := {scn_term(c['scn'], r)}.\n"
                    f"Definition fr_{i} : list (list tok) := {core.coq_list(ftoks, lexer.coq_toks)}.\n")
        cases.append(c)
        if ctx.replay or c["name"] not in sync_names:
            continue
        for k, call in enumerate(r["calls"]):
            cls, text = call[0], call[1]
            for kind in ("KI", "Exc"):
                if cls == C_OUT:
                    for j in j_sweep(text, rng, MODE[c["name"]] if quick else "full"):
                        cases.append({"name": c["name"], "scn": c["scn"], "fault": {"k": k, "kind": kind, "j": j}})
                else:
                    for after in (False, True):
                        cases.append({"name": c["name"], "scn": c["scn"], "fault": {"k": k, "kind": kind, "j": None, "after": after}})
    if ctx.replay and names[0] in sidx:
        if rc.get("async") or rc.get("srcfault"):
            acases.append({k: v for k, v in rc.items() if k in ("name", "async", "srcfault")} | {"scn": SCN[rc["name"]], "fault": None})
        else:
            cases.append({"name": rc["name"], "scn": SCN[rc["name"]], "fault": rc["fault"]})
    async_positions = {}
    for c, r in zip(count_cases, count_res):
        if c["name"] not in sidx:
            continue
        if r.get("abort") or r.get("out") != 0 or not r.get("acount"):
            errors.append(f"counting run failed: {c['name']}: {r.get('abort') or r.get('exc')}")
            continue
        mode = "strata" if quick else ("strata+" if c["name"] in ASYNC_STRATA else "all")
        ks = async_ks(r, rng, mode)
        async_positions[c["name"]] = {"line_events": r["acount"], "call_site_chains": len(r["group_keys"]), "faulted": len(ks)}
        for k, kind in ks:
            acases.append({"name": c["name"], "scn": c["scn"], "fault": None, "async": {"k": k, "kind": kind}})
    for n in src_names:
        if n in sidx:
            for how in SRC_FAULTS:
                acases.append({"name": n, "scn": SCN[n], "fault": None, "srcfault": how})
    # stripe the cases over the workers (the expensive scenarios are contiguous)
    every = cases + acases
    perm = [i for r in range(core.NCPU) for i in range(r, len(every), core.NCPU)]
    striped = core.run_impl_parallel("impl_c07.py", [every[i] for i in perm], timeout=impl_timeout)
    results = [None] * len(every)
    for i, r in zip(perm, striped):
        results[i] = r
    results, aresults = results[: len(cases)], results[len(cases):]

    # ---- encode
    keys, key_idx, owner = [], {}, []
    for c, r in zip(cases, results):
        if r.get("abort"):
            errors.append(f"run aborted: {describe(c['name'], c)}: {r['abort']}")
            owner.append(None)
            continue
        if not r.get("master_ok"):
            errors.append(f"pty master bytes differ from what the stream delivered: {describe(c['name'], c)} {r.get('master_diff')}")
            owner.append(None)
            continue
        try:
            obs = lex_segments(r["segs"])
            pos = coords(c, r) if c.get("fault") and r.get("injected") else None
            term = case_term(sidx[c["name"]], c, r, pos, obs)
        except lexer.LexError as e:
            errors.append(f"unlexable stream: {describe(c['name'], c)}: {e}")
            owner.append(None)
            continue
        if term not in key_idx:
            key_idx[term] = len(keys)
            keys.append(term)
        owner.append(key_idx[term])
    header = ("From Coq Require Import List ZArith Bool Arith.\nImport ListNotations.\n"
              "From TI Require Import lib.Term lib.Eff model.SkelTie model.DrawInt model.C07Spec @TIE@.\nOpen Scope Z_scope.\n"
              + "".join(defs))
    codes = {}
    tie, spec, gen = core.COQ / "model" / "C07Tie.vo", core.COQ / "model" / "C07Spec.vo", core.COQ / "gen" / "Skeletons.v"
    # never judge against a stale comparison module (its build fails when the translator refuses the source)
    coq_ok = tie.exists() and gen.exists() and tie.stat().st_mtime >= gen.stat().st_mtime
    spec_ok = spec.exists()
    shard = max(30, (len(keys) + core.NCPU - 1) // core.NCPU)
    if coq_ok and keys:
        bad, errs = core.coq_shards("c07", header.replace("@TIE@", "model.C07Tie"), keys, "tcase", "bad cases", shard=shard)
        if errs:
            coq_ok = False
            errors += [e[-900:] for e in errs[:3]]
        codes = {i: (v // 100, v % 100) for i, v in bad}
    spec_codes = None
    if not coq_ok:
        errors.append("model/C07Tie.vo is missing or older than gen/Skeletons.v (the translator refused the source or the build "
                      "failed): the call traces were not judged against the skeleton; scope decided by position")
        if spec_ok and keys:
            vals, errs = core.coq_shards("c07s", header.replace("@TIE@", ""), keys, "tcase", "spec_only cases", shard=shard)
            if errs:
                errors += [e[-900:] for e in errs[:3]]
            else:
                spec_codes = {i: (v // 100, v % 100) for i, v in vals}
    ends = {c["name"]: scope_end(c["scn"], r) for c, r in zip(base_cases, base_res) if c["name"] in sidx}

    distinct = set()
    in_scope_fault_runs = 0
    for c, r, o in zip(cases, results, owner):
        if o is None:
            continue
        f = c.get("fault") if r.get("injected") else None
        inscope = (not f) or f["k"] < ends[c["name"]]
        if coq_ok:
            code, bits = codes.get(o, (0, 0))
            if code in (0, 2, 4, 10) and (code != 10) != inscope:
                mismatches.append({"case": describe(c["name"], c, r), "why": "the skeleton places the fault "
                                   + ("inside" if code == 10 else "outside") + " draw()'s clean-up, its position says otherwise"})
        elif spec_codes is not None:
            differs, bits = spec_codes.get(o, (0, 0))
            code = 10 if not inscope else (2 if bits else (4 if differs else 0))
        else:
            code, bits = 99, 0  # not judged
        hist["scenario"][c["name"]] = hist["scenario"].get(c["name"], 0) + 1
        fk = "none" if not f else f["kind"]
        hist["fault_kind"][fk] = hist["fault_kind"].get(fk, 0) + 1
        if r.get("hit"):
            hc = CLS_NAME.get(r["hit"][0], str(r["hit"][0]))
            hist["hit_class"][hc] = hist["hit_class"].get(hc, 0) + 1
        cuts = [t for t, cut in r["segs"] if cut]
        if cuts:
            last = lexer.lex(cuts[-1])
            ck = last[-1][1] if last and last[-1][0] == "cut" else "between-sequences"
            hist["cut_kind"][ck] = hist["cut_kind"].get(ck, 0) + 1
            opened = [t for t in last if t[0] in ("kfirst", "kcont")]
            if opened and opened[-1][-3 if opened[-1][0] == "kfirst" else -3] is True:
                hist["cut_with_chunked_transmission_pending"] = hist.get("cut_with_chunked_transmission_pending", 0) + 1
        hist["judgement"][str(code)] = hist["judgement"].get(str(code), 0) + 1
        hist["outcome"][str(r["out"])] = hist["outcome"].get(str(r["out"]), 0) + 1
        if bits:
            hist["spec_bits"][str(bits)] = hist["spec_bits"].get(str(bits), 0) + 1
        if f and code == 0:
            in_scope_fault_runs += 1
            distinct.add(o)
        if code in (2, 3) or (not f and bits):
            failures.append({
                "signature": core.sig({"scenario": c["name"], "fault": f}),
                "what": "interrupted draw() leaves an obligation open: " + describe(c["name"], c, r, bits)
                        + ("" if coq_ok else " [scope decided by position: the translated skeleton is unavailable]"),
                "replay": {"case": {"name": c["name"], "scn": c["scn"], "fault": f}, "bits": bits, "code": code,
                           "observed": {k: r.get(k) for k in ("out", "exc", "termios_same", "finalized", "size", "seek", "hit")},
                           "stream": "".join(t for t, _ in r["segs"])[-400:]},
            })
        elif code in (1, 4):
            mismatches.append({"case": describe(c["name"], c, r),
                               "why": "the observed call trace is not a run of the translated skeleton" if code == 1
                               else "the observed token stream differs from model/DrawInt.v",
                               "events": r["events"] if code == 1 else None})
    # ---- round 4: asynchronous / source faults, judged by model/C07Any.v (specification only)
    akeys, akey_idx, aowner = [], {}, []
    for c, r in zip(acases, aresults):
        if r.get("abort"):
            errors.append(f"run aborted: {describe_any(c['name'], c)}: {r['abort']}")
            aowner.append(None)
            continue
        if c.get("async") and not r.get("afired"):
            hist["async_scope"]["not reached (the run had fewer line events)"] = \
                hist["async_scope"].get("not reached (the run had fewer line events)", 0) + 1
            aowner.append(None)
            continue
        if not r.get("master_ok"):
            errors.append(f"pty master bytes differ from what the stream delivered: {describe_any(c['name'], c, r)} {r.get('master_diff')}")
            aowner.append(None)
            continue
        try:
            term = acase_term(sidx[c["name"]], c, r, lex_segments(r["segs"]))
        except lexer.LexError as e:
            errors.append(f"unlexable stream: {describe_any(c['name'], c, r)}: {e}")
            aowner.append(None)
            continue
        if term not in akey_idx:
            akey_idx[term] = len(akeys)
            akeys.append(term)
        aowner.append(akey_idx[term])
    acodes = {}
    any_ok = (core.COQ / "model" / "C07Any.vo").exists()
    if akeys and any_ok:
        aheader = ("From Coq Require Import List ZArith Bool Arith.\nImport ListNotations.\n"
                   "From TI Require Import lib.Term model.DrawInt model.C07Spec model.C07Any.\nOpen Scope Z_scope.\n" + "".join(defs))
        abad, errs = core.coq_shards("c07a", aheader, akeys, "acase", "bad_any cases",
                                     shard=max(30, (len(akeys) + core.NCPU - 1) // core.NCPU))
        if errs:
            any_ok = False
            errors += [e[-900:] for e in errs[:3]]
        acodes = {i: (v // 100, v % 100) for i, v in abad}
    elif akeys:
        errors.append("model/C07Any.vo is missing: the asynchronous / source faults were not judged")
    afailures = []
    for c, r, o in zip(acases, aresults, aowner):
        if o is None or not any_ok:
            continue
        code, bits = acodes.get(o, (0, 0))
        what = "async-" + c["async"]["kind"] if c.get("async") else "source-" + c["srcfault"]
        hist["any_point_scenario"][c["name"]] = hist["any_point_scenario"].get(c["name"], 0) + 1
        hist["any_point_fault"][what] = hist["any_point_fault"].get(what, 0) + 1
        scope = "in scope" if code != 10 else "clean-up code: " + re.sub(r"\d+", "N", re.sub(r" of .*| \(.*", "", r.get("cleanup") or "?"))
        hist["async_scope"][scope] = hist["async_scope"].get(scope, 0) + 1
        hist["any_point_outcome"][str(r["out"])] = hist["any_point_outcome"].get(str(r["out"]), 0) + 1
        if c.get("async") and r.get("astack"):
            fn = r["astack"][-1][2]
            hist["async_function"][fn] = hist["async_function"].get(fn, 0) + 1
        if code == 0:
            in_scope_any += 1
            distinct.add(("any", o))
        elif code == 2:
            hist["spec_bits"][str(bits)] = hist["spec_bits"].get(str(bits), 0) + 1
            rcase = {"name": c["name"], "scn": c["scn"], "fault": None}
            if c.get("async"):
                rcase["async"] = c["async"]
            else:
                rcase["srcfault"] = c["srcfault"]
            afailures.append({
                "signature": core.sig({"scenario": c["name"], "async": c.get("async"), "srcfault": c.get("srcfault")}),
                "what": "interrupted / failed draw() leaves an obligation open: " + describe_any(c["name"], c, r, bits),
                "replay": {"case": rcase, "bits": bits, "code": code,
                           "observed": {k: r.get(k) for k in ("out", "exc", "termios_same", "finalized", "final_released", "size",
                                                              "seek", "astack", "strict", "started")},
                           "stream": "".join(t for t, _ in r["segs"])[-400:]},
            })
    # smallest failing input first; one per (scenario, violated obligations, fault kind, class of the faulted call)
    def size(fl):
        f = fl["replay"]["case"]["fault"] or {}
        return (len(json.dumps(fl["replay"]["case"]["scn"])), f.get("k", -1), f.get("j") or 0)
    failures.sort(key=size)
    total_failing = len(failures) + len(afailures)
    seen, kept = set(), []
    for fl in failures:
        f = fl["replay"]["case"]["fault"] or {}
        hit = fl["replay"]["observed"].get("hit") or [None]
        key = (fl["replay"]["case"]["name"], fl["replay"]["bits"], f.get("kind"), hit[0])
        if key not in seen:
            seen.add(key)
            kept.append(fl)
    failures = kept
    # asynchronous / source faults: source faults first (no position to shrink), then the smallest scenario and the
    # earliest line event; one per (scenario, violated obligations, kind of fault, interrupted function)
    def asize(fl):
        rc_ = fl["replay"]["case"]
        return (0 if rc_.get("srcfault") else 1, len(json.dumps(rc_["scn"])), (rc_.get("async") or {}).get("k", 0))
    afailures.sort(key=asize)
    for fl in afailures:
        rc_ = fl["replay"]["case"]
        st = fl["replay"]["observed"].get("astack") or [[None, None, None]]
        key = (rc_["name"], fl["replay"]["bits"], rc_.get("srcfault") or rc_["async"]["kind"], st[-1][2])
        if key not in seen:
            seen.add(key)
            failures.append(fl)

    picks = [i for i, c in enumerate(cases) if c.get("fault") and owner[i] is not None]
    samples = [describe(cases[0]["name"], cases[0], results[0])] if cases else []
    for i in picks[:: max(1, len(picks) // 2)][:2]:
        samples.append(describe(cases[i]["name"], cases[i], results[i]))
    apicks = [i for i, c in enumerate(acases) if aowner[i] is not None]
    for i in apicks[len(apicks) // 5:: max(1, len(apicks) // 2)][:2] + [i for i in apicks if acases[i].get("srcfault")][:1]:
        samples.append(describe_any(acases[i]["name"], acases[i], aresults[i]))
    for i in picks[:: max(1, len(picks) // 5)][1:4]:
        samples.append(describe(cases[i]["name"], cases[i], results[i]))
    top = sorted(hist["async_function"].items(), key=lambda kv: -kv[1])
    hist["async_function"] = dict(top[:30]) | ({"(other functions)": sum(v for _, v in top[30:])} if top[30:] else {})
    return {
        "corr_name": "fault enumeration of draw() on a pty (3 old-API styles + an instrumented Renderable; still / animated): "
                     "final terminal state of Term.exec on the observed stream + termios / finalized / size / seek / exception, "
                     "call trace vs. translated skeleton, token stream vs. model/DrawInt.v",
        "evaluations": len(cases) + len(acases),
        "distinct_nontrivial": len(distinct),
        "rule": f"{len(names)} scenarios ({', '.join(names)}); for each the fault-free run, then FOR ALL k the k-th faultable call "
                "(every stream write() incl. the empty sep/end strings of print(), flush(), sleep, frame render / next frame; "
                "clean-up included) raises KeyboardInterrupt or an Exception (OSError for the stream, RuntimeError otherwise): "
                "non-write calls before / after their effect; writes after delivering j characters, j in {0, len} + "
                + ("every position inside the first and the last escape sequence of the text (long sequences: first 9 / last 5), 4 positions inside every APC / OSC string (after ESC, in the control data, mid-payload, inside the terminator) + 3 random"
                   if quick else "every position (texts over 600 characters: 64 leading / trailing positions of every escape sequence + "
                   "68 random)")
                + ".  Non-trivial: distinct observations (stream, trace, outcome) with a fault that the skeleton places outside "
                "the operation's own clean-up, judged in Coq as agreeing with specification and model.  "
                f"ANY-POINT faults (round 4), scenarios {', '.join(async_names)}: an asynchronous KeyboardInterrupt / OSError at the "
                "k-th line event executed inside term_image code during draw() -- "
                + ("one k per distinct chain of call sites (draw() down to depth 3 + the interrupted function): first occurrence "
                   "KeyboardInterrupt, last occurrence OSError, + 6 random k per kind" if quick else
                   f"ALL k, both kinds, for {', '.join(ASYNC_ALL)}; one k per chain of call sites + 40 random per kind for the others")
                + f"; source faults {SRC_FAULTS} on the file-sourced scenarios {', '.join(src_names)}.  Clean-up positions (decided "
                "from the source text) are run and counted but not judged.  Non-trivial: distinct in-scope observations judged clean.",
        "samples": samples,
        "histogram": hist,
        "mismatches": mismatches,
        "failures": failures,
        "errors": errors,
        "assumptions": [
            "terminal semantics of coq/lib/Term.v: a cut CSI is aborted by the next escape sequence (C0 controls execute inside "
            "it), a cut APC / OSC string swallows everything up to ST, `q=1,m=0` ends a pending chunked transmission",
            "an interrupted write delivers a prefix of its text (character granularity) and nothing of it later; each write() call "
            "is lexed on its own, the interrupted one ending in TCut",
            "asynchronous delivery between two bytecodes is represented as the next faultable call raising before its effect / "
            "the previous one raising after it; signals landing inside the clean-up itself are outside the property",
            "the control-flow proof abstracts data conditions to nondeterministic choice and trusts the call table of "
            "harness/tx/tx_skel.py (validated here by the trace judgement)",
            "new API: the render output and _handle_interrupted_draw_ belong to the subclass; the terminal-side theorem is for "
            "text frames (C0 + CSI tokens, ending in SGR reset) and any handler that grounds the parser and resets SGR "
            "(CSI 0 m as the docstring hints); a cursor-positioning write cut inside its CSI with hide_cursor=False before the "
            "first frame is complete leaves that CSI open (ended by the next escape sequence or character): accepted",
            "animations: KeyboardInterrupt raised before the first frame render call is reached (HIDE_CURSOR write; with "
            "asynchronous delivery: anything before the animation loop's try is entered) may propagate",
            "asynchronous faults are delivered at 'line' events (harness/impl/asyncfault.py); the line of a `try:` keyword is "
            "not a position (CPython 3.12 compiles it to a NOP outside the enclosing exception table and polls for signals at "
            "calls, function entries and backward jumps only); positions lexically inside an except clause / finally body of "
            "any active term_image frame, or inside close() / finalize() / __del__ / __exit__ / _close_image / "
            "_handle_interrupted_draw[_], are clean-up code (outside the property)",
            "render data created before draw()'s try is entered may be left to RenderData.__del__ by a fault in that window "
            "(checked: it IS finalized once the exception object is released); inside draw()'s try ... finally it must be "
            "finalized when draw() raises",
            "an asynchronous OSError may be absorbed by a local fallback of the library (e.g. `except (AttributeError, OSError)` "
            "around os.access): draw() then completes and every other obligation is still required",
        ],
        "trusted": ["harness/tx/tx_skel.py (Python ast -> prog, fail-closed)", "harness/lexer.py",
                    "the pty driver harness/impl/impl_c07.py (sys.stdout replacement on the pty slave, patches print in the image "
                    "modules, time.sleep, _render_image, ImageIterator._animate, RenderIterator.__next__, termios.tc[gs]etattr, "
                    "RenderData.finalize, RenderData.__del__; sys.settrace for the asynchronous faults; ast for the clean-up "
                    "regions)", "harness/impl/asyncfault.py"],
        "extra": {"in_scope_fault_runs": in_scope_fault_runs, "distinct_observations_judged": len(keys),
                  "failing_runs_total": total_failing, "any_point_runs": len(acases), "any_point_in_scope_clean": in_scope_any,
                  "any_point_distinct_observations_judged": len(akeys), "async_positions": async_positions},
    }
