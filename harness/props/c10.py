"""C10 — render data is finalized exactly once and never used afterwards.

Correspondence + fault enumeration.  Two families of cases, all run on the real code over
the instrumented renderable of impl/impl_c10.py (VR10, built on C08's VR):

* iterator histories (generator of C08) on iterators made by `RenderIterator(...)`,
  `_from_render_data_(finalize=False)` and `_from_render_data_(finalize=True)`; every
  history is run unfaulted and then once per (k, kind): `kind` in {RuntimeError,
  StopIteration[, AttributeError]} injected into the k-th `_render_` call FOR ALL k below
  the number of `_render_` calls of the unfaulted run, followed by a probe suffix (next /
  seek / four setters / close / next / drop / seek).  Plus faults inside render-data
  creation (`_get_render_size_`, `_get_render_data_`).  Observed after every operation:
  calls of `_finalize_render_data_` on the data, `RenderData.finalized`, `_closed`; the
  `finalized` flag seen by every `_render_`; state after `del iterator; gc.collect()`.
* one-shot operations `render()`, `str()`, `draw()` (to a StringIO; still and animated;
  with size-validation failures), again with every fault position enumerated.
* a finalizer that raises: `_finalize_render_data_` raises RuntimeError at scheduled
  invocation numbers (per data object; [0], [1], [0, 1]) - on the unfaulted history (as is,
  so that it often fires at garbage collection, and with the probe suffix) and combined
  with every render-fault position; observed additionally: where the exception came out
  (next / close / drop / the caller's own finalize()), those reported as unraisable inside
  a `__del__`.  Model side: model/IterFin.v (Iter + oracle), `close()` as repaired by
  pending_fixes/C10_close_finalizer_raises.diff.

* a close() that arrives while a frame is being rendered: fault kinds 7 / 8 = the renderable
  calls `iterator.close()` from inside its k-th `_render_` (FOR ALL k) and lets the resulting
  ValueError ("generator already executing") propagate / swallows it; observed additionally:
  what the nested close() did and `_closed` right after it.  Model: model/IterReent.v.
* sessions over ONE render data object: iterators made one after the other by
  `_from_render_data_` (finalize False / True) and by `_animate_`, operations on the
  current one, `data.finalize()` by the owner in between (and then the data handed in
  again), every render-fault position; observed per step: outcome (made / refused / ...),
  finalize calls, flag; the flag seen by every `_render_`.  Model: model/IterSession.v
  ([scheck10]).

* "drawio": USES of render data other than `_render_`.  One draw() (still / animated), render() or
  str() of the instrumented renderable, which records `RenderData.finalized` at EVERY entry into
  renderable-defined code that is handed the render data (`_render_`, `_handle_interrupted_draw_`,
  `_clear_frame_`, `_finalize_render_data_`), on an output stream whose k-th write()/flush() call
  raises KeyboardInterrupt / OSError FOR ALL k (incl. the calls of the clean-up blocks), with the
  j-th sleep() interrupted FOR ALL j, combined with a failing q-th `_render_`; plus a
  KeyboardInterrupt delivered asynchronously at the k-th line executed inside draw() / _animate_
  (asyncfault.py; every line in the thorough tier, a spread in the quick tier).  Model:
  model/DrawUse.v; judge: model/DrawUseTie.v ([dcheck10]: bit 2 = some entry saw finalized data,
  or the finalizer was not entered exactly once per render data object).

* "ctor" and "nest" (props/c10_life.py, driver impl/impl_c10_life.py): faults DURING THE CONSTRUCTION of an
  iterator (client padding code, allocation, interrupts at every line; the half-built object is dropped and
  collected; model/IterCtor.v, judge model/IterCtorTie.v [ccheck]) and SEVERAL render-data objects alive at once
  with nested / concurrent finalization (composite renderables, a second thread gated inside a finalizer;
  model/FinNest.v, judge model/FinNestTie.v [ncheck]).

* "client" (props/c10_client.py, driver impl/impl_c10_client.py): ALL client code that runs inside next() - `_render_`,
  the padding object's `pad` / `get_padded_size` / `_get_exact_dimensions_` (a client Padding subclass), a non-Frame
  returned by `_render_` - failing at the k-th call FOR ALL k of a history (model/IterClient.v, judge
  model/IterClientTie.v [kcheck]).

model/IterFinTie.v judges inside Coq: [check10] / [ocheck10] = bit 1 (differs from the
finalisation ghost of the code model Iter) + bit 2 (the observations alone contradict the
property: double finalize, render on finalized data, leak, a caller's data finalized,
iterator open after it ended)."""
from __future__ import annotations

import copy
import json
import random

import core
from props import c08 as base
from props import c10_life as life

LEVEL = "proof"
EXTRA_TARGETS = ["model/IterFinTie.vo", "model/DrawUseTie.vo", "model/IterCtorTie.vo", "model/FinNestTie.vo",
                 "model/IterClientTie.vo"]

N = ["next"]
KINDS = {0: "StopIteration", 1: "RuntimeError", 2: "AttributeError", 3: "KeyError", 4: "ValueError",
         5: "IndexError", 7: "iterator.close() from inside _render_, its ValueError propagates",
         8: "iterator.close() from inside _render_, its ValueError swallowed"}
CTOR_KIND = {"init": 0, "frd_keep": 1, "frd_give": 2}
MODE = {"render": 0, "str": 1, "draw": 2}
HEADER = ("From Coq Require Import List ZArith.\nImport ListNotations.\n"
          "From TI Require Import model.Iter model.IterSpec model.IterTie model.IterSession model.IterFinTie.\n"
          "Open Scope nat_scope.\n")
DHEADER = ("From Coq Require Import List.\nImport ListNotations.\n"
           "From TI Require Import model.DrawUse model.DrawUseTie.\nOpen Scope nat_scope.\n")
DOP = {"draw": 0, "render": 1, "str": 2}
HOOKS = {0: "_render_", 1: "_handle_interrupted_draw_", 2: "_clear_frame_", 3: "_finalize_render_data_"}


# ----------------------------------------------------------------- generators


def ctor_of(c):
    return c.get("ctor") or ("init" if c.get("owns", True) else "frd_keep")


def norm(c):
    """the `owns` field of the C08 encoding follows the constructor kind"""
    c["ctor"] = ctor_of(c)
    c["owns"] = c["ctor"] != "frd_keep"
    return c


def gen_iter(rng, i, quick):
    c = base.gen_case(rng, 14 if quick else (25 if i % 4 else 40), fault_p=0.0)
    c["faults"] = {}
    c["ctor"] = rng.choices(["init", "frd_keep", "frd_give"], [50, 30, 20])[0]
    if c["n"] and rng.random() < 0.08:
        c["ffaults"] = {str(rng.randrange(c["n"])): rng.choice([0, 1])}
    kinds = [1, 0, 7, 8]
    if rng.random() < 0.25:
        kinds.append(rng.choice([2, 2, 3, 4, 5]))
    c["enumerate"] = kinds
    c["enumerate_fin"] = [[0]] if rng.random() < 0.85 else [[0], [1]]
    if rng.random() < 0.04:
        c["ctor"] = "init"
        c[rng.choice(["size_fault", "data_fault"])] = True
    return norm(c)


def iter_case(**kw):
    c = base.base_case(**kw)
    c.setdefault("enumerate", [1, 0, 2, 7, 8])
    c.setdefault("enumerate_fin", [[0], [1], [0, 1]])
    return norm(c)


S = base.S
ITER_CORPUS = [
    # exhaustion, every fault position on the way (first frame, pass boundary, last frame)
    iter_case(n=3, loops=2, cache=True, ops=[N] * 8),
    iter_case(n=2, loops=1, ops=[N] * 4),
    iter_case(n=2, loops=-1, cache=2, ops=[N] * 5),
    # the same for a caller's data (kept) and for handed-over data
    iter_case(n=3, loops=2, ctor="frd_keep", ops=[N] * 8),
    iter_case(n=3, loops=2, ctor="frd_give", ops=[N] * 8),
    iter_case(n=2, ctor="frd_keep", ops=[N, ["close"], N, ["close"], ["drop"]]),
    iter_case(n=2, ctor="frd_give", ops=[N, ["drop"], N, ["close"]]),
    # close / drop while the generator is at its dummy frame (nothing rendered yet)
    iter_case(n=2, ops=[["close"], N, S(0), ["close"]]),
    iter_case(n=2, ops=[["drop"], ["drop"], N]),
    iter_case(n=2, ctor="frd_keep", ops=[["drop"], N, S(0)]),
    # never closed explicitly: garbage collection does it
    iter_case(n=3, ops=[N, N]),
    iter_case(n=3, ops=[]),
    iter_case(n=3, ctor="frd_keep", ops=[N, S(2), N]),
    # INDEFINITE streams: StopIteration is the normal end; errors; seeks in between
    iter_case(n=None, total=4, ops=[N] * 6),
    iter_case(n=None, total=5, ctor="frd_keep", ops=[N, S(2, 1), N, N, N, N]),
    iter_case(n=None, total=3, ctor="frd_give", ops=[N, N, S(0), N, N, N, N]),
    # cached frames: a fault can only hit a render, never a cache hit
    iter_case(n=2, loops=3, cache=True, stamp=True, ops=[N, N, N, ["size", [2, 1]], N, N, N, N]),
    # setters and rejected operations between the renders
    iter_case(n=3, loops=2, ops=[N, ["dur", 0], ["args", "bad"], S(7), N, ["pad", ["A", 0, 0, 1, 1]], N, N, S(1), N]),
    # deterministic frame failure
    dict(iter_case(n=3, loops=2, cache=True, ops=[N] * 5), ffaults={"1": 1}),
    dict(iter_case(n=3, loops=2, ops=[N] * 5, ctor="frd_keep"), ffaults={"2": 0}),
    # failing construction: nothing of the caller's is touched; abandoned data is collected
    iter_case(loops=0), iter_case(cache=0), iter_case(args="bad"), iter_case(n=1),
    iter_case(loops=0, ctor="frd_keep"), iter_case(cache=-1, ctor="frd_give"), iter_case(args="bad", ctor="frd_keep"),
    iter_case(n=1, ctor="frd_give"),
    iter_case(n=3, size_fault=True, ops=[N]), iter_case(n=3, data_fault=True, ops=[N]),
    iter_case(n=None, total=3, size_fault=True), iter_case(loops=0, size_fault=True),
    iter_case(args="bad", data_fault=True),
]

BIG_SIZES = [[81, 1], [1, 31], [80, 30], [100, 40], [80, 31]]
BIG_PADS = [["E", 40, 0, 41, 0], ["E", 0, 15, 0, 16], ["A", 81, 1, 1, 1], ["A", 1, 31, 0, 2], ["A", 80, 30, 1, 1]]
DRAW_PADS = [["A", 0, -2, 1, 1], ["E", 0, 0, 0, 0], ["E", 1, 1, 1, 1], ["A", 0, 0, 1, 1], ["A", 10, 5, 2, 0]]


def oneshot_case(mode, **kw):
    c = {"mode": mode, "n": 3, "total": 4, "loops": 2, "cache": True, "size": [2, 1], "dur": 7, "args": "none",
         "pad": ["A", 0, -2, 1, 1], "frame": 0, "stamp": False, "faults": {}, "ffaults": {}, "animate": True,
         "check_size": True, "allow_scroll": False, "size_fault": False, "enumerate": [1, 0, 2],
         "enumerate_fin": [[0], [1]]}
    c.update(kw)
    return c


def gen_oneshot(rng, i):
    mode = rng.choices(["render", "str", "draw"], [25, 12, 63])[0]
    n = rng.choice([1, 2, 3, 3, 5, None, None])
    c = oneshot_case(
        mode, n=n, total=rng.randint(1, 6),
        loops=rng.choice([1, 1, 2, 3]) if rng.random() > 0.06 else 0,
        cache=rng.choice([False, True, 2, 3, 100]) if rng.random() > 0.06 else rng.choice([0, -1]),
        size=list(rng.choice(base.SIZES)) if rng.random() > 0.2 else list(rng.choice(BIG_SIZES)),
        dur=rng.choice(base.DURS), args=rng.choice(base.ARGS) if rng.random() > 0.05 else "bad",
        pad=list(rng.choice(DRAW_PADS + base.PADS_EXACT + base.PADS_ABS + base.PADS_REL)) if rng.random() > 0.15
        else list(rng.choice(BIG_PADS)),
        frame=0 if n is None or n < 2 or rng.random() < 0.5 else rng.randrange(n),
        stamp=rng.random() < 0.3, animate=rng.random() < 0.75, check_size=rng.random() < 0.7,
        allow_scroll=rng.random() < 0.4, size_fault=rng.random() < 0.05,
    )
    if n is None and rng.random() < 0.3:
        c["loops"] = -1  # ignored for INDEFINITE sources
    if n and n > 1 and rng.random() < 0.1:
        c["ffaults"] = {str(rng.randrange(n)): rng.choice([0, 1, 4])}
    kinds = [1, 0]
    if rng.random() < 0.25:
        kinds.append(rng.choice([2, 3, 4, 5]))
    c["enumerate"] = kinds
    c["enumerate_fin"] = [[0]]
    return c


ONESHOT_CORPUS = [
    oneshot_case("render"), oneshot_case("render", n=1), oneshot_case("render", n=None),
    oneshot_case("render", n=5, frame=3, pad=["E", 1, 1, 1, 1]), oneshot_case("render", args="bad"),
    oneshot_case("render", size_fault=True), oneshot_case("render", size=[100, 40]),
    oneshot_case("str"), oneshot_case("str", n=1), oneshot_case("str", n=None), oneshot_case("str", size_fault=True),
    oneshot_case("str", args="bad"),
    # draw, still
    oneshot_case("draw", n=1), oneshot_case("draw", animate=False), oneshot_case("draw", n=None, animate=False),
    oneshot_case("draw", n=1, size=[81, 1]), oneshot_case("draw", n=1, size=[81, 1], check_size=False),
    oneshot_case("draw", n=1, size=[1, 31]), oneshot_case("draw", n=1, size=[1, 31], allow_scroll=True),
    oneshot_case("draw", n=1, size=[1, 29]), oneshot_case("draw", n=1, size=[1, 28]),
    oneshot_case("draw", n=1, pad=["E", 40, 0, 41, 0]), oneshot_case("draw", n=1, args="bad"),
    oneshot_case("draw", n=1, size_fault=True), oneshot_case("draw", animate=False, frame=2),
    # draw, animated: every frame render a fault position
    oneshot_case("draw"), oneshot_case("draw", loops=1), oneshot_case("draw", n=2, loops=3, cache=2),
    oneshot_case("draw", n=None, total=4), oneshot_case("draw", n=None, total=1), oneshot_case("draw", n=None, loops=-1),
    oneshot_case("draw", size=[1, 31], allow_scroll=True, check_size=False),  # animations are always validated
    oneshot_case("draw", size=[81, 1]), oneshot_case("draw", pad=["E", 0, 15, 0, 16]),
    oneshot_case("draw", loops=0), oneshot_case("draw", cache=0), oneshot_case("draw", cache=0, loops=1),
    oneshot_case("draw", args="bad"), oneshot_case("draw", size_fault=True), oneshot_case("draw", args=2, dur=None),
    dict(oneshot_case("draw", loops=3), ffaults={"1": 1}), dict(oneshot_case("draw", loops=3), ffaults={"2": 0}),
]


def mk_cfg(kind="keep", loops=1, cache=False, args="none", pad=None):
    return {"kind": kind, "loops": loops, "cache": cache, "args": args, "pad": pad or ["E", 0, 0, 0, 0]}


def session_case(steps, **kw):
    c = {"mode": "session", "n": 2, "total": 4, "size": [1, 1], "dur": 1, "frame": 0, "stamp": False, "faults": {},
         "ffaults": {}, "steps": steps, "enumerate": [1, 0]}
    c.update(kw)
    return c


MK, AN, OF = (lambda **kw: ["make", mk_cfg(**kw)]), (lambda **kw: ["animate", mk_cfg(**kw)]), ["ownerfin"]
OP = lambda o: ["op", o]  # noqa: E731
SESSION_CORPUS = [
    # m6 shape A: non-owning iteration to exhaustion, the owner finalizes, the data is handed in again
    session_case([MK(), OP(N), OP(N), OP(N), OF, MK(), OP(N), MK(kind="give"), OP(N)]),
    # the same, closed early; and never closed (dropped by the next make)
    session_case([MK(), OP(N), OP(["close"]), OF, MK(), OP(N)], n=3),
    session_case([MK(), OP(N), MK(), OP(N), OP(N), OF, MK(), OP(N), AN()], n=3),
    # m6 shape B: _animate_ twice with the owner's finalize in between (what a draw() override would do)
    session_case([AN(), OF, AN(), MK(), OP(N)]),
    session_case([AN(loops=2, cache=True, args=1, pad=["E", 1, 0, 0, 0]), AN(), OF, AN(loops=2)], n=3),
    session_case([AN(), AN(), AN(), OF, OF, AN()], n=None, total=3),
    # live data handed over to an owning iterator: it finalizes; every later construction is refused
    session_case([MK(), OP(N), MK(kind="give"), OP(N), OP(N), OP(N), MK(), OP(N), MK(kind="give"), AN(), OF]),
    session_case([MK(kind="give"), OP(N), MK(), OP(N), OF, MK()], n=3),
    session_case([MK(kind="give"), OP(["drop"]), MK(kind="keep"), MK(kind="give")]),
    # several non-owning iterators, settings left in the data by one are seen by the next
    session_case([MK(), OP(N), OP(["size", [2, 1]]), OP(["dur", 7]), OP(N), MK(), OP(N), OP(["seek", 1, 0, True]), OP(N),
                  MK(args=2, pad=["E", 1, 1, 0, 0]), OP(N), OP(N), OF], n=3),
    session_case([MK(), OP(N), OP(["seek", 2, 1, True]), OP(N), MK(), OP(N), OP(N), OP(N), OP(N), OF, MK()], n=None, total=6),
    # refused constructions on live data change nothing
    session_case([MK(loops=0), MK(cache=0), MK(args="bad"), MK(), OP(N), MK(loops=0), OP(N), OF]),
    # the owner finalizes before any iterator exists
    session_case([OF, MK(), MK(kind="give"), AN(), OP(N)]),
    # the owner's misuse (finalize under a live iterator): model agreement only
    session_case([MK(), OP(N), OF, OP(N), OP(N)], n=3),
]


def gen_session(rng, i):
    n = rng.choice([2, 2, 3, 3, 5, None])
    steps, live, finalized = [], False, False
    for _ in range(rng.randint(2, 5)):
        if rng.random() < 0.3:
            steps.append(AN(loops=rng.choice([1, 1, 2]) if rng.random() > 0.05 else 0,
                            cache=rng.choice([False, True, 100]), args=rng.choice(["none", 0, 1, 2]),
                            pad=list(rng.choice(base.PADS_EXACT + base.PADS_ABS))))
            live = False
        else:
            kind = "keep" if rng.random() < 0.75 else "give"
            steps.append(MK(kind=kind, loops=rng.choice([1, 2, -1]) if rng.random() > 0.04 else 0,
                            cache=rng.choice([False, True, 2, 100]),
                            args=rng.choice(["none", 0, 1, 2]) if rng.random() > 0.04 else "bad",
                            pad=base.gen_pad(rng)))
            live = True
            pos = 0
            for _ in range(rng.randint(0, 7)):
                k = rng.choices(["next", "seek", "set", "close"], [60, 12, 18, 6])[0]
                if k == "next":
                    steps.append(OP(N))
                elif k == "seek":
                    steps.append(OP(base.gen_seek(rng, n, pos)))
                elif k == "set":
                    steps.append(OP(rng.choice([["dur", rng.choice(base.DURS)], ["size", list(rng.choice(base.SIZES))],
                                                ["args", rng.choice([0, 1, 2])], ["pad", base.gen_pad(rng)]])))
                else:
                    steps.append(OP([rng.choice(["close", "drop"])]))
        if rng.random() < 0.45:
            if live and rng.random() < 0.93:  # the owner waits for the iterator (almost always)
                steps.append(OP(["close"]) if rng.random() < 0.6 else MK(loops=0))
            steps.append(OF)
    return session_case(steps, n=n, total=rng.randint(2, 6), size=list(rng.choice(base.SIZES)), dur=rng.choice(base.DURS),
                        frame=0 if n is None or rng.random() < 0.6 else rng.randrange(n), stamp=rng.random() < 0.3)



def drawio_case(op="draw", **kw):
    c = {"mode": "drawio", "op": op, "n": 1, "total": 2, "loops": 1, "cache": False, "animate": True, "rfault": None,
         "io_fault": None, "sleep_fault": None, "async": None, "enumerate_io": True}
    c.update(kw)
    return c


DRAWIO_CORPUS = [
    # a still frame: the write of the render output / its flush / the clean-up's newline / its flush fail
    drawio_case(n=1), drawio_case(n=3, animate=False), drawio_case(n=None, animate=False),
    drawio_case(n=None, total=0, animate=False), drawio_case("render", n=None, total=0),
    # animations: first frame, later frames, cursor movements, the clean-up of _animate_ and of draw()
    drawio_case(n=2), drawio_case(n=2, loops=2, cache=True), drawio_case(n=3, loops=2),
    drawio_case(n=None, total=2), drawio_case(n=None, total=0), drawio_case(n=None, total=1),
    # a failing render combined with every stream fault
    drawio_case(n=3, rfault=1), drawio_case(n=1, rfault=0), drawio_case(n=None, total=3, rfault=2),
    drawio_case(n=2, loops=2, cache=True, rfault=1),
    # render() / str(): no stream, the finalizer must still see live data, once
    drawio_case("render"), drawio_case("render", rfault=0), drawio_case("str", n=3), drawio_case("str", n=None, rfault=0),
    # a KeyboardInterrupt between any two lines of draw() / _animate_
    drawio_case(n=1, enumerate_io=False, enumerate_async=1),
    drawio_case(n=2, enumerate_io=False, enumerate_async=3),
]


def gen_drawio(rng, i, quick):
    op = rng.choices(["draw", "render", "str"], [86, 7, 7])[0]
    n = rng.choice([1, 1, 2, 2, 3, None, None])
    c = drawio_case(op, n=n, total=rng.randint(0, 3), loops=rng.choice([1, 1, 2, 2, 3] if n != 3 else [1, 2]),
                    cache=rng.random() < 0.5, animate=rng.random() < 0.85,
                    rfault=None if rng.random() < 0.75 else rng.randrange(4))
    if op == "draw" and rng.random() < (0.12 if quick else 0.3):
        c["enumerate_async"] = rng.choice([5, 7, 11]) if quick else rng.choice([1, 1, 2, 3])
        c["async_offset"] = rng.randrange(11)
        c["enumerate_io"] = rng.random() < 0.5
    return c


# ----------------------------------------------------------------- encoding to Coq

z = base.z


def b(v):
    return "true" if v else "false"


def err_t(e):
    if e[0] == "sizerange":
        return "ESizeRange"
    return base.err_t(e)


def tcase_t(c, ctor, obs_ops, log, fin, finalized_end):
    faults = core.coq_list(sorted((int(k), v) for k, v in c.get("faults", {}).items()),
                           lambda kv: f"({kv[0]}%nat, {z(kv[1])})")
    ffaults = core.coq_list(sorted((int(k), v) for k, v in c.get("ffaults", {}).items()),
                            lambda kv: f"({z(kv[0])}, {z(kv[1])})")
    ctor_s = "None" if ctor[0] in ("ok", "K") else f"(Some {err_t(ctor[1:])})"
    obs = core.coq_list(obs_ops, lambda x: f"({base.out_t(x[0])}, {z(x[1])})")
    tells = core.coq_list(obs_ops, lambda x: z(x[2]))
    n = "None" if c["n"] is None else f"(Some {z(c['n'])})"
    return (f"{{| t_n := {n}; t_total := {z(c.get('total', 5))}; t_faults := {faults}; t_ffaults := {ffaults}; "
            f"t_stamp := {b(c.get('stamp'))}; t_cfg := {base.cfg_t(c)}; "
            f"t_ops := {core.coq_list(c.get('ops', []), base.op_t)}; t_ctor := {ctor_s}; t_obs := {obs}; "
            f"t_tells := {tells}; t_log := {core.coq_list(log, base.rcall_t)}; t_fin := {fin}%nat; "
            f"t_finalized_end := {b(finalized_end)} |}}")


def nats(l):
    return core.coq_list(l, lambda k: f"{k}%nat")


def fcase_t(c, r):
    t = tcase_t(c, r["ctor"], r["ops"], r["log"], r["fin"], r["finalized_end"])
    return (f"{{| f_t := {t}; f_kind := {CTOR_KIND[ctor_of(c)]}%nat; f_size_fault := {b(c.get('size_fault'))}; "
            f"f_data_fault := {b(c.get('data_fault'))}; f_fin_ops := {nats(r['fin_ops'])}; "
            f"f_fz_ops := {core.coq_list(r['fz_ops'], b)}; f_closed_ops := {core.coq_list(r['closed_ops'], b)}; "
            f"f_others := {nats(r['others'])}; f_fin_caller := {r['fin_caller']}%nat; "
            f"f_fin_faults := {nats(c.get('fin_faults', []))}; f_gc_raised := {r['gc_raised']}%nat; "
            f"f_caller_raised := {b(r['caller_raised'])}; "
            f"f_nested := {core.coq_list(r['nested'], lambda x: f'({x[0]}%nat, {b(x[1])})')} |}}")


def ocase_t(c, r):
    cc = dict(c, owns=True, ops=[])
    t = tcase_t(cc, r["outcome"], [], r["log"], 0, False)
    return (f"{{| o_t := {t}; o_mode := {MODE[c['mode']]}%nat; o_animate := {b(c.get('animate', True))}; "
            f"o_check_size := {b(c.get('check_size', True))}; o_allow_scroll := {b(c.get('allow_scroll', False))}; "
            f"o_size_fault := {b(c.get('size_fault'))}; o_fin_ret := {nats(r['fin_ret'])}; "
            f"o_fin_gc := {nats(r['fin_gc'])}; o_orphans := {nats(r['orphans'])}; "
            f"o_fin_faults := {nats(c.get('fin_faults', []))}; o_unraisable := {r['unraisable']}%nat |}}")


def cfg_of(c, m):
    """the Coq [config] of a make / animate step of a session"""
    return base.cfg_t({"loops": m["loops"], "cache": m["cache"], "size": c["size"], "dur": c["dur"], "args": m["args"],
                       "pad": m["pad"], "owns": m["kind"] == "give", "frame": c.get("frame", 0)})


def xstep_t(c, st):
    if st[0] == "make":
        return f"XStep (SMake {cfg_of(c, st[1])})"
    if st[0] == "animate":
        return f"XAnimate {cfg_of(c, st[1])}"
    if st[0] == "ownerfin":
        return "XStep SOwnerFinalize"
    return f"XStep (SOp ({base.op_t(st[1])}))"


def sout_t(o):
    if o[0] == "made":
        return "SMade"
    if o[0] == "refused":
        return f"(SRefused {err_t(o[1:])})"
    if o[0] == "done":
        return "SDone"
    if o[0] == "noiter":
        return "SNoIter"
    return f"(SOut {base.out_t(o[1])})"


def scase_t(c, r):
    faults = core.coq_list(sorted((int(k), v) for k, v in c.get("faults", {}).items()),
                           lambda kv: f"({kv[0]}%nat, {z(kv[1])})")
    ffaults = core.coq_list(sorted((int(k), v) for k, v in c.get("ffaults", {}).items()),
                            lambda kv: f"({z(kv[0])}, {z(kv[1])})")
    n = "None" if c["n"] is None else f"(Some {z(c['n'])})"
    return (f"{{| sc_n := {n}; sc_total := {z(c.get('total', 5))}; sc_faults := {faults}; sc_ffaults := {ffaults}; "
            f"sc_stamp := {b(c.get('stamp'))}; sc_size := {base.size_t(c['size'])}; sc_dur := {base.dur_t(c['dur'])}; "
            f"sc_frame := {z(c.get('frame', 0))}; sc_steps := {core.coq_list(c['steps'], lambda s: xstep_t(c, s))}; "
            f"sc_obs := {core.coq_list(r['steps'], sout_t)}; sc_fins := {nats(r['fins'])}; "
            f"sc_fzs := {core.coq_list(r['fzs'], b)}; sc_log := {core.coq_list(r['log'], base.rcall_t)}; "
            f"sc_fin_end := {r['fin_end']}%nat; sc_fz_end := {b(r['fz_end'])}; sc_fin_owner := {r['fin_owner']}%nat |}}")


def opt_nat(v):
    return "None" if v is None else f"(Some {v}%nat)"


def dcase_t(c, r):
    io = c.get("io_fault")
    io_s = "None" if not io else f"(Some ({io[0]}%nat, {'XKI' if io[1] == 0 else 'XExc'}))"
    ev = core.coq_list(r["events"], lambda e: f"({e[0]}%nat, {b(e[1])})")
    return (f"{{| d_op := {DOP[c['op']]}%nat; d_n := {opt_nat(c['n'])}; d_total := {c.get('total', 2)}%nat; "
            f"d_loops := {c.get('loops', 1)}%nat; d_cache := {b(c.get('cache'))}; d_animate := {b(c.get('animate', True))}; "
            f"d_rfault := {opt_nat(c.get('rfault'))}; d_io := {io_s}; d_sleep := {opt_nat(c.get('sleep_fault'))}; "
            f"d_async := {b(c.get('async') is not None)}; d_outcome := {r['outcome']}%nat; d_events := {ev}; "
            f"d_nret := {r['n_ret']}%nat; d_ioc := {r['io']}%nat; d_slc := {r['sleeps']}%nat; "
            f"d_fins := {nats(r['fins'])} |}}")


def is_iter(c):
    return c.get("mode", "iter") == "iter"


def is_session(c):
    return c.get("mode") == "session"


def is_drawio(c):
    return c.get("mode") == "drawio"


IMPL_TIMEOUT = 900  # per driver process; the thorough tier raises it (a loaded machine gives each driver a fraction of a CPU)


def evaluate(cases, tag="c10"):
    """cases may carry "enumerate"; returns (variants, codes, errors, observations)"""
    from concurrent.futures import ThreadPoolExecutor

    # one driver process per CPU (start-up dominates); cases dealt round-robin so that the expensive
    # (enumerated) ones spread evenly; the two drivers run side by side
    def deal(script, idxs, procs=core.NCPU):
        order = sorted(range(len(idxs)), key=lambda i: (i % procs, i))
        dealt = core.run_impl_parallel(script, [cases[idxs[i]] for i in order], timeout=IMPL_TIMEOUT,
                                       chunk=max(1, -(-len(idxs) // procs)))
        return [(idxs[i], g) for i, g in zip(order, dealt)]

    old_i = [i for i, c in enumerate(cases) if not life.is_life(c)]
    new_i = [i for i, c in enumerate(cases) if life.is_life(c) and not life.client.is_client(c)]
    cli_i = [i for i, c in enumerate(cases) if life.client.is_client(c)]
    groups = [None] * len(cases)
    with ThreadPoolExecutor(max_workers=3) as ex:
        futs = [ex.submit(deal, "impl_c10.py", old_i), ex.submit(deal, "impl_c10_life.py", new_i),
                ex.submit(deal, "impl_c10_client.py", cli_i, max(1, min(core.NCPU, len(cli_i) // 12)))]
        for f in futs:
            for i, g in f.result():
                groups[i] = g
    variants, obs = [], []
    for g in groups:
        for v, r in g:
            variants.append(norm(v) if is_iter(v) else v)
            obs.append(r)
    codes = [0] * len(variants)
    errors = []
    ii = [k for k, v in enumerate(variants) if is_iter(v)]
    oi = [k for k, v in enumerate(variants) if not is_iter(v) and not is_session(v) and not is_drawio(v)
          and not life.is_life(v)]
    si = [k for k, v in enumerate(variants) if is_session(v)]
    di = [k for k, v in enumerate(variants) if is_drawio(v)]
    jobs = life.jobs(variants, obs, tag)
    if di:
        jobs.append(((tag + "d", DHEADER, [dcase_t(variants[k], obs[k]) for k in di], "dcase",
                      "dbad10 cases", max(200, -(-len(di) // 8))), di))
    if si:
        jobs.append(((tag + "s", HEADER, [scase_t(variants[k], obs[k]) for k in si], "scase", "sbad10 cases", 120), si))
    if ii:
        jobs.append(((tag + "i", HEADER, [fcase_t(variants[k], obs[k]) for k in ii], "fcase",
                      "bad10 cases", max(120, -(-len(ii) // 10))), ii))
    if oi:
        jobs.append(((tag + "o", HEADER, [ocase_t(variants[k], obs[k]) for k in oi], "ocase", "obad10 cases", 120), oi))

    def judge(job):
        (pre, header, terms, typ, expr, shard), idxs = job
        res, errs = core.coq_shards(pre, header, terms, typ, expr, shard=shard)
        return idxs, res, errs

    with ThreadPoolExecutor(max_workers=max(1, len(jobs))) as ex:
        for idxs, res, errs in ex.map(judge, jobs):
            errors += errs
            for idx, code in res:
                codes[idxs[idx]] = code
    return variants, codes, errors, obs


# ----------------------------------------------------------------- reporting


def describe_drawio(c):
    n = "INDEFINITE" if c["n"] is None else c["n"]
    io = c.get("io_fault")
    flt = []
    if io:
        flt.append(f"stream call #{io[0]} (write/flush, 0-based) raises {'KeyboardInterrupt' if io[1] == 0 else 'OSError'}")
    if c.get("sleep_fault") is not None:
        flt.append(f"sleep call #{c['sleep_fault']} raises KeyboardInterrupt")
    if c.get("rfault") is not None:
        flt.append(f"_render_ call #{c['rfault']} raises RuntimeError")
    if c.get("async") is not None:
        flt.append(f"KeyboardInterrupt delivered at line event #{c['async']} inside draw()/_animate_")
    what = {"draw": f"draw(animate={c.get('animate', True)}, loops={c.get('loops', 1)}, cache={c.get('cache', False)}, "
                    "check_size=False) to a non-tty stream", "render": "render()", "str": "str()"}[c["op"]]
    return (f"{what} of the instrumented renderable: frames={n} stream_frames={c.get('total')}; "
            + ("; ".join(flt) if flt else "no fault"))


def describe(c):
    if life.is_life(c):
        return life.describe(c)
    if is_drawio(c):
        return describe_drawio(c)
    if is_iter(c):
        extra = "".join(f" {k}" for k in ("size_fault", "data_fault") if c.get(k))
        if c.get("fin_faults"):
            extra += f" finalizer raises at its invocation(s) {c['fin_faults']}"
        return f"iterator via {ctor_of(c)}{extra}: " + base.describe(c)
    n = "INDEFINITE" if c["n"] is None else c["n"]
    if is_session(c):
        def one(st):
            if st[0] in ("make", "animate"):
                m = st[1]
                own = "" if st[0] == "animate" else f"finalize={m['kind'] == 'give'}, "
                name = "_animate_" if st[0] == "animate" else "_from_render_data_"
                return f"{name}({own}loops={m['loops']}, cache={m['cache']}, args={m['args']}, pad={m['pad']})"
            if st[0] == "ownerfin":
                return "owner: data.finalize()"
            o = st[1]
            return o[0] if len(o) == 1 else f"{o[0]}({', '.join(map(str, o[1:]))})"
        return (f"session over one RenderData: frames={n} stream={c.get('total')} size={c['size']} dur={c['dur']} "
                f"tell={c.get('frame', 0)} faults={c.get('faults', {})} frame_faults={c.get('ffaults', {})} "
                f"steps=[{'; '.join(map(one, c['steps']))}]")
    return (f"{c['mode']}() frames={n} stream={c.get('total')} tell={c.get('frame', 0)} size={c['size']} "
            f"pad={c['pad']} args={c['args']} dur={c['dur']} loops={c['loops']} cache={c['cache']} "
            f"animate={c.get('animate')} check_size={c.get('check_size')} allow_scroll={c.get('allow_scroll')} "
            f"size_fault={c.get('size_fault', False)} faults={c.get('faults', {})} frame_faults={c.get('ffaults', {})}"
            f" finalizer_raises_at={c.get('fin_faults', [])}")


SIG_KEYS = ("mode", "ctor", "n", "total", "loops", "cache", "size", "dur", "args", "pad", "frame", "faults", "ffaults",
            "ops", "size_fault", "data_fault", "animate", "check_size", "allow_scroll", "fin_faults", "steps")


DSIG_KEYS = ("mode", "op", "n", "total", "loops", "cache", "animate", "rfault", "io_fault", "sleep_fault", "async")


def signature(c):
    if life.is_life(c):
        return core.sig(life.plain(c))
    if is_drawio(c):
        return core.sig({k: c.get(k) for k in DSIG_KEYS})
    d = {k: c.get(k) for k in SIG_KEYS}
    d["mode"] = c.get("mode", "iter")
    if is_iter(c):
        d["ctor"] = ctor_of(c)
    for k in ("size_fault", "data_fault"):
        d[k] = bool(d[k])
    d["fin_faults"] = list(c.get("fin_faults") or [])
    return core.sig(d)


def plain(c):
    if life.is_life(c):
        return life.plain(c)
    return {k: v for k, v in c.items() if k not in ("enumerate", "enumerate_fin", "enumerate_io", "enumerate_async",
                                                    "async_offset")}


def shrink_drawio(c):
    """greedy: the default renderable / call with the same fault, then the earliest fault position"""
    cur = plain(c)
    dflt = plain(drawio_case(c["op"]))
    for f in ("rfault", "cache", "loops", "animate", "total", "n"):
        if cur.get(f) != dflt[f]:
            cand = dict(cur, **{f: dflt[f]})
            if fails_spec([cand])[0]:
                cur = cand
    for f in ("io_fault", "sleep_fault", "async"):
        v = cur.get(f)
        if v is None:
            continue
        k = v[0] if f == "io_fault" else v
        lo = 1 if f == "async" else 0
        cands = [dict(cur, **{f: ([j, v[1]] if f == "io_fault" else j)}) for j in range(lo, min(k, lo + 40))]
        if cands:
            hit = next((d for d, ok in zip(cands, fails_spec(cands)) if ok), None)
            cur = hit or cur
    return cur


def fails_spec(cands, tag="c10s"):
    cands = [plain(c) for c in cands]
    variants, codes, errors, _ = evaluate(cands, tag=tag)
    return [code >= 2 and not errors for code in codes]


def shrink_oneshot(c):
    cur = copy.deepcopy(c)
    dflt = oneshot_case(c["mode"])
    for f in ("ffaults", "stamp", "frame", "args", "dur", "cache", "loops", "total", "pad", "size", "n", "animate",
              "check_size", "allow_scroll", "size_fault", "faults"):
        if cur.get(f) != dflt[f]:
            cand = copy.deepcopy(cur)
            cand[f] = copy.deepcopy(dflt[f])
            if fails_spec([cand])[0]:
                cur = cand
    return cur


def shrink_session(c):
    """greedy: drop steps (from the end first), then reset the renderable"""
    cur = plain(c)
    # shortest failing prefix (one batch), then a few rounds of single-step removals
    cands = []
    for k in range(1, len(cur["steps"])):
        d = copy.deepcopy(cur)
        d["steps"] = d["steps"][:k]
        cands.append(d)
    if cands:
        hit = next((d for d, v in zip(cands, fails_spec(cands)) if v), None)
        cur = hit or cur
    for _ in range(6):
        if len(cur["steps"]) <= 1:
            break
        cands = []
        for k in reversed(range(len(cur["steps"]))):
            d = copy.deepcopy(cur)
            del d["steps"][k]
            cands.append(d)
        hit = next((d for d, v in zip(cands, fails_spec(cands)) if v), None)
        if hit is None:
            break
        cur = hit
    dflt = session_case([])
    d = copy.deepcopy(cur)
    for f in ("ffaults", "stamp", "frame", "dur", "size", "total", "n"):
        d[f] = copy.deepcopy(dflt[f])
    if d != cur and fails_spec([d])[0]:
        cur = d
    return cur


def simplified(c):
    if is_session(c) or is_drawio(c) or life.is_life(c):
        return plain(c)
    flt = dict(c.get("faults") or {})
    if is_iter(c):
        k = max([int(x) for x in flt] + [0])
        s = base.base_case(n=2, loops=-1, faults=flt, ops=[N] * (k + 1) + ([["seek", 0, 0, True]] if flt else []))
        s["ctor"] = ctor_of(c)
        s.pop("enumerate", None)
        s.pop("enumerate_fin", None)
        if c.get("fin_faults"):
            s["fin_faults"] = list(c["fin_faults"])
            if not flt:  # the finalizer raises when the iterator is closed / exhausted / collected
                s["ops"] = [N, ["close"], N, ["seek", 0, 0, True], ["close"]]
        for f in ("size_fault", "data_fault"):
            if c.get(f):
                s[f] = True
        return norm(s)
    s = oneshot_case(c["mode"], faults=flt, n=c["n"] if c["n"] in (1, None) else 3,
                     animate=c.get("animate", True), size_fault=c.get("size_fault", False))
    s.pop("enumerate", None)
    s.pop("enumerate_fin", None)
    if c.get("fin_faults"):
        s["fin_faults"] = list(c["fin_faults"])
    if c["mode"] == "draw" and (c.get("faults") or {}) == {} and not c.get("size_fault"):
        s["size"], s["pad"], s["check_size"], s["allow_scroll"] = c["size"], c["pad"], c["check_size"], c["allow_scroll"]
    return s


def what_of(c, r, code):
    if life.is_life(c):
        return life.what_of(c, r)
    if is_drawio(c):
        ev = [f"{HOOKS.get(e[0], e[0])}(finalized={bool(e[1])})" for e in r.get("events", [])]
        bad = [x for x, e in zip(ev, r.get("events", [])) if e[1]]
        return ("render data used after finalization / not finalized exactly once: " + describe(c)
                + " -> entries into renderable-defined code that received the render data, in order: " + ", ".join(ev)
                + (f"; ENTERED WITH FINALIZED DATA: {', '.join(bad)}" if bad else "")
                + f"; finalizer calls per render data object in the end: {r.get('fins')}; "
                + f"call ended: {['returned', 'KeyboardInterrupt', 'OSError', 'render error', 'StopIteration'][r['outcome']] if r.get('outcome', 9) < 5 else r.get('other')}; "
                + f"entries made when it ended: {r.get('n_ret')}")
    if is_session(c):
        seen = {"outcomes": [(x[:1] + [x[1][:3]] if x[0] == "out" else x[:2]) for x in r.get("steps", [])],
                "finalize calls per step": r.get("fins"), "finalized per step": r.get("fzs"),
                "finalized flag seen by _render_": [x[6] for x in r.get("log", [])],
                "after dropping everything + gc": [r.get("fin_end"), r.get("fz_end")],
                "after the owner's own finalize()": r.get("fin_owner")}
        return ("render data not finalized exactly once / used after finalization: " + describe(c)
                + " -> observed " + json.dumps(seen)[:900])
    if is_iter(c):
        seen = {"finalize calls per op": r.get("fin_ops"), "finalized per op": r.get("fz_ops"),
                "closed per op": r.get("closed_ops"), "close() calls from inside _render_ [what, _closed after]":
                    r.get("nested"), "after del+gc": [r.get("fin"), r.get("finalized_end")],
                "after the caller's own finalize()": r.get("fin_caller"),
                "finalizer exceptions unraisable at gc / out of the caller's finalize()":
                    [r.get("gc_raised"), r.get("caller_raised")],
                "other data objects": r.get("others"), "ctor": r.get("ctor"),
                "finalized flag seen by _render_": [x[6] for x in r.get("log", [])],
                "outcomes": [x[0][:3] for x in r.get("ops", [])]}
    else:
        seen = {"outcome": r.get("outcome"), "finalize calls at return": r.get("fin_ret"),
                "after gc": r.get("fin_gc"), "abandoned data": r.get("orphans"),
                "finalizer exceptions unraisable": r.get("unraisable"),
                "finalized flag seen by _render_": [x[6] for x in r.get("log", [])]}
    return ("render data not finalized exactly once / used after finalization / iterator open after its end: "
            + describe(c) + " -> observed " + json.dumps(seen)[:700])


def run(ctx):
    global IMPL_TIMEOUT
    IMPL_TIMEOUT = 900 if ctx.quick else 3600
    rng = ctx.rng
    if ctx.replay:
        cases = [ctx.replay["replay"]["case"]]
        n_corpus = 0
    else:
        n_iter = 100 if ctx.quick else 1600
        n_one = 70 if ctx.quick else 1000
        n_sess = 50 if ctx.quick else 900
        n_dio = 30 if ctx.quick else 500
        n_ctor = 60 if ctx.quick else 700
        n_nest = 150 if ctx.quick else 2500
        n_client = 40 if ctx.quick else 600
        corpus = [copy.deepcopy(c) for c in ITER_CORPUS + ONESHOT_CORPUS + SESSION_CORPUS + DRAWIO_CORPUS]
        corpus += life.ctor_corpus() + life.nest_corpus() + life.client.corpus()
        n_corpus = len(corpus)
        cases = corpus + [gen_iter(rng, i, ctx.quick) for i in range(n_iter)] \
            + [gen_oneshot(rng, i) for i in range(n_one)] + [gen_session(rng, i) for i in range(n_sess)] \
            + [gen_drawio(rng, i, ctx.quick) for i in range(n_dio)]
        # the later families draw from generators of their own, so that the cases above stay what they were
        rng2 = random.Random(rng.random())
        cases += [life.gen_ctor(rng2, i, ctx.quick) for i in range(n_ctor)] \
            + [life.gen_nest(rng2, i, ctx.quick) for i in range(n_nest)]
        rng3 = random.Random(rng2.random())
        cases += [life.client.gen(rng3, i, ctx.quick) for i in range(n_client)]
    variants, codes, errors, obs = evaluate(cases)

    failing = [k for k, code in enumerate(codes) if code >= 2]
    failures = []
    if failing:
        pick = failing[:40]
        for fam in (life.is_ctor, life.is_nest, life.client.is_client):  # one of each later family, if it failed at all
            k = next((k for k in failing if fam(variants[k])), None)
            if k is not None and k not in pick:
                pick.append(k)
        chosen = [variants[k] for k in pick]
        # cheap reduction first, one batch: the default configuration with the same constructor kind, the same
        # fault and just enough `next` operations to reach it (one-shot: the default case of the mode)
        simple = [simplified(c) for c in chosen]
        verdict = fails_spec(simple)
        has_simple = any(v and not is_session(s) and not is_drawio(s) and not life.is_life(s)
                         for s, v in zip(simple, verdict))
        first_session = next((k for k, c in enumerate(chosen) if is_session(c)), None)
        first_drawio = next((k for k, c in enumerate(chosen) if is_drawio(c)), None)
        first_ctor = next((k for k, c in enumerate(chosen) if life.is_ctor(c)), None)
        first_nest = next((k for k, c in enumerate(chosen) if life.is_nest(c)), None)
        first_client = next((k for k, c in enumerate(chosen) if life.client.is_client(c)), None)
        minimal, budget = [], (0 if has_simple else 1)
        for k, (c, s, v) in enumerate(zip(chosen, simple, verdict)):
            if k == first_session:
                minimal.append(shrink_session(c))
            elif k == first_drawio:
                minimal.append(shrink_drawio(c))
            elif k in (first_ctor, first_nest, first_client):
                minimal.append(life.shrink(c, fails_spec))
            elif life.is_life(c):
                if sum(1 for m in minimal if m.get("mode") == c["mode"]) < 4:  # a few more, as they came
                    minimal.append(s)
            elif v:
                minimal.append(s)
            elif budget > 0:
                budget -= 1
                minimal.append(base.shrink(c, fails_spec, "c10s") if is_iter(c) else
                               shrink_session(c) if is_session(c) else shrink_oneshot(c))
            else:
                minimal.append(c)
        uniq = {}
        for m in minimal:
            uniq.setdefault(signature(m), m)
        keys = list(uniq)
        v2, c2, _, o2 = evaluate([plain(uniq[s]) for s in keys], "c10r")
        for s, c, code, r in zip(keys, v2, c2, o2):
            failures.append({"signature": s, "what": what_of(c, r, code),
                             "replay": {"case": c, "observed": r, "code": code}})
    mismatches = [{"case": variants[k], "code": code, "observed": obs[k]} for k, code in enumerate(codes) if code == 1]

    # ---- distribution
    h = {"family": {}, "constructor": {}, "fault_kind": {}, "fault_position": {}, "iterator_ended_by": {},
         "oneshot_mode": {}, "oneshot_outcome": {}, "frame_count": {}, "histories_unfaulted": 0,
         "fault_variants": 0, "ops_on_ended_iterator": 0, "render_calls_observed": 0,
         "faults_actually_hit": 0, "ctor_rejected": 0, "data_left_to_gc": 0, "caller_owned_left_unfinalized": 0,
         "abandoned_half_built_data_collected": 0, "draw_animated": 0, "draw_still": 0,
         "draw_size_validation_failures": 0, "finalizer_fault_schedule": {}, "finalizer_exception_seen": {},
         "nested_close_calls": 0, "session_steps": {}, "session_iterators_made": 0,
         "session_constructions_refused_finalized_data": 0, "session_owner_finalize_then_reuse": 0,
         "session_misuse_not_judged": 0, "drawio_operation": {}, "drawio_fault": {}, "drawio_entries_observed": {},
         "drawio_call_ended": {}, "drawio_interrupted_draw_hook_entered": 0, "drawio_finalized_only_at_gc": 0,
         "drawio_async_interrupt_before_data_exists": 0, "drawio_stream_fault_position": {}}

    def inc(k, v):
        v = str(v)
        h[k][v] = h[k].get(v, 0) + 1

    nontrivial = set()
    life.histogram(h, nontrivial, variants, obs, signature)
    for c, r in zip(variants, obs):
        if life.is_life(c):
            continue
        inc("frame_count", "INDEFINITE" if c["n"] is None else c["n"])
        flt = c.get("faults") or {}
        for k, v in flt.items():
            inc("fault_kind", KINDS.get(v, v))
            inc("fault_position", k if int(k) < 8 else "8+")
        ff = c.get("fin_faults") or []
        if ff:
            inc("finalizer_fault_schedule", ff)
        h["fault_variants" if flt or ff else "histories_unfaulted"] += 1
        h["render_calls_observed"] += len(r.get("log", []))
        if is_drawio(c):
            inc("family", "drawio")
            anim = c["op"] == "draw" and c.get("animate", True) and c["n"] != 1
            inc("drawio_operation", c["op"] + (" animated" if anim else " still" if c["op"] == "draw" else ""))
            io = c.get("io_fault")
            kinds = ([("stream:" + ("KeyboardInterrupt" if io[1] == 0 else "OSError"))] if io else []) \
                + (["sleep:KeyboardInterrupt"] if c.get("sleep_fault") is not None else []) \
                + (["async:KeyboardInterrupt"] if c.get("async") is not None else []) \
                + (["render:RuntimeError"] if c.get("rfault") is not None else [])
            inc("drawio_fault", "+".join(kinds) or "none")
            if io:
                inc("drawio_stream_fault_position", io[0] if io[0] < 12 else "12+")
            for e in r["events"]:
                inc("drawio_entries_observed", HOOKS.get(e[0], e[0]))
            inc("drawio_call_ended", ["returned", "KeyboardInterrupt", "OSError", "render error", "StopIteration"][r["outcome"]]
                if r["outcome"] < 5 else "other:" + str(r.get("other")))
            hooked = any(e[0] == 1 for e in r["events"])
            h["drawio_interrupted_draw_hook_entered"] += hooked
            h["drawio_finalized_only_at_gc"] += r["n_ret"] < len(r["events"])
            h["drawio_async_interrupt_before_data_exists"] += (c.get("async") is not None and not r["fins"])
            if hooked or (c.get("async") is not None and r.get("fired") and r["fins"]):
                nontrivial.add(signature(c))
            continue
        if is_session(c):
            inc("family", "session")
            fz, reuse, live = False, False, False
            for st, y, z_ in zip(c["steps"], r["steps"], r["fzs"]):
                inc("session_steps", st[0])
                if st[0] == "ownerfin" and live:
                    h["session_misuse_not_judged"] += 1
                if st[0] in ("make", "animate"):
                    live = y[0] == "made"
                    h["session_iterators_made"] += y[0] in ("made", "done")
                    if fz:
                        reuse = True
                        h["session_constructions_refused_finalized_data"] += y[0] == "refused"
                if st[0] == "op" and y[0] == "out" and (y[1][0] in ("S", "E") and st[1][0] == "next"
                                                         or st[1][0] in ("close", "drop")):
                    live = False
                fz = bool(z_)
            h["session_owner_finalize_then_reuse"] += reuse
            if reuse and len(r.get("log", [])) >= 2:
                nontrivial.add(signature(c))
            if any(v in (0, 1) for v in flt.values()) and any(y[0] == "out" and y[1][0] == "E" for y in r["steps"]):
                h["faults_actually_hit"] += 1
            continue
        if is_iter(c):
            inc("family", "iterator")
            inc("constructor", ctor_of(c))
            if r["ctor"][0] != "ok":
                h["ctor_rejected"] += 1
                h["abandoned_half_built_data_collected"] += len(r.get("others", []))
                continue
            ended = None
            for o, x in zip(c["ops"], r["ops"]):
                if ended:
                    h["ops_on_ended_iterator"] += 1
                    continue
                if o[0] in ("close", "drop"):
                    ended = o[0]
                elif o[0] == "next" and x[0][0] == "S":
                    ended = "exhaustion/StopIteration"
                elif o[0] == "next" and x[0][0] == "E":
                    ended = "error:" + str(x[0][1])
                    h["faults_actually_hit"] += 1
            if ended is None:
                ended = "garbage collection only"
                h["data_left_to_gc"] += 1
            inc("iterator_ended_by", ended)
            h["nested_close_calls"] += len(r.get("nested", []))
            if ff:
                where = next((o[0] for o, x in zip(c["ops"], r["ops"]) if x[0][:3] == ["E", "render", 90]), None)
                where = where or ("garbage collection (unraisable)" if r.get("gc_raised") else
                                  "caller's own finalize()" if r.get("caller_raised") else "never invoked")
                inc("finalizer_exception_seen", "iterator: " + where)
                if where in ("next", "close", "drop"):
                    nontrivial.add(signature(c))
            if ctor_of(c) == "frd_keep" and r["fin"] == 0:
                h["caller_owned_left_unfinalized"] += 1
            if flt and ended.startswith("error") and len(c["ops"]) >= 4:
                nontrivial.add(signature(c))
        else:
            inc("family", "one-shot")
            inc("oneshot_mode", c["mode"])
            out = r["outcome"]
            inc("oneshot_outcome", "returned" if out[0] == "K" else str(out[1]))
            h["abandoned_half_built_data_collected"] += len(r.get("orphans", []))
            if ff:
                inc("finalizer_exception_seen", "one-shot: " + ("propagated" if out[:3] == ["E", "render", 90] else
                                                               "unraisable in __del__" if r.get("unraisable") else
                                                               "never invoked"))
            if c["mode"] == "draw":
                anim = c.get("animate", True) and (c["n"] is None or c["n"] > 1)
                h["draw_animated" if anim else "draw_still"] += 1
                if out[0] == "E" and out[1] == "sizerange":
                    h["draw_size_validation_failures"] += 1
            if out[0] == "E" and out[1] in ("render", "stopdef") and (out[2] != 90 or flt):
                h["faults_actually_hit"] += 1
                nontrivial.add(signature(c))

    samples = [describe(v) for v in variants[:1]]
    samples += [describe(v) for v in variants if is_iter(v) and v.get("faults")][n_corpus * 3:][:2]
    samples += [describe(v) for v in variants if not is_iter(v) and not is_session(v) and v.get("faults")][:1]
    samples += [describe(v) for v in variants if is_session(v)][:1]
    samples += [describe(v) for v in variants if is_session(v)][-1:]
    samples += [describe(v) for v in variants if is_drawio(v) and v.get("io_fault")][3:4]
    samples += [describe(v) for v in variants if is_drawio(v) and v.get("async") is not None][-1:]
    samples += [describe(v) for v in variants if life.is_ctor(v) and v.get("async") is not None][-1:]
    samples += [describe(v) for v in variants if life.is_nest(v)][-2:]
    return {
        "corr_name": "life of render data on the real RenderIterator / render() / str() / draw() over the "
                     "instrumented renderable VR10 == finalisation ghost of the Iter model (check10 / ocheck10 bit 1); "
                     "the observations alone satisfy the property (bit 2); drawio family: entry log of all "
                     "renderable-defined code that receives the render data == model/DrawUse.v (dcheck10); ctor family: "
                     "the half-built iterator a faulted constructor leaves behind and what its collection does == "
                     "model/IterCtor.v (ccheck); nest family: per-object finalizer entries / flags after every step of "
                     "scenarios with several render data objects == the machine of model/FinNest.v (ncheck); client family: outcomes / finalizer entries / flags per "
                     "operation of histories with failing padding methods and non-Frame renders == model/IterClient.v run with "
                     "the logged client calls as its oracle (kcheck)",
        "evaluations": len(variants),
        "distinct_nontrivial": len(nontrivial),
        "rule": f"{len(cases)} base cases ({n_corpus} corpus) expanded by fault enumeration: each history / one-shot "
                "operation is run unfaulted, then once per (k, kind) with kind in {RuntimeError, StopIteration"
                "[, AttributeError/KeyError/ValueError/IndexError]} injected into the k-th _render_ call for ALL k "
                "below the number of _render_ calls of the unfaulted run; iterator variants get a 10-operation probe "
                "suffix (next, seek, 4 setters, close, next, drop, seek); plus, per finalizer schedule ([0] mostly, "
                "[1], [0,1]: invocation numbers at which _finalize_render_data_ raises RuntimeError), the unfaulted "
                "run as is and with the probe suffix, and every render-fault position (RuntimeError) with that "
                "schedule; plus, per k, iterator.close() called from inside that _render_ (kind 7: its "
                "ValueError propagates, kind 8: swallowed).  Sessions: one RenderData, 2-5 rounds of "
                "(_from_render_data_ keep/give + 0-7 operations | _animate_) with the owner's finalize() after "
                "45% of the rounds (after closing / dropping the iterator; 7% under a live iterator = misuse, "
                "model agreement only), render faults enumerated.  Iterators are made by RenderIterator(...), "
                "_from_render_data_(finalize=False) and _from_render_data_(finalize=True); histories come from the C08 "
                "generator (frame counts {2,3,5,INDEFINITE}, loops {-1,1,2,3}, all cache / padding / duration kinds, "
                "close / drop inside the history, invalid constructor arguments); faults inside render data creation "
                "(_get_render_size_, _get_render_data_).  One-shot: render(), str(), draw() still / animated to a "
                "StringIO with sizes and paddings around the 80x30 terminal limit, check_size / allow_scroll / "
                "animate flags, invalid loops / cache / arguments.  Non-trivial: a fault variant in which the "
                "injected fault was actually hit (iterator histories: with >= 4 operations); distinct by case hash.  "
                "drawio: draw() still / animated (frames {1,2,3,INDEFINITE}, loops 1-3, cache on/off, animate on/off), "
                "render(), str(), each run unfaulted and then with the k-th write()/flush() of the output stream raising "
                "KeyboardInterrupt and OSError FOR ALL k (clean-up blocks included), the j-th sleep() raising "
                "KeyboardInterrupt FOR ALL j, in a quarter of the cases combined with a failing q-th _render_; some cases "
                "with a KeyboardInterrupt delivered at the k-th line executed inside draw()/_animate_ (quick: every "
                "5th-11th line, thorough: mostly every line); non-trivial there: the interrupted-draw hook was entered, "
                "or an asynchronous interrupt hit after the render data existed.  ctor: one construction by "
                "RenderIterator(...) / _from_render_data_(finalize=False) / (finalize=True) (frames {2,3,5,INDEFINITE}, loops "
                "{1,2,-1}, cache {False,True,2,100}, ExactPadding or a client Padding subclass) with one of: no fault, the "
                "client padding's _get_exact_dimensions_ / get_padded_size raising PaddingError / RuntimeError / "
                "KeyboardInterrupt / MemoryError (first consulted by the priming next()), frame_count=sys.maxsize with the "
                "cache on, failing _get_render_size_ / _get_render_data_, loops=0, cache=0, foreign render arguments; for the "
                "corpus (every constructor x every fault) and 30% (thorough 50%) of the generated cases additionally a "
                "KeyboardInterrupt at the k-th line executed inside the package during the constructor (bare `try:` lines "
                "and lines of close / finalize / __del__ excluded), every k for the corpus and mostly in the thorough tier, "
                "every 3rd-7th in the quick tier; non-trivial there: the constructor failed while priming.  nest: forests "
                "of 2-6 composite renderables (finalizer nesting depth <= 3, <= 2 children per node, child modes own / give / "
                "keep_fin / keep_drop / keep_leak), scripts of 3-9 steps over two iterator slots and one-off operations "
                "(iter with the three constructors, next, close, drop, exhaust, the owner's finalize, render, str, draw "
                "still / animated), a failing _render_ in 20%; in 30% of the cases with two roots a second thread performs "
                "close() and waits at an Event gate inside the finalizer of the root's (40%: of its first child's) render "
                "data while the main thread performs 1-4 steps on the other tree; non-trivial there: some finalizer "
                "finalizes another object, or two threads.  client: histories of 2-15 operations (next / seek / "
                "set_render_size / set_padding(new client padding) / close, a probe suffix, drop) over the three constructors, frames "
                "{2,3,5,INDEFINITE}, client paddings that do / do not change the size, cache off, loops 1; each run unfaulted and then "
                "once per (method, k, kind): k-th call of _render_ / Padding.pad / get_padded_size / _get_exact_dimensions_ raising one "
                "of 7 exception classes (some: StopIteration), _render_ returning None / a tuple / an int / a str, FOR ALL k below the "
                "number of calls of that method in the unfaulted run; non-trivial there: a fault in non-render client code (or a "
                "non-Frame) was actually hit.",
        "samples": samples,
        "histogram": h,
        "mismatches": mismatches,
        "failures": failures,
        "errors": errors,
        "assumptions": [
            "the renderable's _render_ is a parameter of the theorems: any state-passing function returning a frame, "
            "raising StopIteration or raising another exception (class Exception; KeyboardInterrupt/BaseException "
            "out of _render_ bypasses __next__'s handlers and is not covered: the data is then finalized at "
            "garbage collection)",
            "'garbage-collected' = CPython reference counting: RenderIterator.__del__ / RenderData.__del__ run as "
            "soon as the last reference (including the traceback of a propagating exception) is dropped; the "
            "driver drops its references and calls gc.collect()",
            "re-entrancy: only iterator.close() from inside _render_ is modelled (clean refusal: generator.close() "
            "raises ValueError while the generator is executing); seek/set_* from inside _render_ and calls from "
            "other threads are not",
            "sessions: one current iterator at a time over the shared RenderData; the owner does not finalize under "
            "a live iterator (such sessions are compared with the model but not judged by the property)",
            "the generator object of _iterate is modelled by its two suspension points (Iter.v, shared with C08); "
            "generator.close() at a plain yield runs no code",
            "skeleton lemmas: the call table of harness/tx/tx_skel.py (which calls create / finalize render data, "
            "which may raise) and the abstract-interpreter soundness theorem EffSound.analyze_sound",
            "drawio: the output stream is not a tty (draw() then neither hides the cursor nor touches termios) and "
            "check_size=False; the frame source of the instrumented renderable is modelled in DrawUseTie.pulls_of "
            "(n * loops frames, later passes from the cache when caching is on; INDEFINITE: `total` frames then "
            "StopIteration out of _render_); asynchronous interrupts are judged by the specification side only",
            "ctor / nest: 'collected' = CPython reference counting + gc.collect(); a KeyboardInterrupt is delivered at "
            "line events (sys.settrace) of package code entered during the constructor, never on a bare `try:` line "
            "(no signal poll there in CPython >= 3.11) nor inside close / finalize / __del__ / _finalize_render_data_; "
            "nest: no finalize() of an object is attempted while its own finalizer runs (scenarios are trees); finalizers "
            "do not raise",
            "client: exceptions of class Exception and StopIteration out of client code (BaseException bypasses __next__'s handlers "
            "as for _render_); no frame cache, loops = 1, absolute seeks; an exception out of get_padded_size() in set_padding / "
            "set_render_size leaves the iterator open (modelled as is; the property speaks of next())",
            "_finalize_render_data_ may raise (oracle fr in model/IterFin.v; exercised with RuntimeError at scheduled "
            "invocations); RenderIterator.close() is modelled as REPAIRED by pending_fixes/"
            "C10_close_finalizer_raises.diff (_closed set in a finally); the skeleton lemmas still treat Finalize as a "
            "non-faulting call",
        ],
        "trusted": [
            "impl driver impl_c10.py: identifies render data objects by a serial number written into their own VR10 "
            "namespace; counts _finalize_render_data_ per object; reads RenderData.finalized inside _render_ and "
            "after every operation, iterator._closed after every operation (model agreement only; the property "
            "side uses the public behaviour: next() -> StopIteration, control operations -> FinalizedIteratorError); "
            "drawio: overrides _handle_interrupted_draw_ / _clear_frame_ / _finalize_render_data_ / _render_ of the test "
            "renderable to log RenderData.finalized at entry, replaces sys.stdout by a counting StringIO and the "
            "module's sleep by a counting stub; harness/impl/asyncfault.py (sys.settrace) for asynchronous interrupts",
            "impl driver impl_c10_life.py: finds the half-built RenderIterator in the frames of the exception's traceback "
            "(locals `self` / `new`) and reads its __dict__ and the generator state; holds every render data object in a "
            "registry until the final release (so that a missed finalize() is not masked by RenderData.__del__), except "
            "the objects a scenario's finalizer is to drop itself; computes, from public outcomes only, which render "
            "data objects each step's operation ENDS the life of, and the declared finalizer bodies",
            "impl driver impl_c10_client.py: logs every TOP-LEVEL entry into client code (CR._render_, CP.pad, CP.get_padded_size; "
            "nested _get_exact_dimensions_ calls are attributed to the enclosing call) with its result - that log is the oracle "
            "the model is run with -, counts _finalize_render_data_ of the iterator's data, reads RenderData.finalized and "
            "_closed (model agreement only) after every operation",
        ],
    }
