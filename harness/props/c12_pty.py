"""Terminal side of the C12 correspondence: a pty whose slave is the implementation
driver's stdin/stdout/stderr; this process plays the terminal emulator from a profile
and a burst/delay recipe, in real time.  (Helper module of props/c12.py.)"""
from __future__ import annotations

import array
import fcntl
import json
import os
import pty
import select
import subprocess
import termios
import time

import core

ESC = 0x1B
Q_XTVERSION = b"\x1b[>q"
Q_DA1 = b"\x1b[c"
Q_FG = b"\x1b]10;?\x1b\\"
Q_BG = b"\x1b]11;?\x1b\\"
Q_CELL = b"\x1b[16t"
Q_AREA = b"\x1b[14t"
Q_KITTY = b"\x1b_Ga=q,t=d,i=31,f=24,s=1,v=1,C=1,c=1,r=1;AAAA\x1b\\"
QUERIES = [("xtversion", Q_XTVERSION), ("da1", Q_DA1), ("fg", Q_FG), ("bg", Q_BG),
           ("cell", Q_CELL), ("area", Q_AREA), ("kitty", Q_KITTY)]

HARD_CAP = 20.0  # seconds: a call that has not returned by then is reported as blocked


class Blocked(Exception):
    pass


class Session:
    """One implementation process on one pty."""

    def __init__(self):
        self.master, slave = pty.openpty()
        c_r, self.cmd_w = os.pipe()
        self.res_r, r_w = os.pipe()
        self.proc = subprocess.Popen(
            [core.IMPL_PY, str(core.VERIF / "harness" / "impl" / "impl_c12.py"), "pty", str(c_r), str(r_w)],
            stdin=slave, stdout=slave, stderr=slave, pass_fds=(c_r, r_w), env=core.impl_env(),
            cwd="/", start_new_session=True)
        for fd in (slave, c_r, r_w):
            os.close(fd)
        self.resbuf = b""
        self.garbage = bytearray()
        hello = self.recv(30.0)
        if "hello" not in hello:
            raise RuntimeError(f"driver did not start: {hello}")
        self.hello = hello

    # -- control channel
    def send(self, obj):
        os.write(self.cmd_w, (json.dumps(obj) + "\n").encode())

    def poll_result(self):
        if b"\n" in self.resbuf:
            line, self.resbuf = self.resbuf.split(b"\n", 1)
            return json.loads(line)
        return None

    def recv(self, timeout):
        end = time.monotonic() + timeout
        while True:
            r = self.poll_result()
            if r is not None:
                return r
            left = end - time.monotonic()
            if left <= 0:
                raise Blocked(self.stderr_tail())
            rd, _, _ = select.select([self.res_r, self.master], [], [], left)
            if self.res_r in rd:
                chunk = os.read(self.res_r, 65536)
                if not chunk:
                    raise RuntimeError("driver died: " + self.stderr_tail())
                self.resbuf += chunk
            elif self.master in rd:
                self.read_master()

    def read_master(self):
        try:
            data = os.read(self.master, 65536)
        except OSError:
            data = b""
        self.garbage += data
        return data

    def stderr_tail(self):
        return bytes(self.garbage[-600:]).decode(errors="replace")

    def set_winsize(self, rows, cols, xpix, ypix):
        fcntl.ioctl(self.master, termios.TIOCSWINSZ, array.array("H", [rows, cols, xpix, ypix]))

    def close(self):
        try:
            self.send({"op": "quit"})
        except OSError:
            pass
        try:
            self.proc.wait(timeout=5)
        except subprocess.TimeoutExpired:
            self.proc.kill()
            self.proc.wait()
        for fd in (self.master, self.cmd_w, self.res_r):
            try:
                os.close(fd)
            except OSError:
                pass

    # -- playing one case
    def play(self, case):
        """Runs one case.  Returns the record of what actually happened:
        {result, rounds: [{request, bursts: [[cls, bytes]], ...}], leftover, timing_ok, ...}
        """
        T = case["timeout"]
        self.set_winsize(*case["winsize"])
        # forget anything echoed / printed before
        while select.select([self.master], [], [], 0)[0]:
            self.read_master()
        self.garbage.clear()
        cmd = {k: case[k] for k in ("op", "timeout", "enabled", "swap", "env", "more", "request", "cache") if k in case}
        self.send(cmd)
        rounds, late, result = [], [], None
        reqbuf = bytearray()
        t_start = time.monotonic()
        timing_ok = True
        while result is None:
            result = self.poll_result()
            if result is not None:
                break
            if time.monotonic() - t_start > HARD_CAP:
                raise Blocked("call did not return within %.0f s" % HARD_CAP)
            rd, _, _ = select.select([self.res_r, self.master], [], [], 1.0)
            if self.res_r in rd:
                chunk = os.read(self.res_r, 65536)
                if not chunk:
                    raise RuntimeError("driver died: " + self.stderr_tail())
                self.resbuf += chunk
            if self.master in rd:
                reqbuf += self.read_master()
                if reqbuf.endswith(Q_DA1) or (case["op"] == "raw" and reqbuf.endswith(bytes(case["request"]))):
                    t_req = time.monotonic()
                    start = reqbuf.find(bytes([ESC]))
                    request = bytes(reqbuf[start:]) if start >= 0 else bytes(reqbuf)
                    reqbuf.clear()
                    k = len(rounds)
                    bursts = plan_round(case, k, request)
                    played = []
                    for cls, delay, data in bursts:
                        if cls == 2:
                            late.append(data)
                            played.append([2, list(data)])
                            continue
                        if delay:
                            time.sleep(delay)
                        os.write(self.master, data)
                        played.append([cls, list(data)])
                    t_done = time.monotonic()
                    # every timely burst must really have been timely, with a wide margin
                    if t_done - t_req > T / 2:
                        timing_ok = False
                    rounds.append({"request": list(request), "bursts": played, "t_req": t_req, "t_done": t_done})
        # late bursts are written only now: the call has returned
        for data in late:
            os.write(self.master, data)
        self.send({"op": "leftover"})
        lo = self.recv(HARD_CAP)
        for r in rounds:
            # the request was read by us after the library wrote it, i.e. after t0
            if r["t_done"] - result["t0"] > T / 2 + (r["t_req"] - result["t0"]) and False:
                timing_ok = False
        return {"result": result, "rounds": rounds, "leftover": lo["leftover"],
                "attr_restored": lo["attr_restored"], "timing_ok": timing_ok,
                "elapsed": result["t1"] - result["t0"]}


def tokenize(request: bytes):
    """The queries in a request, in order (unknown bytes are skipped)."""
    out, i = [], 0
    while i < len(request):
        for name, q in QUERIES:
            if request.startswith(q, i):
                out.append(name)
                i += len(q)
                break
        else:
            i += 1
    return out


def plan_round(case, k, request: bytes):
    """[(class, delay_seconds, bytes)] for the k-th request of the case.
    class 0 = written back-to-back, 1 = after a short delay (well inside the timeout),
    2 = late (written only after the call has returned)."""
    T = case["timeout"]
    if case["op"] == "raw":
        units = [bytes(u) for u in case["stream_units"]]
    else:
        prof = case["profile"]
        units = [bytes(prof[q]) for q in tokenize(request) if prof.get(q) is not None]
    stream = b"".join(units)
    recipe = case["recipes"][k] if k < len(case["recipes"]) else {"cuts": [], "delays": []}
    cuts = sorted({c for c in recipe["cuts"] if 0 < c < len(stream)})
    if recipe.get("units"):
        # every reply as one unit: cut exactly at reply boundaries
        cuts, pos = [], 0
        for u in units[:-1]:
            pos += len(u)
            cuts.append(pos)
    pieces, prev = [], 0
    for c in cuts + [len(stream)]:
        if c > prev:
            pieces.append(stream[prev:c])
            prev = c
    delays = list(recipe["delays"])
    out, total, is_late = [], 0.0, False
    for i, piece in enumerate(pieces):
        d = delays[i] if i < len(delays) else 0
        if d == 2 or is_late:
            is_late = True
            out.append((2, 0.0, piece))
        elif d == 1 and total + T / 25 <= T / 5:
            total += T / 25
            out.append((1, T / 25, piece))
        else:
            out.append((0, 0.0, piece))
    return out
