"""Terminal side of the C12 correspondence: a pty whose slave is the implementation
driver's stdin/stdout/stderr; this process plays the terminal emulator from a profile
and a burst/delay recipe, in real time.  (Helper module of props/c12.py.)

Determinism under machine load (the check must never alarm because of scheduling):
  * a burst is either TIMELY (written at once or after a short sleep; the whole round is
    required to be finished within T/2 of the moment the library wrote its request —
    measured with the library-side time stamp of the write, same CLOCK_MONOTONIC — else
    the run is marked `timing_ok = False` and repeated) or LATE (held back until the call
    has returned: "well beyond the timeout" without depending on any clock);
  * the reader stops at the first prefix on which its `more` predicate is false; whether
    bytes written in a separate write() AFTER that point are seen by the non-blocking
    drain that follows is a race in the real world (and in no way determined by the
    property), so such pieces are glued to the piece containing the stop point (one
    write() = one atomic arrival) unless they are LATE;
  * what the call left unread is collected with a sentinel protocol (see impl_c12.py),
    not with a grace period;
  * the INITIAL STATE of a case (attribute set + unread input in the queue when the call is
    made) is entered with a staging protocol (impl_c12.enter_initial_state): the type-ahead
    is written while nothing is echoed, and the call starts only after the driver has
    counted every byte in the tty's input queue (FIONREAD) — no sleeps;
  * REPLY PLACEMENT (case key "place"): the moment a reply arrives RELATIVE TO THE LIBRARY'S OWN
    STEPS.  Without it a burst is written "on sight" (when this process has read the request
    off the master), which in practice is always after the library has begun to read.  With it
    the timely bursts are written at an exact point of the exchange: "window" = the request has
    been fully transmitted and the library has made no further tty call (a quick terminal; a
    process descheduled right after writing), "read" = after the library has switched the tty
    to its reading mode, "split" = all bursts but the last at "window", the last at "read".  The
    driver's pass-through wrappers of termios.tcdrain / tcsetattr report the two points ("D",
    "S") and wait for "go n"; the library goes on only when the n bytes written at that point
    have been counted in the tty's input queue (impl_c12.Gates) — no sleeps, no clock.
"""
from __future__ import annotations

import array
import fcntl
import json
import os
import pty
import select
import subprocess
import termios
import time

import core

ESC = 0x1B
CSI = b"\x1b["
Q_XTVERSION = b"\x1b[>q"
Q_DA1 = b"\x1b[c"
Q_FG = b"\x1b]10;?\x1b\\"
Q_BG = b"\x1b]11;?\x1b\\"
Q_CELL = b"\x1b[16t"
Q_AREA = b"\x1b[14t"
Q_KITTY = b"\x1b_Ga=q,t=d,i=31,f=24,s=1,v=1,C=1,c=1,r=1;AAAA\x1b\\"
# same order as QuerySpec.queries
QUERIES = [("xtv", Q_XTVERSION), ("da1", Q_DA1), ("fg", Q_FG), ("bg", Q_BG),
           ("cell", Q_CELL), ("area", Q_AREA), ("kitty", Q_KITTY)]
SENTINEL = b"~~C12-END-OF-CASE~~"

HARD_CAP = 30.0  # seconds: protocol steps (driver start-up, leftover collection)


def call_cap(T):
    """seconds after which a call that has not returned is reported as blocked: an epoch has
    at most 4 queries of at most one timeout each (+ T/5 of delays each), i.e. < 5 T"""
    return 6.0 + 10 * T
# bytes that are safe to write to a tty in its default (ICANON | ISIG | IXON | ICRNL) mode
PTY_SAFE = frozenset([0x07, 0x1B] + list(range(0x20, 0x7F)))


class Blocked(Exception):
    pass


class Session:
    """One implementation process on one pty."""

    def __init__(self):
        self.master, slave = pty.openpty()
        c_r, self.cmd_w = os.pipe()
        self.res_r, r_w = os.pipe()
        self.proc = subprocess.Popen(
            [core.IMPL_PY, str(core.VERIF / "harness" / "impl" / "impl_c12.py"), "pty", str(c_r), str(r_w)],
            stdin=slave, stdout=slave, stderr=slave, pass_fds=(c_r, r_w), env=core.impl_env(),
            cwd="/", start_new_session=True)
        for fd in (slave, c_r, r_w):
            os.close(fd)
        self.resbuf = b""
        self.garbage = bytearray()
        hello = self.recv(60.0)
        if "hello" not in hello:
            raise RuntimeError(f"driver did not start: {hello}")
        self.hello = hello

    # -- control channel
    def send(self, obj):
        os.write(self.cmd_w, (json.dumps(obj) + "\n").encode())

    def poll_result(self):
        if b"\n" in self.resbuf:
            line, self.resbuf = self.resbuf.split(b"\n", 1)
            return json.loads(line)
        return None

    def recv(self, timeout):
        end = time.monotonic() + timeout
        while True:
            r = self.poll_result()
            if r is not None:
                return r
            left = end - time.monotonic()
            if left <= 0:
                raise Blocked(self.stderr_tail())
            rd, _, _ = select.select([self.res_r, self.master], [], [], left)
            if self.res_r in rd:
                chunk = os.read(self.res_r, 65536)
                if not chunk:
                    raise RuntimeError("driver died: " + self.stderr_tail())
                self.resbuf += chunk
            elif self.master in rd:
                self.read_master()

    def read_master(self):
        try:
            data = os.read(self.master, 65536)
        except OSError:
            data = b""
        self.garbage += data
        return data

    def stderr_tail(self):
        return bytes(self.garbage[-600:]).decode(errors="replace")

    def set_winsize(self, rows, cols, xpix, ypix):
        fcntl.ioctl(self.master, termios.TIOCSWINSZ, array.array("H", [rows, cols, xpix, ypix]))

    def close(self, kill=False):
        if not kill:
            try:
                self.send({"op": "quit"})
            except OSError:
                pass
        try:
            if kill:
                self.proc.kill()
            self.proc.wait(timeout=5)
        except subprocess.TimeoutExpired:
            self.proc.kill()
            self.proc.wait()
        for fd in (self.master, self.cmd_w, self.res_r):
            try:
                os.close(fd)
            except OSError:
                pass

    # -- playing one case
    def play(self, case):
        """Runs one case.  Returns the record of what actually happened."""
        T = case["timeout"]
        self.set_winsize(*case["winsize"])
        # forget anything printed before (nothing is ever echoed: we only write while the
        # library or the driver has switched ECHO off)
        while select.select([self.master], [], [], 0)[0]:
            self.read_master()
        self.garbage.clear()
        cmd = {k: case[k] for k in ("op", "timeout", "enabled", "swap", "env", "more", "request", "cache", "calls",
                                    "init", "place")
               if k in case}
        self.send(cmd)
        if case.get("init") and case["init"].get("typeahead"):
            # INITIAL STATE: unread input in the queue before the call is made.  The driver has
            # put the tty into a no-echo, non-canonical staging mode; it goes on (applies the
            # case's attribute set, then calls) once it has counted every byte in the queue.
            st = self.recv(HARD_CAP)
            if not st.get("staged"):
                raise RuntimeError(f"protocol: expected staged, got {st}")
            os.write(self.master, bytes(case["init"]["typeahead"]))
        rounds, late, result = [], [], None
        reqbuf = bytearray()
        t_start = time.monotonic()
        raw_request = bytes(case["request"]) if case["op"] == "raw" else None
        place = case.get("place")
        held = {"D": [], "S": [], "planned": False}  # placed bursts of the current round, by the point due

        def look_for_request():
            """a complete request on the master -> plan its round; bursts without a placement are
            written at once ("on sight"), placed ones are held for their point"""
            if not (reqbuf.endswith(raw_request) if raw_request is not None else reqbuf.endswith(Q_DA1)):
                return False
            t_req = time.monotonic()
            if raw_request is not None:
                request = raw_request
            else:
                start = reqbuf.find(bytes([ESC]))
                request = bytes(reqbuf[start:]) if start >= 0 else bytes(reqbuf)
            reqbuf.clear()
            k = len(rounds)
            bursts = plan_round(case, k, request)
            played = []
            if held["D"] or held["S"]:
                held["lost"] = True  # the previous round's point was never reached: not played as recorded
            held["D"], held["S"] = [], []
            timely = [i for i, x in enumerate(bursts) if x[0] != 2]
            for i, (cls, delay, data) in enumerate(bursts):
                if cls == 2:
                    late.append(data)
                    played.append([2, list(data)])
                    continue
                if place:
                    at_read = place == "read" or (place == "split" and len(timely) > 1 and i == timely[-1])
                    held["S" if at_read else "D"].append(data)
                    played.append([4 if at_read else 3, list(data)])
                    continue
                if delay:
                    time.sleep(delay)
                os.write(self.master, data)
                played.append([cls, list(data)])
            rounds.append({"request": list(request), "bursts": played, "t_req": t_req, "t_done": time.monotonic()})
            held["planned"] = True
            return True

        def on_gate(code):
            """the library has reached point `code`: write what is due there -> number of bytes"""
            if code == "D":
                # the request is on its way to the master (the kernel delivers it in a worker)
                end = time.monotonic() + 5.0
                seen = held["planned"] or look_for_request()
                while not seen and time.monotonic() < end:
                    if select.select([self.master], [], [], 0.05)[0]:
                        reqbuf.extend(self.read_master())
                        seen = look_for_request()
                held["planned"] = False
            n = 0
            for data in held[code]:
                os.write(self.master, data)
                n += len(data)
            held[code] = []
            if n and rounds:
                rounds[-1]["t_done"] = time.monotonic()
            return n

        while result is None:
            msg = self.poll_result()
            if msg is not None and "gate" in msg:
                self.send({"go": on_gate(msg["gate"])})
                continue
            result = msg
            if result is not None:
                break
            if time.monotonic() - t_start > call_cap(T):
                raise Blocked("call did not return within %.0f s (timeout %.2f s)" % (call_cap(T), T))
            rd, _, _ = select.select([self.res_r, self.master], [], [], 1.0)
            if self.res_r in rd:
                chunk = os.read(self.res_r, 65536)
                if not chunk:
                    raise RuntimeError("driver died: " + self.stderr_tail())
                self.resbuf += chunk
                continue  # a gate event is served before the master is looked at
            if self.master in rd:
                reqbuf += self.read_master()
                look_for_request()
        # what the call left unread: LATE bursts are written only now (the call has returned
        # and the driver has put the tty into raw mode), then the sentinel
        self.send({"op": "leftover"})
        rdy = self.recv(HARD_CAP)
        if not rdy.get("ready"):
            raise RuntimeError(f"protocol: expected ready, got {rdy}")
        for data in late:
            os.write(self.master, data)
        os.write(self.master, SENTINEL)
        lo = self.recv(HARD_CAP)
        writes = result.get("writes", [])
        timing_ok = (len(writes) == len(rounds) and bool(lo.get("sentinel_seen"))
                     and bool(result.get("staged_ok", True)))
        if held["D"] or held["S"] or held.get("lost"):
            # a placed burst was never written (its point was not reported in time): the record does
            # not say what happened -- inconclusive, run again
            timing_ok = False
        for r, tw in zip(rounds, writes):
            # every timely burst really was timely, with a wide margin
            if r["t_done"] - tw > T / 2 or r["t_done"] < tw:
                timing_ok = False
        return {"result": result, "rounds": rounds, "leftover": lo["leftover"],
                "attr_restored": lo["attr_restored"], "timing_ok": timing_ok,
                "elapsed": result["t1"] - result["t0"],
                "play_time": sum(r["t_done"] - r["t_req"] for r in rounds), "timeout": T}


def tokenize(request: bytes):
    """The queries in a request, in order (unknown bytes are skipped)."""
    out, i = [], 0
    while i < len(request):
        for name, q in QUERIES:
            if request.startswith(q, i):
                out.append(name)
                i += len(q)
                break
        else:
            i += 1
    return out


def more_kind(case, request: bytes) -> str:
    """which of the library's `more` predicates reads the reply to this request"""
    if case["op"] == "raw":
        return case["more"]
    if request.startswith(Q_KITTY):
        return "kitty"
    if request.startswith(Q_CELL):
        return "c"
    return "csi"


def stop_index(stream: bytes, kind: str):
    """length of the shortest non-empty prefix on which `more` is false, or None"""
    for n in range(1, len(stream) + 1):
        p = stream[:n]
        if kind == "csi":
            done = p.endswith(CSI)
        elif kind == "c":
            done = p.endswith(b"c")
        else:
            done = p.endswith(b"c") and CSI in p
        if done:
            return n
    return None


def round_units(case, request: bytes):
    if case["op"] == "raw":
        return [bytes(u) for u in case["stream_units"]]
    prof = case["profile"]
    return [bytes(prof[q]) for q in tokenize(request) if prof.get(q) is not None]


def plan_round(case, k, request: bytes):
    """[(class, delay_seconds, bytes)] for the k-th request of the case.
    class 0 = written back-to-back, 1 = after a short delay (well inside the timeout),
    2 = late (written only after the call has returned)."""
    T = case["timeout"]
    units = round_units(case, request)
    stream = b"".join(units)
    if case["op"] == "session":
        # one cache epoch: the same request may be written several times (one per argument
        # form); the terminal answers a given request the same way every time
        k = 0 if request.startswith(Q_FG) else 1
    recipe = case["recipes"][k] if k < len(case["recipes"]) else {"mode": "whole", "delays": []}
    mode = recipe.get("mode", "cuts")
    bounds, pos = [], 0
    for u in units[:-1]:
        pos += len(u)
        bounds.append(pos)
    if mode == "whole":
        cuts = []
    elif mode == "units":
        cuts = bounds
    elif mode == "ugroups":
        mask = recipe.get("mask", [])
        cuts = [b for i, b in enumerate(bounds) if (mask[i % len(mask)] if mask else 1)]
    elif mode == "every":
        cuts = list(range(1, len(stream)))
    else:
        cuts = [c if c >= 0 else len(stream) + c for c in recipe.get("cuts", [])]
    cuts = sorted({c for c in cuts if 0 < c < len(stream)})
    pieces, prev = [], 0
    for c in cuts + [len(stream)]:
        if c > prev:
            pieces.append((prev, c))
            prev = c
    delays = list(recipe.get("delays", []))
    out, total, is_late = [], 0.0, False
    for i, (a, b) in enumerate(pieces):
        d = delays[i % len(delays)] if delays else 0
        if d == 2 or is_late:
            is_late = True
            out.append([2, 0.0, a, b])
        elif d == 1 and total + T / 25 <= T / 5 + 1e-9:
            total += T / 25
            out.append([1, T / 25, a, b])
        else:
            out.append([0, 0.0, a, b])
    # glue what follows the reader's stop point to the piece that contains it
    stop = stop_index(stream, more_kind(case, request))
    if stop is not None:
        idx = next(i for i, p in enumerate(out) if p[2] < stop <= p[3])
        if out[idx][0] != 2:
            glued = out[: idx + 1]
            for p in out[idx + 1:]:
                if p[0] == 2:
                    glued.append(p)
                else:
                    glued[idx][3] = p[3]
            out = glued
    return [(cls, delay, stream[a:b]) for cls, delay, a, b in out]
