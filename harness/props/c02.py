"""C02 — block renders show exactly the image's pixels (colour and transparency).

Correspondence (observational + literal): real BlockImage renders of images generated for
run structure; the lexed output is (i) compared with Block.render on the pixel data
the renderer was given, (ii) executed on the terminal model and every cell's (upper, lower)
colours compared with [Block.expect] (the pixel oracle); and, Pillow-independently, for
images already at render resolution the pixel data itself is compared with the source
pixels, and uniform images must stay uniform."""
from __future__ import annotations

import core
import renderlib as R
from props import c02_seq as S

LEVEL = "proof"
EXTRA_TARGETS = ["model/RenderTie.vo", "model/RenderDataTie.vo", "model/BlockSeqTie.vo"]
THRESHOLDS = [0.0, 1 / 255, 0.5, 254 / 255, 0.999]
NO_ALPHA_MODES = {"1", "L", "RGB", "HSV", "CMYK"}  # common.py: modes rendered without an alpha channel


def gen_case(rng):
    w = rng.choice([1, 2, 3, 5, 8, 13, 16])
    h = rng.choice([1, 2, 3, 5, 8])
    kind = rng.choice(["runs", "runs", "alpha-flip", "random", "uniform"])
    bg = rng.choice([None, [0, 0, 0], [255, 255, 255], [18, 52, 86], [255, 0, 0]])
    identity = rng.random() < 0.35
    img = R.gen_image(rng, 16, kinds=(kind,))
    if identity:
        img["size"] = [w, 2 * h]
        img["mode"] = rng.choice(["RGBA", "RGBA", "RGB", "P", "LA"])
        if img["mode"] == "P":
            img["ptrans"] = rng.randrange(8)  # palette image with a transparent index
        # bilevel alpha, or partial alpha with / without fully transparent pixels (the expected
        # composite over the background is computed exactly by identity_check)
        img["alphas"] = rng.choice([[0, 255, 255], [0, 255, 255], [0, 255, 128, 1, 254, 37, 200],
                                    [255, 128, 200], [204], [254, 1, 127, 128], [0, 128]])
    if bg and rng.random() < 0.6:
        img["bg_pixel"] = bg  # pixels equal to the terminal background (kitty work-around)
    alpha = rng.choice([None, "#", "#102030"] + THRESHOLDS * 2)
    return {"style": "block", "cells": [w, h], "img": img, "alpha": alpha,
            "args": {"split_cells": rng.random() < 0.3}, "on_kitty": rng.random() < 0.4, "term_bg": bg,
            "want_source_pixels": identity or kind == "uniform",
            "identity": identity}


def corpus():
    cs = []
    for mode in R.MODES:
        for alpha in (None, 0.5, "#"):
            cs.append({"style": "block", "cells": [4, 2], "alpha": alpha, "args": {},
                       "img": {"mode": mode, "size": [6, 5], "seed": 11, "kind": "alpha-flip"},
                       "on_kitty": mode in ("RGBA", "P"), "term_bg": [0, 0, 0]})
    # a transparent run whose colour changes, an opaque run whose alpha flips, pixels equal to the bg
    cs.append({"style": "block", "cells": [6, 1], "alpha": 0.5, "args": {}, "on_kitty": True, "term_bg": [18, 52, 86],
               "img": {"mode": "RGBA", "size": [6, 2], "seed": 3, "kind": "alpha-flip", "bg_pixel": [18, 52, 86],
                       "alphas": [0, 255]}, "want_source_pixels": True, "identity": True})
    cs.append({"style": "block", "cells": [5, 2], "alpha": None, "args": {"split_cells": True}, "on_kitty": True,
               "term_bg": [255, 255, 255],
               "img": {"mode": "RGB", "size": [5, 4], "seed": 5, "kind": "uniform", "bg_pixel": [255, 255, 255]},
               "want_source_pixels": True, "identity": True})
    for alpha in (0.5, "#", "#102030", None):
        cs.append({"style": "block", "cells": [6, 2], "alpha": alpha, "args": {}, "on_kitty": False, "term_bg": [18, 52, 86],
                   "img": {"mode": "P", "size": [6, 4], "seed": 5, "kind": "runs", "ptrans": 1, "alphas": [255]},
                   "want_source_pixels": True, "identity": True})
    # threshold boundaries: round(alpha * 255) is 128 for .5 and 255 for .999 (pixels with alpha 127 / 254 are below it)
    for alpha in (0.5, 0.999, 1 / 255):
        cs.append({"style": "block", "cells": [6, 2], "alpha": alpha, "args": {}, "on_kitty": False, "term_bg": [18, 52, 86],
                   "img": {"mode": "RGBA", "size": [6, 4], "seed": 7, "kind": "random", "alphas": [127, 128, 254, 255, 0, 1]},
                   "want_source_pixels": True, "identity": True})
    return cs


JPEG_SOURCES = ["file", "pil", "pil-file"]


def jpeg_case(img, scale, source, alpha=None, **kw):
    """A single render of a JPEG source (lazy, configurable decoder) at 1/scale of its pixel size, handed over
    as a file path / a PIL image decoding lazily from memory / a file-backed PIL image not loaded yet.  The
    expected pixels are those of a FRESH FULL decode, converted and BOX-resampled to render resolution."""
    w, h = img["size"]
    c = {"style": "block", "cells": [w // scale, h // (2 * scale)], "img": dict(img), "alpha": alpha, "args": {},
         "on_kitty": False, "term_bg": [18, 52, 86], "source": source, "want_source_pixels": True, "src_resampled": True,
         "identity": True, "lazy_scale": scale}
    c.update(kw)
    return c


def gen_jpeg_case(rng, big=False):
    img = S.gen_lazy_img(rng, big)
    while "pages" in img:
        img = S.gen_lazy_img(rng, big)
    w, h = img["size"]
    scale = rng.choice([d for d in (1, 2, 2, 4, 4, 8) if w % d == 0 and h % (2 * d) == 0])
    c = jpeg_case(img, scale, rng.choice(JPEG_SOURCES), rng.choice([None, None, "#", "#102030", 0.5, 0.0]),
                  term_bg=rng.choice([None, [0, 0, 0], [18, 52, 86]]), on_kitty=rng.random() < 0.2,
                  args={"split_cells": rng.random() < 0.2})
    if rng.random() < 0.15:  # not a whole fraction of the pixel size
        c["cells"] = [rng.randint(1, w), rng.randint(1, h // 2)]
        c["lazy_scale"] = 0
    return c


def jpeg_corpus():
    cs = []
    rgb = {"mode": "RGB", "size": [16, 16], "seed": 61, "kind": "random", "alphas": [255], "container": "jpeg", "quality": 95}
    for source in JPEG_SOURCES:
        for scale in (1, 2, 4, 8):
            cs.append(jpeg_case(rgb, scale, source))
    cs.append(jpeg_case(dict(rgb, mode="L", seed=62, kind="runs", quality=90), 2, "pil-file", 0.5))
    cs.append(jpeg_case(dict(rgb, mode="CMYK", seed=63, size=[16, 8], quality=100), 4, "file", "#102030"))
    cs.append(jpeg_case(dict(rgb, seed=64, size=[32, 16], kind="bands", subsampling=0), 8, "pil", "#"))
    return cs


def composite(s, a, d):
    """Pillow's alpha_composite of an (s, alpha a) channel over an opaque channel d: the exact
    value (s*a + d*(255-a)) / 255 rounded to nearest (never a tie: 255 is odd) — established by
    an exhaustive sweep of all 2^24 (s, d, a) against Image.alpha_composite."""
    return (2 * (s * a + d * (255 - a)) + 255) // 510


def identity_check(case, res):
    """Pillow-independent: at render resolution every pixel handed to the renderer is the
    source pixel — opaque ones unchanged, partially transparent ones composited over the
    requested background colour ('#rrggbb'), or over the terminal background / black when it
    is unknown ('#' and thresholded transparency) — and the alpha classes are those of the
    threshold; disabling transparency ignores alpha."""
    if not case.get("identity") or "src" not in res or "rgb" not in res:
        return None
    src, rgb, a = res["src"], res["rgb"], res["a"]
    if len(src) != len(rgb):
        return f"pixel count {len(rgb)} != source {len(src)}"
    alpha = case.get("alpha")
    amode = res.get("alpha_mode", False)
    has_alpha = case["img"]["mode"] not in NO_ALPHA_MODES
    term_bg = case.get("term_bg") or [0, 0, 0]
    if isinstance(alpha, str):
        under = term_bg if alpha == "#" else [int(alpha[i:i + 2], 16) for i in (1, 3, 5)]
        thr = None
    elif alpha is None or not has_alpha:
        under, thr = None, None
    else:
        under, thr = term_bg, round(float(alpha) * 255)
    for k, (s, c, av) in enumerate(zip(src, rgb, a)):
        if thr is not None:
            if not amode:
                return "thresholded transparency on an image with alpha did not keep an alpha channel"
            if (s[3] < thr) != (av == 0) or av not in (0, 255):
                return f"pixel {k} alpha {s[3]} threshold {thr}: alpha class given to the renderer {av}"
            if av == 0:
                continue  # shown as the terminal's own background whatever its colour
        elif av != 255:
            return f"pixel {k} has alpha {av} although transparency is disabled / a background colour was requested"
        want = list(s[:3]) if under is None or not has_alpha else [composite(s[j], s[3], under[j]) for j in range(3)]
        if list(c) != want:
            return (f"pixel {k}: source {s} over {under} must show {want}, the renderer was given {list(c)} "
                    f"(alpha setting {alpha!r})")
    return None


RD_HEADER = ("From Coq Require Import List ZArith Bool.\nImport ListNotations.\n"
             "From TI Require Import lib.Term model.Block model.RenderData model.RenderDataTie.\nOpen Scope Z_scope.\n")


def rd_term(case, res):
    """Coq term of the render-data case (source pixels -> data handed to the renderer)."""
    alpha = case.get("alpha")
    if alpha is None:
        st = "ANone"
    elif isinstance(alpha, str):
        st = "ABg None" if alpha == "#" else "ABg (Some (%d, %d, %d))" % tuple(int(alpha[i:i + 2], 16) for i in (1, 3, 5))
    else:
        st = f"AThreshold {round(float(alpha) * 255)}"
    bg = case.get("term_bg")
    bgt = f"(Some {R.rgb_t(bg)})" if bg else "None"
    src = core.coq_list(res["src"], lambda p: f"{{| s_rgb := {R.rgb_t(p[:3])}; s_a := {p[3]} |}}")
    obs = core.coq_list(list(zip(res["rgb"], res["a"])), lambda o: f"({R.rgb_t(o[0])}, {o[1]})")
    return (f"{{| rd_has_alpha := {R.b(case['img']['mode'] not in NO_ALPHA_MODES)}; rd_set := {st}; rd_termbg := {bgt}; "
            f"rd_src := {src}; rd_obs := {obs}; rd_obs_amode := {R.b(res.get('alpha_mode', False))} |}}")


def uniform_check(case, res):
    if case["img"].get("kind") != "uniform" or "rgb" not in res or "src" not in res:
        return None
    if len({tuple(p) for p in res["src"]}) != 1:
        return None  # the conversion to the image's own mode (dithering, palettes) made the source non-uniform
    if len({tuple(p) for p in res["rgb"]}) != 1 or len(set(res["a"])) != 1:
        return "uniform image is not uniform at render resolution"
    return None


def interleave(cases, sequences):
    """Single renders and sequences spread evenly over the driver processes."""
    out, step = [], max(1, len(cases) // max(1, len(sequences)))
    ci = 0
    for q in sequences:
        out += cases[ci:ci + step] + [q]
        ci += step
    return out + cases[ci:]


def deinterleave(results, ncases, nseq):
    step = max(1, ncases // max(1, nseq))
    impl, simpl, ci, k = [], [], 0, 0
    for _ in range(nseq):
        take = max(0, min(step, ncases - ci))
        impl += results[k:k + take]
        simpl.append(results[k + take])
        k += take + 1
        ci += take
    return impl + results[k:], simpl


def evaluate(cases, impl, tag):
    """renderlib.evaluate on results already obtained (smaller shards: more of them side by side).
    Returns (codes per case, lex_errors per case, infrastructure errors)."""
    import lexer
    terms, owner = [], []
    codes = [0] * len(cases)
    lexerr = [None] * len(cases)
    for i, (c, r) in enumerate(zip(cases, impl)):
        if "error" in r:
            lexerr[i] = "render raised " + r["error"]
            continue
        try:
            toks = R.strip_payload(lexer.lex(r["out"]))
        except lexer.LexError as e:
            lexerr[i] = f"unlexable output: {e}"
            continue
        r["toks"] = toks
        terms.append(R.case_term(c, r, toks))
        owner.append(i)
    errors = []
    if terms:
        bad, errors = core.coq_shards(tag, R.HEADER, terms, "tcase", "bad cases", shard=48)
        for idx, code in bad:
            codes[owner[idx]] = code
    return codes, lexerr, errors


def run_sequences(sequences, failures, mismatches, distinct, judged):
    """Render sequences (props/c02_seq.py): every block render handed out during a sequence is judged by
    its own request.  Returns (histogram, infrastructure errors)."""
    verdicts, simpl, errors = judged
    sh = {"sequences": len(sequences), "requests": 0, "block_renders": 0, "at_render_resolution": 0, "length": {}, "via": {},
          "alpha": {}, "instances": {}, "cls": {}, "source": {}, "multi_frame_instances": 0, "frame_modes": {},
          "repeated_colour_and_size": 0, "equal_request_pairs": 0, "format_route_colour_requests": 0,
          "off_resolution_judged_against_resampled_full_decode": 0, "lazy_decoder_instances": {}, "caller_images_examined": 0,
          "lazy_thumbnail_then_pixel_size": 0}
    for c, v, r in zip(sequences, verdicts, simpl):
        sh["length"][len(c["session"])] = sh["length"].get(len(c["session"]), 0) + 1
        sh["instances"][len(c["instances"])] = sh["instances"].get(len(c["instances"]), 0) + 1
        for inst in c["instances"]:
            sh["cls"][inst["cls"]] = sh["cls"].get(inst["cls"], 0) + 1
            sh["source"][inst["source"]] = sh["source"].get(inst["source"], 0) + 1
            sh["multi_frame_instances"] += "pages" in inst["img"]
            if inst["img"].get("container") in ("jpeg", "mpo"):
                key = f"{inst['img']['container']}/{inst['source']}"
                sh["lazy_decoder_instances"][key] = sh["lazy_decoder_instances"].get(key, 0) + 1
        sh["caller_images_examined"] += len(r.get("caller_sources") or [])
        shrunk = set()
        for q in v["reqs"]:  # a render below the pixel size followed by one AT the pixel size, same lazily decoded instance
            sr = q.get("sr")
            inst = c["instances"][c["session"][q["step"]]["inst"]]
            if sr and "out" in sr and inst["img"].get("container") in ("jpeg", "mpo"):
                k = c["session"][q["step"]]["inst"]
                if sr.get("at_resolution") and k in shrunk:
                    sh["lazy_thumbnail_then_pixel_size"] += 1
                elif sr.get("resampled"):
                    shrunk.add(k)
        seen_colour, keys = {}, {}
        for st in c["session"]:
            sh["requests"] += 1
            sh["via"][st.get("via")] = sh["via"].get(st.get("via"), 0) + 1
            a = st.get("alpha")
            ak = "None" if a is None else "#" if a == "#" else "colour" if isinstance(a, str) else "threshold"
            sh["alpha"][ak] = sh["alpha"].get(ak, 0) + 1
            if ak == "colour":
                size = tuple(st.get("size") or c["instances"][st["inst"]]["cells"])
                sh["repeated_colour_and_size"] += (a, size) in seen_colour
                seen_colour[(a, size)] = True
                sh["format_route_colour_requests"] += st.get("via") in ("format", "iter")
        for q in v["reqs"]:
            sr = q.get("sr")
            if sr and "out" in sr:
                sh["frame_modes"][str(sr.get("frame_mode"))] = sh["frame_modes"].get(str(sr.get("frame_mode")), 0) + 1
                k = S.request_key(c, c["session"][q["step"]], sr, q["size"])
                sh["equal_request_pairs"] += keys.get(k, 0)
                keys[k] = keys.get(k, 0) + 1
        sh["block_renders"] += v["renders"]
        sh["at_render_resolution"] += v["at_resolution"]
        sh["off_resolution_judged_against_resampled_full_decode"] += v["resampled"]
        if v["renders"] >= 2 and v["at_resolution"] >= 1:
            distinct.add(core.sig(["sequence", c]))
        if S.failing(v):
            if len([f for f in failures if f.get("sequence")]) < 3 and not core.over_budget():
                c2, v2, r2 = S.shrink(c, v, r, "c02q")
            else:
                c2, v2, r2 = S.concrete(c, r), v, r
            j = v2["step"] if v2["step"] is not None else 0
            outs = []
            for sr in r2.get("session", []):
                for x in sr.get("multi", [sr]):
                    outs.append({k: (x[k][:1500] if k == "out" else x[k]) for k in x if k in ("out", "error", "frame", "frame_mode", "cls")})
            failures.append({"signature": core.sig(["sequence", c2]), "sequence": True,
                             "what": f"request {j + 1} of a sequence of renders in one process: {S.why(c2, v2)} — {S.describe(c2)}",
                             "replay": {"case": c2, "offending_request": j + 1, "results": outs}})
        elif v["code"] & 1:
            mismatches.append({"case": S.concrete(c, r), "code": v["code"], "step": v["step"],
                               "explain": "a block render of the sequence differs from the sequence model (BlockSeq.bs_run / "
                                          "Block.render / RenderData.render_px)"})
    return sh, errors


def run(ctx):
    from concurrent.futures import ThreadPoolExecutor
    rng = ctx.rng
    sequences = []
    if ctx.replay:
        cases = [ctx.replay["replay"]["case"]]
        if "instances" in cases[0]:
            cases, sequences = [], cases
    else:
        n = 250 if ctx.quick else 6000
        cases = corpus() + [gen_case(rng) for _ in range(n)]
        # sequences use their own stream (derived from the seed): the single-render cases of a seed stay what they were
        srng = __import__("random").Random(rng.getrandbits(64))
        sequences = S.corpus() + [S.gen_sequence(srng) for _ in range(26 if ctx.quick else 1200)]
        # sources behind a lazy / configurable decoder (JPEG, MPO): their own stream as well
        jrng = __import__("random").Random(rng.getrandbits(64))
        cases += jpeg_corpus() + [gen_jpeg_case(jrng, not ctx.quick) for _ in range(14 if ctx.quick else 400)]
        sequences += [S.gen_lazy_sequence(jrng, not ctx.quick) for _ in range(10 if ctx.quick else 400)]
    # one run of the implementation driver for everything, then the three comparisons inside Coq side by side
    # (all of it is subprocess-bound)
    todo = interleave(cases, sequences)
    # (a driver process costs ~1 s of start-up against ~10 ms per render: few, larger chunks)
    impl_all = core.run_impl_parallel("impl_render.py", todo, chunk=max(1, (len(todo) + 7) // 8) if ctx.quick else None)
    impl, simpl = deinterleave(impl_all, len(cases), len(sequences))
    rd_idx = [i for i, c in enumerate(cases) if c.get("identity") and "src" in impl[i] and "rgb" in impl[i]
              and len(impl[i]["src"]) == len(impl[i]["rgb"])]
    with ThreadPoolExecutor(max_workers=3) as ex:
        fut_q = ex.submit(S.judge, sequences, "c02q", simpl) if sequences else None
        fut_rd = ex.submit(core.coq_shards, "c02rd", RD_HEADER, [rd_term(cases[i], impl[i]) for i in rd_idx], "rdcase",
                           "rd_bad cases", 40) if rd_idx else None
        codes, lexerr, errors = evaluate(cases, impl, "c02") if cases else ([], [], [])
        judged = fut_q.result() if fut_q else ([], [], [])
        rd_bad, rd_errs = fut_rd.result() if fut_rd else ([], [])
    mismatches, failures = [], []
    hist = {"mode": {}, "kind": {}, "alpha": {}, "alpha_mode": {}, "on_kitty": {}, "split": {}, "identity": 0,
            "runs_per_line_avg": 0}
    distinct = set()
    runs = cells = 0
    # source pixels -> render data, judged inside Coq (model/RenderDataTie.v)
    errors = errors + rd_errs
    rd_codes = {rd_idx[k]: code for k, code in rd_bad}
    hist["source_to_render_data_cases"] = len(rd_idx)
    for i, c in enumerate(cases):
        r = impl[i]
        if rd_codes.get(i, 0) >= 2:
            lazy = (f"[{c['img'].get('container')} source handed over as {c.get('source', 'pil')}, rendered at "
                    f"{'1/%d' % c['lazy_scale'] if c.get('lazy_scale') else 'another fraction'} of its pixel size; expected pixels: "
                    "a fresh FULL decode, converted and BOX-resampled to render resolution] ") if c.get("src_resampled") else ""
            failures.append({"signature": core.sig(["identity", c["img"], c["cells"], c["alpha"], c.get("term_bg")]
                                                   + ([c.get("source")] if c.get("src_resampled") else [])),
                             "what": f"source pixels are not shown as the property demands (render-data check code {rd_codes[i]}): "
                                     f"{lazy}{identity_check(c, r)} — {R.describe(c)}", "replay": {"case": c}})
        elif rd_codes.get(i, 0) == 1:
            mismatches.append({"case": c, "code": 1, "explain": f"_get_render_data differs from RenderData.render_px: {identity_check(c, r)}"})
        hist["mode"][c["img"]["mode"]] = hist["mode"].get(c["img"]["mode"], 0) + 1
        hist["kind"][c["img"]["kind"]] = hist["kind"].get(c["img"]["kind"], 0) + 1
        hist["alpha"][repr(c["alpha"])[:6]] = hist["alpha"].get(repr(c["alpha"])[:6], 0) + 1
        hist["alpha_mode"][str(r.get("alpha_mode"))] = hist["alpha_mode"].get(str(r.get("alpha_mode")), 0) + 1
        hist["on_kitty"][str(c.get("on_kitty"))] = hist["on_kitty"].get(str(c.get("on_kitty")), 0) + 1
        hist["split"][str(c["args"].get("split_cells", False))] = hist["split"].get(str(c["args"].get("split_cells", False)), 0) + 1
        hist["identity"] += bool(c.get("identity"))
        if "toks" in r:
            nrun = sum(1 for t in r["toks"] if t[0] in ("bg", "sgr0"))
            runs += nrun
            cells += c["cells"][0] * c["cells"][1]
            # non-trivial: more than one colour run on some line and >= 2 columns
            if c["cells"][0] >= 2 and nrun > c["cells"][1] + 1:
                distinct.add(core.sig([c["img"], c["cells"], c["alpha"], c.get("on_kitty"), c.get("term_bg")]))
        if lexerr[i]:
            failures.append({"signature": core.sig(["lex", lexerr[i][:60]]), "what": f"{lexerr[i]} — {R.describe(c)}",
                             "replay": {"case": c}})
            continue
        if r.get("noalpha_same") is False:
            failures.append({"signature": core.sig(["noalpha", c["img"], c["cells"]]),
                             "what": "disabling transparency does not ignore alpha: the render differs from the render of the "
                                     f"same image without its alpha channel — {R.describe(c)}", "replay": {"case": c}})
        hist["alpha_ignored_pairs"] = hist.get("alpha_ignored_pairs", 0) + ("noalpha_same" in r)
        if c.get("src_resampled"):
            lz = hist.setdefault("lazy_decoder_sources", {"renders": 0, "source": {}, "scale": {}, "mode": {}})
            lz["renders"] += 1
            for key, val in (("source", c.get("source", "pil")), ("scale", f"1/{c.get('lazy_scale')}" if c.get("lazy_scale") else "other"),
                             ("mode", c["img"]["mode"])):
                lz[key][val] = lz[key].get(val, 0) + 1
            if "src" not in r and "error" not in r:
                errors.append(f"lazy-decoder case without expected pixels: {R.describe(c)}")
        if r.get("caller_source"):
            failures.append({"signature": core.sig(["caller-source", c["img"], c["cells"], c.get("source")]),
                             "what": f"after ONE render {r['caller_source']}: the library reconfigured / degraded a caller-supplied "
                                     f"image — source={c.get('source', 'pil')} {R.describe(c)}", "replay": {"case": c}})
        for name, chk in (("uniform", uniform_check),):
            msg = chk(c, r)
            if msg:
                failures.append({"signature": core.sig([name, c["img"], c["cells"], c["alpha"]]),
                                 "what": f"{name}: {msg} — {R.describe(c)}", "replay": {"case": c}})
        if codes[i] & 4 or codes[i] & 2:
            failures.append({"signature": core.sig(["pixels", c["img"], c["cells"], c["alpha"], c.get("on_kitty"), c.get("term_bg"), c["args"]]),
                             "what": f"block render does not show the image's pixels (code {codes[i]}: 2=rectangle contract, 4=pixel oracle) — {R.describe(c)}",
                             "replay": {"case": c, "output": r.get("out", "")[:4000]}})
        elif codes[i] & 1:
            mismatches.append({"case": c, "code": codes[i],
                               "explain": R.explain(c, r, "c02") if len(mismatches) < 3 else ""})
    hist["runs_per_line_avg"] = round(runs / max(1, sum(c["cells"][1] for c in cases)), 2)
    if sequences:
        hist["sequences"], serrors = run_sequences(sequences, failures, mismatches, distinct, judged)
        errors = errors + serrors
    for f in failures:
        f.pop("sequence", None)
    return {
        "corr_name": "Block.render (model) == lexed BlockImage renders; Block.expect == cells shown by Term.exec; "
                     "RenderData.render_px (model) == data returned by _get_render_data at render resolution, "
                     "RenderData.src_expect (specification) == what those data show; "
                     "BlockSeq.bs_run (sequence model: the i-th output is the render of the i-th request alone) == the block "
                     "renders handed out during sequences of requests over several instances, the world being the FULL fresh decode "
                     "of each source (BlockSeqSrc.full_src: at render resolution as decoded, off it converted + BOX-resampled)",
        "evaluations": len(cases) + hist.get("sequences", {}).get("block_renders", 0),
        "distinct_nontrivial": len(distinct),
        "rule": "corpus (9 modes x 3 alpha settings + hand-made run/alpha/background cases) + random images generated for run "
                "structure (colour runs, alpha flips inside runs, single-pixel changes, uniform, pixels equal to the terminal "
                "background), all nine modes, thresholds {0, 1/255, .5, 254/255, .999}, '#', hex, None; terminal background "
                "known/unknown; kitty work-around on/off; split cells on/off; 35% at render resolution with bilevel or partial alpha "
                "(Pillow-independent identity check incl. the exact composite over the background). Non-trivial: >= 2 columns and more colour runs than lines; distinct by "
                "(image, cells, alpha, kitty, background).  SEQUENCES (one driver process each): corpus (the same background "
                "colour and render size requested repeatedly over an opaque image, images with fully / partly transparent pixels, "
                "LA and palette-transparency images, instances of BlockImage and two levels of subclasses, a kitty-style render in "
                "between; every kind of alpha field through the format specifier next to the explicit parameter: '#', '##', "
                "thresholds, all-decimal colours #102030 #000000 #123456 #999999, exponent-shaped #0e1234 #12e456; multi-page TIFF "
                "RGB+RGBA, RGBA+RGB, L+LA+RGBA and GIF P(transparent index)+RGBA+RGB, file- and PIL-sourced, frames selected with "
                "seek() in every order through str / format / _renderer and through ImageIterator incl. its seek()) + random "
                "sequences of 3..8 requests over 1..4 instances (same image in several instances / classes, 30 % multi-page TIFF "
                "with pages drawn from RGB RGBA LA L 1 CMYK, 10 % GIF, 15 % sources off render resolution, 12 % kitty / iterm2 "
                "instances as interfering renders; per request: alpha drawn from two colours of the sequence (50 %), '#', None, "
                "thresholds; route _renderer / format / str / iterator; seek; size change (20 %); terminal background or kitty "
                "flag changed for one request).  Every block render is judged by qcheck inside Coq: single-render check, source "
                "pixels of the frame selected by the history (exact composite), equal requests show equal pixels.  A sequence is "
                "non-trivial when it hands out >= 2 block renders, >= 1 of them at render resolution.  LAZY / CONFIGURABLE DECODERS: "
                "JPEG stills (RGB, L, CMYK; quality 90..100; chroma subsampling 4:4:4 / 4:2:2 / 4:2:0; 8x8 .. 32x16, thorough up to "
                "64x48) and two-frame MPO, generated by the driver, handed over as a file path, as a PIL image decoding lazily from "
                "memory, and as a file-backed PIL image opened but never loaded; single renders at 1/1, 1/2, 1/4, 1/8 of the pixel "
                "size (corpus: every scale x every hand-over) and at other sizes; sequences on one instance in every order "
                "(thumbnail -> pixel size -> thumbnail ..., MPO frames via seek and the iterator, the same file through two kinds "
                "of hand-over).  Expected pixels: a FRESH FULL decode of the same bytes (never through the instance under test), "
                "identical at render resolution, converted + BOX-resampled off it (frames without an alpha channel, for every "
                "sequence).  After every sequence / single render each PIL image the caller handed in must still have the size "
                "and the pixels of a fresh full decode, frame by frame.",
        "samples": [R.describe(c) for c in cases[:1] + cases[-3:]] + [S.describe(c) for c in sequences[-2:]],
        "histogram": hist,
        "mismatches": mismatches,
        "failures": failures,
        "errors": errors,
        "assumptions": [
            "conversion, BOX resize and compositing are Pillow's (hypothesis of the theorem: the renderer is given (rgb, a)); "
            "validated by the identity-resolution and uniform-image cases where the expected pixels are known without Pillow",
            "a direct-colour terminal shows fg/bg halves as lib/Term.v's [visual] says",
            "sequences: what the library keeps between two renders is, per instance, the selected frame and the size (the "
            "state of model/BlockSeq.v); that nothing else is kept (module- / class-level caches, canvases, parsed settings) is "
            "what the sequence correspondence validates at run time, it is not derived from the source text",
            "decoding of multi-frame files (TIFF pages, GIF frames) is Pillow's: the expected pixels of a frame are those of an "
            "independent fresh decode of the same bytes positioned on that frame",
            "lossy formats (JPEG, MPO): 'the image' is Pillow's own FULL decode of the same bytes (deterministic); off render "
            "resolution 'the image at render resolution' of a frame without an alpha channel is that decode converted to RGB and "
            "BOX-resampled by Pillow (model/BlockSeqSrc.v: dec at scale 1, resample) -- the library's own decode never enters the oracle",
            "model/BlockSeqSrc.v: that the code never configures a source's decoder (full_policy) is a modelling statement validated at "
            "run time (renders of draft-able sources at 1/2..1/8 scale, the caller's image examined afterwards), not derived from the source text",
        ],
        "trusted": ["harness/lexer.py", "impl driver captures _get_render_data's return value by wrapping it",
                    "impl driver's own bookkeeping of the frame it selected (never read back from the instance under test)",
                    "impl driver's comparison of the caller's PIL image with a fresh full decode after a sequence (size and RGBA "
                    "pixel lists, frame by frame; plain equality of integers, evaluated in Python)"],
    }
