"""C02 — block renders show exactly the image's pixels (colour and transparency).

Correspondence (observational + literal): real BlockImage renders of images generated for
run structure; the lexed output is (i) compared with Block.render on the pixel data
the renderer was given, (ii) executed on the terminal model and every cell's (upper, lower)
colours compared with [Block.expect] (the pixel oracle); and, Pillow-independently, for
images already at render resolution the pixel data itself is compared with the source
pixels, and uniform images must stay uniform."""
from __future__ import annotations

import core
import renderlib as R

LEVEL = "proof"
EXTRA_TARGETS = ["model/RenderTie.vo", "model/RenderDataTie.vo"]
THRESHOLDS = [0.0, 1 / 255, 0.5, 254 / 255, 0.999]
NO_ALPHA_MODES = {"1", "L", "RGB", "HSV", "CMYK"}  # common.py: modes rendered without an alpha channel


def gen_case(rng):
    w = rng.choice([1, 2, 3, 5, 8, 13, 16])
    h = rng.choice([1, 2, 3, 5, 8])
    kind = rng.choice(["runs", "runs", "alpha-flip", "random", "uniform"])
    bg = rng.choice([None, [0, 0, 0], [255, 255, 255], [18, 52, 86], [255, 0, 0]])
    identity = rng.random() < 0.35
    img = R.gen_image(rng, 16, kinds=(kind,))
    if identity:
        img["size"] = [w, 2 * h]
        img["mode"] = rng.choice(["RGBA", "RGBA", "RGB", "P", "LA"])
        if img["mode"] == "P":
            img["ptrans"] = rng.randrange(8)  # palette image with a transparent index
        # bilevel alpha, or partial alpha with / without fully transparent pixels (the expected
        # composite over the background is computed exactly by identity_check)
        img["alphas"] = rng.choice([[0, 255, 255], [0, 255, 255], [0, 255, 128, 1, 254, 37, 200],
                                    [255, 128, 200], [204], [254, 1, 127, 128], [0, 128]])
    if bg and rng.random() < 0.6:
        img["bg_pixel"] = bg  # pixels equal to the terminal background (kitty work-around)
    alpha = rng.choice([None, "#", "#102030"] + THRESHOLDS * 2)
    return {"style": "block", "cells": [w, h], "img": img, "alpha": alpha,
            "args": {"split_cells": rng.random() < 0.3}, "on_kitty": rng.random() < 0.4, "term_bg": bg,
            "want_source_pixels": identity or kind == "uniform",
            "identity": identity}


def corpus():
    cs = []
    for mode in R.MODES:
        for alpha in (None, 0.5, "#"):
            cs.append({"style": "block", "cells": [4, 2], "alpha": alpha, "args": {},
                       "img": {"mode": mode, "size": [6, 5], "seed": 11, "kind": "alpha-flip"},
                       "on_kitty": mode in ("RGBA", "P"), "term_bg": [0, 0, 0]})
    # a transparent run whose colour changes, an opaque run whose alpha flips, pixels equal to the bg
    cs.append({"style": "block", "cells": [6, 1], "alpha": 0.5, "args": {}, "on_kitty": True, "term_bg": [18, 52, 86],
               "img": {"mode": "RGBA", "size": [6, 2], "seed": 3, "kind": "alpha-flip", "bg_pixel": [18, 52, 86],
                       "alphas": [0, 255]}, "want_source_pixels": True, "identity": True})
    cs.append({"style": "block", "cells": [5, 2], "alpha": None, "args": {"split_cells": True}, "on_kitty": True,
               "term_bg": [255, 255, 255],
               "img": {"mode": "RGB", "size": [5, 4], "seed": 5, "kind": "uniform", "bg_pixel": [255, 255, 255]},
               "want_source_pixels": True, "identity": True})
    for alpha in (0.5, "#", "#102030", None):
        cs.append({"style": "block", "cells": [6, 2], "alpha": alpha, "args": {}, "on_kitty": False, "term_bg": [18, 52, 86],
                   "img": {"mode": "P", "size": [6, 4], "seed": 5, "kind": "runs", "ptrans": 1, "alphas": [255]},
                   "want_source_pixels": True, "identity": True})
    return cs


def composite(s, a, d):
    """Pillow's alpha_composite of an (s, alpha a) channel over an opaque channel d: the exact
    value (s*a + d*(255-a)) / 255 rounded to nearest (never a tie: 255 is odd) — established by
    an exhaustive sweep of all 2^24 (s, d, a) against Image.alpha_composite."""
    return (2 * (s * a + d * (255 - a)) + 255) // 510


def identity_check(case, res):
    """Pillow-independent: at render resolution every pixel handed to the renderer is the
    source pixel — opaque ones unchanged, partially transparent ones composited over the
    requested background colour ('#rrggbb'), or over the terminal background / black when it
    is unknown ('#' and thresholded transparency) — and the alpha classes are those of the
    threshold; disabling transparency ignores alpha."""
    if not case.get("identity") or "src" not in res or "rgb" not in res:
        return None
    src, rgb, a = res["src"], res["rgb"], res["a"]
    if len(src) != len(rgb):
        return f"pixel count {len(rgb)} != source {len(src)}"
    alpha = case.get("alpha")
    amode = res.get("alpha_mode", False)
    has_alpha = case["img"]["mode"] not in NO_ALPHA_MODES
    term_bg = case.get("term_bg") or [0, 0, 0]
    if isinstance(alpha, str):
        under = term_bg if alpha == "#" else [int(alpha[i:i + 2], 16) for i in (1, 3, 5)]
        thr = None
    elif alpha is None or not has_alpha:
        under, thr = None, None
    else:
        under, thr = term_bg, round(float(alpha) * 255)
    for k, (s, c, av) in enumerate(zip(src, rgb, a)):
        if thr is not None:
            if not amode:
                return "thresholded transparency on an image with alpha did not keep an alpha channel"
            if (s[3] < thr) != (av == 0) or av not in (0, 255):
                return f"pixel {k} alpha {s[3]} threshold {thr}: alpha class given to the renderer {av}"
            if av == 0:
                continue  # shown as the terminal's own background whatever its colour
        elif av != 255:
            return f"pixel {k} has alpha {av} although transparency is disabled / a background colour was requested"
        want = list(s[:3]) if under is None or not has_alpha else [composite(s[j], s[3], under[j]) for j in range(3)]
        if list(c) != want:
            return (f"pixel {k}: source {s} over {under} must show {want}, the renderer was given {list(c)} "
                    f"(alpha setting {alpha!r})")
    return None


RD_HEADER = ("From Coq Require Import List ZArith Bool.\nImport ListNotations.\n"
             "From TI Require Import lib.Term model.Block model.RenderData model.RenderDataTie.\nOpen Scope Z_scope.\n")


def rd_term(case, res):
    """Coq term of the render-data case (source pixels -> data handed to the renderer)."""
    alpha = case.get("alpha")
    if alpha is None:
        st = "ANone"
    elif isinstance(alpha, str):
        st = "ABg None" if alpha == "#" else "ABg (Some (%d, %d, %d))" % tuple(int(alpha[i:i + 2], 16) for i in (1, 3, 5))
    else:
        st = f"AThreshold {round(float(alpha) * 255)}"
    bg = case.get("term_bg")
    bgt = f"(Some {R.rgb_t(bg)})" if bg else "None"
    src = core.coq_list(res["src"], lambda p: f"{{| s_rgb := {R.rgb_t(p[:3])}; s_a := {p[3]} |}}")
    obs = core.coq_list(list(zip(res["rgb"], res["a"])), lambda o: f"({R.rgb_t(o[0])}, {o[1]})")
    return (f"{{| rd_has_alpha := {R.b(case['img']['mode'] not in NO_ALPHA_MODES)}; rd_set := {st}; rd_termbg := {bgt}; "
            f"rd_src := {src}; rd_obs := {obs}; rd_obs_amode := {R.b(res.get('alpha_mode', False))} |}}")


def uniform_check(case, res):
    if case["img"].get("kind") != "uniform" or "rgb" not in res or "src" not in res:
        return None
    if len({tuple(p) for p in res["src"]}) != 1:
        return None  # the conversion to the image's own mode (dithering, palettes) made the source non-uniform
    if len({tuple(p) for p in res["rgb"]}) != 1 or len(set(res["a"])) != 1:
        return "uniform image is not uniform at render resolution"
    return None


def run(ctx):
    rng = ctx.rng
    if ctx.replay:
        cases = [ctx.replay["replay"]["case"]]
    else:
        n = 300 if ctx.quick else 6000
        cases = corpus() + [gen_case(rng) for _ in range(n)]
    codes, lexerr, impl, errors = R.evaluate(cases, "c02")
    mismatches, failures = [], []
    hist = {"mode": {}, "kind": {}, "alpha": {}, "alpha_mode": {}, "on_kitty": {}, "split": {}, "identity": 0,
            "runs_per_line_avg": 0}
    distinct = set()
    runs = cells = 0
    # source pixels -> render data, judged inside Coq (model/RenderDataTie.v)
    rd_idx = [i for i, c in enumerate(cases) if c.get("identity") and "src" in impl[i] and "rgb" in impl[i]
              and len(impl[i]["src"]) == len(impl[i]["rgb"])]
    rd_codes = {}
    if rd_idx:
        bad, errs = core.coq_shards("c02rd", RD_HEADER, [rd_term(cases[i], impl[i]) for i in rd_idx], "rdcase",
                                    "rd_bad cases", shard=60)
        errors += errs
        rd_codes = {rd_idx[k]: code for k, code in bad}
    hist["source_to_render_data_cases"] = len(rd_idx)
    for i, c in enumerate(cases):
        r = impl[i]
        if rd_codes.get(i, 0) >= 2:
            failures.append({"signature": core.sig(["identity", c["img"], c["cells"], c["alpha"], c.get("term_bg")]),
                             "what": f"source pixels are not shown as the property demands (render-data check code {rd_codes[i]}): "
                                     f"{identity_check(c, r)} — {R.describe(c)}", "replay": {"case": c}})
        elif rd_codes.get(i, 0) == 1:
            mismatches.append({"case": c, "code": 1, "explain": f"_get_render_data differs from RenderData.render_px: {identity_check(c, r)}"})
        hist["mode"][c["img"]["mode"]] = hist["mode"].get(c["img"]["mode"], 0) + 1
        hist["kind"][c["img"]["kind"]] = hist["kind"].get(c["img"]["kind"], 0) + 1
        hist["alpha"][repr(c["alpha"])[:6]] = hist["alpha"].get(repr(c["alpha"])[:6], 0) + 1
        hist["alpha_mode"][str(r.get("alpha_mode"))] = hist["alpha_mode"].get(str(r.get("alpha_mode")), 0) + 1
        hist["on_kitty"][str(c.get("on_kitty"))] = hist["on_kitty"].get(str(c.get("on_kitty")), 0) + 1
        hist["split"][str(c["args"].get("split_cells", False))] = hist["split"].get(str(c["args"].get("split_cells", False)), 0) + 1
        hist["identity"] += bool(c.get("identity"))
        if "toks" in r:
            nrun = sum(1 for t in r["toks"] if t[0] in ("bg", "sgr0"))
            runs += nrun
            cells += c["cells"][0] * c["cells"][1]
            # non-trivial: more than one colour run on some line and >= 2 columns
            if c["cells"][0] >= 2 and nrun > c["cells"][1] + 1:
                distinct.add(core.sig([c["img"], c["cells"], c["alpha"], c.get("on_kitty"), c.get("term_bg")]))
        if lexerr[i]:
            failures.append({"signature": core.sig(["lex", lexerr[i][:60]]), "what": f"{lexerr[i]} — {R.describe(c)}",
                             "replay": {"case": c}})
            continue
        if r.get("noalpha_same") is False:
            failures.append({"signature": core.sig(["noalpha", c["img"], c["cells"]]),
                             "what": "disabling transparency does not ignore alpha: the render differs from the render of the "
                                     f"same image without its alpha channel — {R.describe(c)}", "replay": {"case": c}})
        hist["alpha_ignored_pairs"] = hist.get("alpha_ignored_pairs", 0) + ("noalpha_same" in r)
        for name, chk in (("uniform", uniform_check),):
            msg = chk(c, r)
            if msg:
                failures.append({"signature": core.sig([name, c["img"], c["cells"], c["alpha"]]),
                                 "what": f"{name}: {msg} — {R.describe(c)}", "replay": {"case": c}})
        if codes[i] & 4 or codes[i] & 2:
            failures.append({"signature": core.sig(["pixels", c["img"], c["cells"], c["alpha"], c.get("on_kitty"), c.get("term_bg"), c["args"]]),
                             "what": f"block render does not show the image's pixels (code {codes[i]}: 2=rectangle contract, 4=pixel oracle) — {R.describe(c)}",
                             "replay": {"case": c, "output": r.get("out", "")[:4000]}})
        elif codes[i] & 1:
            mismatches.append({"case": c, "code": codes[i],
                               "explain": R.explain(c, r, "c02") if len(mismatches) < 3 else ""})
    hist["runs_per_line_avg"] = round(runs / max(1, sum(c["cells"][1] for c in cases)), 2)
    return {
        "corr_name": "Block.render (model) == lexed BlockImage renders; Block.expect == cells shown by Term.exec; "
                     "RenderData.render_px (model) == data returned by _get_render_data at render resolution, "
                     "RenderData.src_expect (specification) == what those data show",
        "evaluations": len(cases),
        "distinct_nontrivial": len(distinct),
        "rule": "corpus (9 modes x 3 alpha settings + hand-made run/alpha/background cases) + random images generated for run "
                "structure (colour runs, alpha flips inside runs, single-pixel changes, uniform, pixels equal to the terminal "
                "background), all nine modes, thresholds {0, 1/255, .5, 254/255, .999}, '#', hex, None; terminal background "
                "known/unknown; kitty work-around on/off; split cells on/off; 35% at render resolution with bilevel or partial alpha "
                "(Pillow-independent identity check incl. the exact composite over the background). Non-trivial: >= 2 columns and more colour runs than lines; distinct by "
                "(image, cells, alpha, kitty, background).",
        "samples": [R.describe(c) for c in cases[:1] + cases[-3:]],
        "histogram": hist,
        "mismatches": mismatches,
        "failures": failures,
        "errors": errors,
        "assumptions": [
            "conversion, BOX resize and compositing are Pillow's (hypothesis of the theorem: the renderer is given (rgb, a)); "
            "validated by the identity-resolution and uniform-image cases where the expected pixels are known without Pillow",
            "a direct-colour terminal shows fg/bg halves as lib/Term.v's [visual] says",
        ],
        "trusted": ["harness/lexer.py", "impl driver captures _get_render_data's return value by wrapping it"],
    }
