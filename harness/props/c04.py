"""C04 — automatic sizing fits the frame, fills it, preserves aspect ratio.

Correspondence: model/Sizing.v executed on Coq's primitive binary64 floats (lib/FPrim.v)
vs the real `_valid_size` / `set_size` / `size` / `rendered_size` / `_renderer`
(impl/impl_c04.py), judged inside Coq (model/SizingTie.v): `check_v` / `check_h` compare
the observed integers with the model AND run the property oracle (exact rationals, the
clauses of C04; history rules) on the observed values."""
from __future__ import annotations

import json
from fractions import Fraction

import core

LEVEL = "proof"
EXTRA_TARGETS = ["model/SizingTie.vo", "model/SizingConcTie.vo", "model/SizingRouteTie.vo"]
MODES = ["AUTO", "FIT", "FIT_TO_WIDTH", "ORIGINAL"]
FAMS = {"block": "Text", "kitty": "Graphics", "iterm2": "Graphics"}
HEADER = (
    "From Coq Require Import List ZArith PrimFloat.\nImport ListNotations.\n"
    "From TI Require Import lib.FArith lib.FPrim model.Sizing model.SizingTie model.SizingConc model.SizingConcTie model.SizingRoute model.SizingRouteTie.\n"
    "Open Scope Z_scope.\n"
)
BIG = 2 ** 30 - 1
ODD_CELLS = [(9, 19), (7, 15), (5, 11), (11, 23), (9, 20), (13, 27), (3, 7), (8, 17)]
CELLS = [None, (10, 20), (8, 16), (1, 1), (1, 2), (2, 1), (16, 32), (12, 12)] + ODD_CELLS


# ------------------------------------------------------------------ generators
def pick_dim(rng, lo=1):
    r = rng.random()
    if r < 0.15:
        return rng.randint(lo, 4)
    if r < 0.55:
        return rng.randint(lo, 300)
    if r < 0.8:
        return rng.randint(lo, 5000)
    if r < 0.9:
        k = rng.randint(1, 29)
        return max(lo, min(BIG, 2 ** k + rng.choice([-1, 0, 1])))
    return rng.randint(lo, BIG)


def pick_cell(rng):
    r = rng.random()
    if r < 0.7:
        return rng.choice(CELLS)
    return (rng.randint(1, 40), rng.randint(1, 60))


def pick_ratio(rng, cell):
    """a cell ratio as float.hex() or None (= AutoCellRatio.DYNAMIC)"""
    r = rng.random()
    if r < 0.12:
        return None
    if r < 0.45:
        return rng.choice([0.5, 0.5, 1.0, 0.25, 2.0, 0.75]).hex()
    if r < 0.6:
        w, h = rng.choice(ODD_CELLS) if not cell or rng.random() < 0.5 else cell
        return (w / h).hex()
    if r < 0.9:
        return rng.uniform(0.1, 3.0).hex()
    if r < 0.95:
        return (2.0 ** rng.randint(-20, 20)).hex()
    return (rng.uniform(1, 2) * 2.0 ** rng.randint(-20, 19)).hex()


def pick_term(rng):
    r = rng.random()
    if r < 0.3:
        return [80, 30]
    if r < 0.5:
        return [rng.randint(1, 6), rng.randint(1, 6)]
    if r < 0.9:
        return [rng.randint(1, 400), rng.randint(1, 150)]
    return [pick_dim(rng), pick_dim(rng)]


def pick_frame(rng, term):
    def one(t, default):
        r = rng.random()
        if r < 0.3:
            return default
        if r < 0.45:
            return rng.choice([0, -1, -2, -t, -t - 1, -t + 1, -t - 5])
        if r < 0.55:
            return -rng.randint(0, t + 3)
        if r < 0.65:
            return 1
        return pick_dim(rng) if rng.random() < 0.3 else rng.randint(1, 200)
    return [one(term[0], 0), one(term[1], -2)]


def resolve(fd, td):
    return fd if fd > 0 else max(td + fd, 1)


def cellpx(fam, cell):
    return (1, 2) if FAMS[fam] == "Text" else (cell or (1, 2))


def pr_of(fam, cell, ratio):
    if FAMS[fam] != "Text":
        return Fraction(1)
    if ratio is None:
        c = cell or (1, 2)
        return 2 * Fraction(c[0], c[1])
    return 2 * Fraction(float.fromhex(ratio))


def std_calls(W, H):
    return [["FIT", None], ["AUTO", None], ["ORIGINAL", None], ["FIT_TO_WIDTH", None], [W, None], [None, H],
            [None, None], [None, "AUTO"], [None, "FIT"], [None, "FIT_TO_WIDTH"], [None, "ORIGINAL"], [W, H]]


def in_exec_domain(c, limit=2 ** 50):
    """every pixel quantity the code computes stays below `limit` (ints convertible
    exactly; far from float overflow), so the binary64 model applies"""
    cw, ch = cellpx(c["fam"], c["cell"])
    pr = pr_of(c["fam"], c["cell"], c["ratio"])
    ow, oh = c["ow"], c["oh"]
    cols, lines = resolve(c["frame"][0], c["term"][0]), resolve(c["frame"][1], c["term"][1])
    W, H = c["calls"][4][0], c["calls"][5][1]
    vals = [oh * pr, cols * cw * Fraction(oh, ow) * pr, W * cw * Fraction(oh, ow) * pr,
            H * ch * Fraction(ow, oh) / pr, lines * ch * Fraction(ow, oh) / pr, cols * cw, lines * ch]
    return all(v < limit for v in vals)


def gen_v(rng):
    for _ in range(200):
        fam = rng.choice(["block", "block", "kitty", "iterm2"])
        cell = pick_cell(rng)
        if fam != "block" and cell and rng.random() < 0.7:
            cell = rng.choice(ODD_CELLS + [(10, 20), (8, 16)])
        ratio = pick_ratio(rng, cell)
        term = pick_term(rng)
        frame = pick_frame(rng, term)
        cols, lines = resolve(frame[0], term[0]), resolve(frame[1], term[1])
        cw, ch = cellpx(fam, cell)
        fw, fh = cols * cw, lines * ch
        pr = pr_of(fam, cell, ratio)
        shape = rng.random()
        if shape < 0.12:  # equal ratios: the source is a multiple / divisor of the frame
            k = rng.choice([1, 1, 2, 3, 5, 7])
            ow, oh = (fw * k, fh * k) if rng.random() < 0.5 else (max(fw // k, 1), max(fh // k, 1))
        elif shape < 0.2:  # equal ratios after the pixel ratio
            oh = pick_dim(rng)
            ow = max(1, min(BIG, round(Fraction(fw, fh) * oh * pr)))
        elif shape < 0.3:
            ow, oh = (1, pick_dim(rng)) if rng.random() < 0.5 else (pick_dim(rng), 1)
        elif shape < 0.42:  # around the AUTO threshold
            ow = max(1, fw + rng.choice([-1, 0, 0, 1]))
            oh = max(1, min(BIG, round(Fraction(fh) / pr) + rng.choice([-1, 0, 0, 1])))
        elif shape < 0.5:  # half-way heights: round() ties
            ow = pick_dim(rng)
            oh = max(1, min(BIG, int((rng.randint(0, 200) + Fraction(1, 2)) / pr)))
        else:
            ow, oh = pick_dim(rng), pick_dim(rng)
            if rng.random() < 0.3:
                oh = max(1, min(BIG, ow * rng.choice([1, 2, 3]) // rng.choice([1, 2, 3]) + rng.choice([-1, 0, 1])))
        ow, oh = min(ow, BIG), min(oh, BIG)
        W = rng.choice([cols, 1, rng.randint(1, 200), pick_dim(rng)])
        H = rng.choice([lines, 1, rng.randint(1, 100), pick_dim(rng)])
        c = {"kind": "v", "fam": fam, "ow": ow, "oh": oh, "term": term, "cell": list(cell) if cell else None,
             "ratio": ratio, "frame": frame, "calls": std_calls(W, H)}
        if in_exec_domain(c):
            return c
    raise RuntimeError("generator could not produce an in-domain case")


def gen_dimarg(rng, small=True):
    r = rng.random()
    if r < 0.3:
        return None
    if r < 0.62:
        return rng.randint(1, 120) if small else pick_dim(rng)
    if r < 0.9:
        return rng.choice(MODES)
    if r < 0.96:
        return rng.choice([0, -1, -5])
    return rng.choice(["bad", "bad2"])


def gen_h(rng, maxlen=8):
    fam = rng.choice(["block", "block", "kitty", "iterm2"])
    cell = rng.choice([None, (10, 20), (9, 19), (7, 15), (8, 16)])
    if rng.random() < 0.8:
        ow, oh = rng.randint(1, 256), rng.randint(1, 256)
    else:
        ow, oh = rng.randint(1, 4000), rng.randint(1, 4000)
    term = [rng.randint(1, 200), rng.randint(1, 80)] if rng.random() < 0.7 else [80, 30]
    term0 = list(term)
    ops = []
    for _ in range(rng.randint(1, maxlen)):
        k = rng.choices(["set_size", "assign", "render", "resize", "ratio"], [4, 3, 3, 3, 2.5])[0]
        if k == "set_size":
            w, h = gen_dimarg(rng), gen_dimarg(rng)
            if rng.random() < 0.5:
                (w, h) = (w, None) if rng.random() < 0.5 else (None, h)
            frame = [0, -2] if rng.random() < 0.5 else pick_frame(rng, term)
            via = "call"
            if frame == [0, -2] and h is None and w is not None and rng.random() < 0.4:
                via = "width"
            elif frame == [0, -2] and w is None and h is not None and rng.random() < 0.4:
                via = "height"
            elif rng.random() < 0.2:
                via = "kw"
            ops.append(["set_size", w, h, frame, via])
        elif k == "assign":
            r = rng.random()
            if r < 0.55:
                ops.append(["assign", "size", rng.choice(MODES)])
            elif r < 0.9:
                ops.append(["assign", "tuple", gen_dimarg(rng), gen_dimarg(rng)])
            else:
                ops.append(["assign", rng.choice(["badlen", "badtype"])])
        elif k == "render":
            ops.append(["render", rng.random() < 0.25, rng.choice(["str", "str", "format"])])
        elif k == "resize":
            term = [rng.randint(1, 250), rng.randint(1, 90)]
            ops.append(["resize", term[0], term[1], rng.choice([None, (10, 20), (9, 19), (7, 15), (8, 16), (12, 25)])])
        else:
            r = rng.random()
            if r < 0.25:
                ops.append(["ratio", "FIXED"])
            elif r < 0.5:
                ops.append(["ratio", "DYNAMIC"])
            elif r < 0.6:
                ops.append(["ratio", rng.choice([0.0, -1.0, -0.0]).hex()])
            else:
                ops.append(["ratio", pick_ratio(rng, None) or (0.5).hex()])
    return {"kind": "h", "fam": fam, "ow": ow, "oh": oh, "term": term0, "cell": list(cell) if cell else None, "ops": ops}


# ---- creation of the image: construction route x form of the size arguments (round 8)
ROUTES = {"ctor": "RCtor", "file": "RFromFile", "url": "RFromUrl"}


def arg_forms(rng):
    """every form the keyword arguments width / height can take: a key that is absent is not passed"""
    n, m = rng.randint(1, 120), rng.randint(1, 60)
    mode, mode2 = rng.choice(MODES), rng.choice(MODES)
    return [{}, {"width": None, "height": None}, {"width": None}, {"height": None},
            {"width": n}, {"height": m}, {"width": n, "height": None}, {"width": None, "height": m},
            {"width": n, "height": m}, {"width": mode}, {"height": mode}, {"width": mode, "height": None},
            {"width": None, "height": mode}, {"width": "FIT"}, {"width": 0}, {"height": -1}, {"width": "bad"},
            {"height": "bad2"}, {"width": mode, "height": m}, {"width": mode, "height": mode2}]


def form_name(args):
    def one(k):
        if k not in args:
            return "-"
        v = args[k]
        return "None" if v is None else ("int" if isinstance(v, int) and v > 0 else ("Size" if v in MODES else "invalid"))
    return "w=" + one("width") + ",h=" + one("height")


def env_history(rng, n):
    """resizes, cell-ratio changes and renders (reads of size / rendered_size follow every operation)"""
    ops = []
    for _ in range(n):
        k = rng.choices(["render", "resize", "ratio"], [3, 4, 2])[0]
        if k == "render":
            ops.append(["render", rng.random() < 0.15, rng.choice(["str", "str", "format"])])
        elif k == "resize":
            ops.append(["resize", rng.randint(1, 250), rng.randint(1, 90), rng.choice([None, (10, 20), (9, 19), (7, 15), (12, 25)])])
        else:
            r = rng.random()
            ops.append(["ratio", "FIXED"] if r < 0.2 else (["ratio", "DYNAMIC"] if r < 0.4 else ["ratio", pick_ratio(rng, None) or (0.5).hex()]))
    return ops


def gen_r(rng, route=None, args=None, fam=None):
    c = gen_h(rng, 6)
    if rng.random() < 0.7:  # the size setting of the creation lives through the whole history
        c["ops"] = env_history(rng, rng.randint(1, 7))
    else:
        c["ops"] = env_history(rng, rng.randint(1, 3)) + c["ops"]
    c["fam"] = fam or c["fam"]
    c["ow"], c["oh"] = rng.randint(1, 256), rng.randint(1, 256)  # a real PNG is written
    c["route"] = route or rng.choice(list(ROUTES))
    c["args"] = args if args is not None else rng.choice(arg_forms(rng))
    return c


def route_cases(rng, quick):
    """all routes x all argument forms (both style families over the sweep), then random ones"""
    cs = []
    k = 0
    for route in ROUTES:
        for args in arg_forms(rng):
            cs.append(gen_r(rng, route, args, fam=["block", "kitty", "block", "iterm2"][k % 4]))
            k += 1
    return cs + [gen_r(rng) for _ in range(50 if quick else 4000)]


# ---- concurrent sections
def interleavings(a, b):
    """every order of `a` grants to thread 0 and `b` grants to thread 1"""
    if a == 0 or b == 0:
        return [[0] * a + [1] * b]
    return [[0] + r for r in interleavings(a - 1, b)] + [[1] + r for r in interleavings(a, b - 1)]


def conc_case(rng, sched, pre=(), raises=(False, False), fam=None, post=None):
    fam = fam or rng.choice(["block", "block", "kitty", "iterm2"])
    cell = rng.choice([None, (10, 20), (9, 19), (7, 15), (8, 16)])
    term = [rng.randint(20, 200), rng.randint(8, 80)]
    if post is None:
        post = [["resize", rng.randint(1, 250), rng.randint(1, 90), rng.choice([None, (10, 20), (9, 19), (12, 25)])],
                ["render", False, "str"],
                ["resize", rng.randint(1, 250), rng.randint(1, 90), None]]
    return {"kind": "c", "fam": fam, "ow": rng.randint(1, 256), "oh": rng.randint(1, 256), "term": term,
            "cell": list(cell) if cell else None,
            "ops": [list(o) for o in pre] + [["conc", list(raises), [g if isinstance(g, list) else ["t", g] for g in sched]]] + post}


def conc_cases(rng, quick):
    cs = []
    # every interleaving of two renders of a dynamically sized image (4 steps each)
    for k, sched in enumerate(interleavings(4, 4)):
        pre = [] if k % 3 else [["assign", "size", MODES[(k // 3) % 4]]]
        cs.append(conc_case(rng, sched, pre=pre, raises=(k % 5 == 1, k % 7 == 2)))
    # ... of a fixed-size image (3 steps each: nothing to fix), a set_size first
    for k, sched in enumerate(interleavings(3, 3)):
        if quick and k % 2:
            continue
        pre = [["set_size", rng.choice([None, rng.randint(1, 60)]), None, [0, -2], "call"]] if k % 2 == 0 else \
            [["assign", "tuple", rng.randint(1, 90), rng.randint(1, 40)]]
        cs.append(conc_case(rng, sched, pre=pre))
    # three renders, random schedules (prefixes too: the rest runs to its end one after the other),
    # the terminal resized between two steps
    for _ in range(40 if quick else 1500):
        n = rng.choice([2, 2, 3, 3, 4])
        sched = [rng.randrange(n) for _ in range(rng.randint(0, 4 * n))]
        for _ in range(rng.choice([0, 0, 1, 2])):
            sched.insert(rng.randint(0, len(sched)),
                         ["resize", rng.randint(1, 250), rng.randint(1, 90), rng.choice([None, (10, 20), (9, 19)])])
        pre = []
        r = rng.random()
        if r < 0.3:
            pre = [["assign", "size", rng.choice(MODES)]]
        elif r < 0.45:
            pre = [["set_size", None, rng.randint(1, 40), [0, -2], "call"]]
        c = conc_case(rng, sched, pre=pre, raises=[rng.random() < 0.2 for _ in range(n)])
        if rng.random() < 0.3:  # two sections in one history
            sched2 = [rng.randrange(2) for _ in range(rng.randint(2, 8))]
            c["ops"] += [["conc", [False, False], [["t", g] for g in sched2]], ["resize", rng.randint(1, 250), rng.randint(1, 90), None]]
        cs.append(c)
    return cs


def V(fam, ow, oh, term, cell, ratio, frame, W, H):
    return {"kind": "v", "fam": fam, "ow": ow, "oh": oh, "term": list(term), "cell": list(cell) if cell else None,
            "ratio": None if ratio is None else float(ratio).hex(), "frame": list(frame), "calls": std_calls(W, H)}


CORPUS = [
    V("block", 288, 288, (80, 30), None, 0.5, (0, -2), 40, 20),
    V("block", 1, 1, (1, 1), None, 0.5, (0, 0), 1, 1),                      # frame 1x1, source 1x1
    V("block", 1, 1000, (80, 30), None, 0.5, (0, -2), 1, 1),                # 1xN
    V("block", 1000, 1, (80, 30), None, 0.5, (0, -2), 80, 28),              # Nx1
    V("block", 80, 56, (80, 30), None, 0.5, (0, -2), 80, 28),               # equal ratios, exactly the frame
    V("block", 160, 112, (80, 30), None, 0.5, (0, -2), 80, 28),
    V("block", 81, 56, (80, 30), None, 0.5, (0, -2), 80, 28),               # AUTO threshold +1 in width
    V("block", 80, 57, (80, 30), None, 0.5, (0, -2), 80, 28),               # AUTO threshold +1 in height
    V("block", 100, 75, (80, 30), (9, 19), 9 / 19, (0, -2), 33, 17),        # odd cell ratio
    V("block", 100, 75, (80, 30), (9, 19), None, (0, -2), 33, 17),          # DYNAMIC ratio
    V("block", 100, 75, (80, 30), None, None, (0, -2), 33, 17),             # DYNAMIC, no cell size: (1,2)
    V("block", 3, 5, (80, 30), None, 0.25, (-79, -29), 1, 1),               # relative frame clamped to 1x1
    V("block", 3, 5, (80, 30), None, 1.0, (-200, -200), 2, 3),              # relative frame below 1
    V("block", 7, 3, (5, 2), None, 2.0, (0, -2), 5, 1),                     # terminal smaller than the margin
    V("kitty", 288, 288, (80, 30), (9, 19), 0.5, (0, -2), 40, 20),
    V("kitty", 5, 5, (80, 30), (9, 19), 0.5, (0, -2), 1, 1),                # smaller than one cell: `or 1`
    V("kitty", 719, 531, (80, 30), (9, 19), 0.5, (0, -2), 80, 28),          # one pixel short of the frame
    V("kitty", 720, 532, (80, 30), (9, 19), 0.5, (0, -2), 80, 28),          # exactly the frame in pixels
    V("kitty", 721, 533, (80, 30), (9, 19), 0.5, (0, -2), 80, 28),
    V("iterm2", 1000, 1000, (80, 30), None, 0.5, (0, -2), 7, 7),            # no cell size: (1,2)
    V("iterm2", 1, 4096, (80, 30), (7, 15), 0.5, (10, 10), 3, 9),
    V("iterm2", 4096, 1, (80, 30), (7, 15), 0.5, (10, 10), 3, 9),
    V("block", BIG, BIG, (BIG, BIG), None, 0.5, (0, 0), BIG, 1),
    V("block", BIG, 1, (1, 1), None, 0.5, (1, 1), 1, 1),
    V("block", 3, 3, (80, 30), None, 1 / 3, (0, -2), 3, 1),                 # round() ties: 3 * 2/3
    V("block", 5, 5, (80, 30), None, 0.25, (0, -2), 5, 5),                  # 5 * 0.5 = 2.5 -> 2
    V("block", 7, 7, (80, 30), None, 0.25, (0, -2), 7, 7),                  # 3.5 -> 4
]
H_CORPUS = [
    {"kind": "h", "fam": "block", "ow": 100, "oh": 50, "term": [80, 30], "cell": [9, 19],
     "ops": [["set_size", None, None, [0, -2], "call"], ["assign", "size", "AUTO"], ["render", False, "str"],
             ["render", True, "str"], ["render", False, "format"], ["resize", 40, 10, None], ["ratio", "DYNAMIC"],
             ["ratio", (1.0).hex()], ["ratio", (0.0).hex()], ["set_size", 10, None, [0, -2], "width"],
             ["set_size", None, 7, [0, -2], "height"], ["assign", "tuple", 0, "bad"], ["assign", "tuple", "bad", 0],
             ["assign", "badlen"], ["assign", "badtype"], ["set_size", "FIT", 3, [0, 0], "call"], ["render", False, "str"]]},
    {"kind": "h", "fam": "kitty", "ow": 300, "oh": 200, "term": [80, 30], "cell": [9, 19],
     "ops": [["assign", "size", "FIT"], ["resize", 120, 40, [10, 20]], ["render", False, "str"], ["ratio", "FIXED"],
             ["resize", 20, 10, None], ["ratio", "DYNAMIC"], ["assign", "size", "ORIGINAL"], ["render", True, "str"],
             ["set_size", "FIT_TO_WIDTH", None, [30, 0], "call"], ["resize", 200, 60, [7, 15]], ["render", False, "str"],
             ["set_size", 3, 4, [0, -2], "call"], ["ratio", (0.3).hex()], ["resize", 5, 5, None]]},
    {"kind": "h", "fam": "block", "ow": 64, "oh": 64, "term": [80, 30], "cell": None,
     "ops": [["ratio", "FIXED"], ["ratio", "DYNAMIC"], ["resize", 80, 30, [9, 19]], ["ratio", "FIXED"],
             ["resize", 80, 30, None], ["ratio", "DYNAMIC"], ["assign", "size", "FIT_TO_WIDTH"], ["render", False, "str"]]},
]


# ------------------------------------------------------------------ Coq encoding
def zpair(p):
    return f"({core.z(p[0])}, {core.z(p[1])})"


def ocell(c):
    return f"(Some {zpair(c)})" if c else "None"


def flt(h):
    return f"({h})%float"


def dim_term(d):
    if d is None:
        return "DNone"
    if isinstance(d, int):
        return f"(DInt {core.z(d)})"
    if d in MODES:
        return f"(DSize {d})"
    return "DBad"


def vcase_term(c, out):
    calls = core.coq_list(c["calls"], lambda wh: f"({dim_term(wh[0])}, {dim_term(wh[1])})")
    obs = core.coq_list(out, zpair)
    ratio = "None" if c["ratio"] is None else f"(Some {flt(c['ratio'])})"
    return (f"{{| v_fam := {FAMS[c['fam']]}; v_ow := {core.z(c['ow'])}; v_oh := {core.z(c['oh'])}; "
            f"v_term := {zpair(c['term'])}; v_cell := {ocell(c['cell'])}; v_ratio := {ratio}; "
            f"v_frame := {zpair(c['frame'])}; v_calls := {calls}; v_obs := {obs} |}}")


def sizeval_term(s):
    return f"(Fixed {core.z(s[1])} {core.z(s[2])})" if s[0] == 0 else f"(Dyn {MODES[s[0] - 1]})"


def op_term(o):
    if o[0] == "set_size":
        return f"OSetSize {dim_term(o[1])} {dim_term(o[2])} {zpair(o[3])}"
    if o[0] == "assign":
        if o[1] == "size":
            return f"OAssign (ASize {o[2]})"
        if o[1] == "tuple":
            return f"OAssign (ATuple {dim_term(o[2])} {dim_term(o[3])})"
        return "OAssign ABadLen" if o[1] == "badlen" else "OAssign ABadType"
    if o[0] == "render":
        return f"ORender {'true' if o[1] else 'false'}"
    if o[0] == "resize":
        return f"OResize {core.z(o[1])} {core.z(o[2])} {ocell(o[3])}"
    if o[1] == "FIXED":
        return "OSetRatio RFixed"
    if o[1] == "DYNAMIC":
        return "OSetRatio RDynamic"
    return f"OSetRatio (rfloat {flt(o[1])})"


def hcase_term(c, trace):
    def ob(t):
        during = "None" if t["during"] is None else f"(Some {sizeval_term(t['during'])})"
        return (f"{{| ho_outcome := {core.z(t['c'])}; ho_size := {sizeval_term(t['size'])}; ho_rs := {zpair(t['rs'])}; "
                f"ho_rw := {core.z(t['rw'])}; ho_rh := {core.z(t['rh'])}; ho_during := {during} |}}")
    ops = core.coq_list(c["ops"], lambda o: f"({op_term(o)} : op PrimFA)")
    return (f"{{| h_fam := {FAMS[c['fam']]}; h_ow := {core.z(c['ow'])}; h_oh := {core.z(c['oh'])}; "
            f"h_term := {zpair(c['term'])}; h_cell := {ocell(c['cell'])}; h_ops := {ops}; "
            f"h_obs := {core.coq_list(trace, ob)} |}}")


def rcase_term(c, r):
    def kw(k):
        a = c.get("args") or {}
        return f"(Some {dim_term(a[k])})" if k in a else "None"
    t = r["init"]
    init = (f"{{| ho_outcome := {core.z(t['c'])}; ho_size := {sizeval_term(t['size'])}; ho_rs := {zpair(t['rs'])}; "
            f"ho_rw := {core.z(t['rw'])}; ho_rh := {core.z(t['rh'])}; ho_during := None |}}")
    return (f"{{| rc_route := {ROUTES[c.get('route', 'ctor')]}; rc_w := {kw('width')}; rc_h := {kw('height')}; "
            f"rc_made := {'true' if r['made'] else 'false'}; rc_init := {init}; rc_hist := {hcase_term(c, r['trace'])} |}}")


def grant_term(g):
    if g[0] == "t":
        return f"GThread {g[1]}"
    return f"GResize {core.z(g[1])} {core.z(g[2])} {ocell(g[3])}"


def cop_term(o):
    if o[0] == "conc":
        raises = core.coq_list(o[1], lambda r: "true" if r else "false")
        return f"CConc {raises} {core.coq_list(o[2], lambda g: '(' + grant_term(g) + ')')}"
    return f"CSeq ({op_term(o)})"


def ccase_term(c, trace):
    def hob(t):
        during = "None" if t["during"] is None else f"(Some {sizeval_term(t['during'])})"
        return (f"{{| ho_outcome := {core.z(t['c'])}; ho_size := {sizeval_term(t['size'])}; ho_rs := {zpair(t['rs'])}; "
                f"ho_rw := {core.z(t['rw'])}; ho_rh := {core.z(t['rh'])}; ho_during := {during} |}}")

    def thr(x):
        d = x[1]
        return f"({core.z(x[0])}, " + ("None" if d is None or d[0] < 0 else f"Some {sizeval_term(d)}") + ")"

    def ob(t):
        return f"{{| co_h := {hob(t)}; co_thr := {core.coq_list(t.get('thr') or [], thr)} |}}"
    return (f"{{| cc_fam := {FAMS[c['fam']]}; cc_ow := {core.z(c['ow'])}; cc_oh := {core.z(c['oh'])}; "
            f"cc_term := {zpair(c['term'])}; cc_cell := {ocell(c['cell'])}; cc_ops := {core.coq_list(c['ops'], cop_term)}; "
            f"cc_obs := {core.coq_list(trace, ob)} |}}")


# ------------------------------------------------------------------ evaluation
def evaluate(cases, tag="c04"):
    """-> (codes per case, errors, impl results)"""
    impl = core.run_impl_parallel("impl_c04.py", cases)
    vt, vo, ht, ho, ct, co = [], [], [], [], [], []
    for i, (c, r) in enumerate(zip(cases, impl)):
        if c["kind"] == "v":
            vt.append(vcase_term(c, r["out"]))
            vo.append(i)
        elif c["kind"] == "c":
            ct.append(ccase_term(c, r["trace"]))
            co.append(i)
        else:
            ht.append(rcase_term(c, r))
            ho.append(i)
    codes = [0] * len(cases)
    errors = []
    if vt:
        bad, errs = core.coq_shards(tag + "v", HEADER, vt, "vcase", "bad_v cases", shard=120)
        errors += errs
        for idx, code in bad:
            codes[vo[idx]] = code
    if ht:
        bad, errs = core.coq_shards(tag + "h", HEADER, ht, "rcase", "bad_r cases", shard=120)
        errors += errs
        for idx, code in bad:
            codes[ho[idx]] = code
    if ct:
        bad, errs = core.coq_shards(tag + "c", HEADER, ct, "ccase", "bad_c cases", shard=120)
        errors += errs
        for idx, code in bad:
            codes[co[idx]] = code
    return codes, errors, impl


def diagnose(case, impl):
    """model values and per-clause verdicts for one case, as printed by Coq"""
    if case["kind"] == "v":
        text = HEADER + f"Definition c : vcase := {vcase_term(case, impl['out'])}.\n" \
            "Set Printing Width 100000.\nEval vm_compute in (diag_v c).\n"
    elif case["kind"] == "c":
        text = HEADER + f"Definition c : ccase := {ccase_term(case, impl['trace'])}.\n" \
            "Set Printing Width 100000.\nEval vm_compute in (diag_c c).\n"
    else:
        text = HEADER + f"Definition c : rcase := {rcase_term(case, impl)}.\n" \
            "Set Printing Width 100000.\nEval vm_compute in (diag_r c).\n"
    rc, out = core.coq_eval_file(f"c04diag_{core.sig(case)}", text, timeout=300)
    vals = core.parse_evals(out)
    return vals[0][:3000] if vals else out[-1500:]


def describe(c):
    if c["kind"] == "v":
        return (f"{c['fam']} original={c['ow']}x{c['oh']} terminal={c['term']} cell={c['cell']} "
                f"cell_ratio={'DYNAMIC' if c['ratio'] is None else float.fromhex(c['ratio'])} frame={c['frame']} "
                f"width={c['calls'][4][0]} height={c['calls'][5][1]}")
    made = ""
    if c["kind"] == "h":
        made = f"created by {c.get('route', 'ctor')}({', '.join(f'{k}={v}' for k, v in (c.get('args') or {}).items())}) "
    return (f"{c['fam']} {made}original={c['ow']}x{c['oh']} terminal={c['term']} cell={c['cell']} ops="
            + json.dumps(c["ops"]))


def signature(c):
    return core.sig({k: c[k] for k in c if k != "calls"} | ({"W": c["calls"][4][0], "H": c["calls"][5][1]} if c["kind"] == "v" else {}))


def neighbours(c):
    """grid around a v-case (DESIGN 4/C04: ow, oh, cols, lines +- 2)"""
    out = []
    for dow in (-2, -1, 0, 1, 2):
        for doh in (-2, -1, 0, 1, 2):
            for dc, dl in ((0, 0), (-1, 0), (1, 0), (0, -1), (0, 1), (2, 2), (-2, -2)):
                n = json.loads(json.dumps(c))
                n["ow"], n["oh"] = max(1, c["ow"] + dow), max(1, c["oh"] + doh)
                n["term"] = [max(1, c["term"][0] + dc), max(1, c["term"][1] + dl)]
                if in_exec_domain(n):
                    out.append(n)
    return out


def shrink(case, tag):
    """greedy: smaller numbers / fewer operations while the oracle still fails on the implementation"""
    cur = case
    for _ in range(12):
        cands = []
        if cur["kind"] in ("h", "c"):
            for k in range(len(cur["ops"])):
                if (len(cur["ops"]) > 1 or "route" in cur) and (cur["kind"] == "h" or sum(o[0] == "conc" for o in cur["ops"]) > (cur["ops"][k][0] == "conc")):
                    n = dict(cur)
                    n["ops"] = cur["ops"][:k] + cur["ops"][k + 1:]
                    cands.append(n)
            for k, o in enumerate(cur["ops"]):
                if o[0] != "conc":
                    continue
                # a shorter schedule (the rest of each render then runs to its end, one render after
                # the other), fewer threads, no raising renderer
                for j in range(len(o[2]) - 1, -1, -1):
                    n = dict(cur)
                    n["ops"] = cur["ops"][:k] + [["conc", o[1], o[2][:j] + o[2][j + 1:]]] + cur["ops"][k + 1:]
                    cands.append(n)
                if len(o[1]) > 2 and all(g[0] != "t" or g[1] < len(o[1]) - 1 for g in o[2]):
                    n = dict(cur)
                    n["ops"] = cur["ops"][:k] + [["conc", o[1][:-1], o[2]]] + cur["ops"][k + 1:]
                    cands.append(n)
                if any(o[1]):
                    n = dict(cur)
                    n["ops"] = cur["ops"][:k] + [["conc", [False] * len(o[1]), o[2]]] + cur["ops"][k + 1:]
                    cands.append(n)
        if cur["kind"] == "h" and cur.get("route", "ctor") != "ctor":
            cands.append(dict(cur, route="ctor"))
        if cur["kind"] == "h" and cur.get("args"):
            for k in cur["args"]:
                cands.append(dict(cur, args={j: v for j, v in cur["args"].items() if j != k}))
        for key in ("ow", "oh"):
            for f in (lambda x: x // 2, lambda x: x - 1, lambda x: x * 2 // 3):
                v = f(cur[key])
                if 1 <= v < cur[key]:
                    n = dict(cur)
                    n[key] = v
                    cands.append(n)
        for j in (0, 1):
            for f in (lambda x: x // 2, lambda x: x - 1):
                v = f(cur["term"][j])
                if 1 <= v < cur["term"][j]:
                    n = dict(cur)
                    n["term"] = list(cur["term"])
                    n["term"][j] = v
                    cands.append(n)
        if cur["kind"] == "v":
            if cur["frame"] != [0, 0]:
                n = dict(cur)
                n["frame"] = [0, 0]
                cands.append(n)
            if cur["ratio"] not in (None, (0.5).hex()):
                n = dict(cur)
                n["ratio"] = (0.5).hex()
                cands.append(n)
            cands = [n for n in cands if in_exec_domain(n)]
        if not cands:
            break
        codes, errors, _ = evaluate(cands, tag=tag)
        nxt = next((n for n, cd in zip(cands, codes) if cd >= 2), None)
        if nxt is None or errors:
            break
        cur = nxt
    return cur


def run(ctx):
    rng = ctx.rng
    if ctx.replay:
        cases = [ctx.replay["replay"]["case"]]
    else:
        nv, nh = (1150, 330) if ctx.quick else (30000, 10000)
        cases = list(CORPUS) + list(H_CORPUS) + [gen_v(rng) for _ in range(nv)] \
            + [gen_h(rng, 8 if i % 4 else 16) for i in range(nh)] + conc_cases(rng, ctx.quick) \
            + route_cases(rng, ctx.quick)
    codes, errors, impl = evaluate(cases)

    hist = {"kind": {}, "family": {}, "creation_route": {}, "creation_size_arguments": {}, "creation_result": {},
            "original": {}, "cell": {}, "cell_ratio": {}, "frame": {},
            "history_ops": {}, "history_len": {}, "outcomes": {}, "auto_choice": {}, "fit_axis": {},
            "concurrent_sections": {"threads": {}, "size_setting_before": {}, "renders_overlapping": 0,
                                    "a_renderer_saw_the_dynamic_member": 0, "a_render_started_on_a_temporarily_fixed_size": 0,
                                    "resize_inside": 0, "raising_renderer": 0}}

    def bump(k, v):
        hist[k][v] = hist[k].get(v, 0) + 1

    def bump2(d, v):
        d[v] = d.get(v, 0) + 1

    distinct = set()
    for c, r in zip(cases, impl):
        bump("kind", c["kind"])
        bump("family", c["fam"])
        m = max(c["ow"], c["oh"])
        bump("original", "1xN/Nx1" if min(c["ow"], c["oh"]) == 1 else ("<=300" if m <= 300 else ("<=5000" if m <= 5000 else ">5000")))
        bump("cell", "none" if not c["cell"] else ("odd" if tuple(c["cell"]) in ODD_CELLS else "other"))
        if c["kind"] == "v":
            bump("cell_ratio", "dynamic" if c["ratio"] is None else
                 ("0.5" if c["ratio"] == (0.5).hex() else ("dyadic" if Fraction(float.fromhex(c["ratio"])).denominator <= 8 else "other")))
            bump("frame", ("abs" if c["frame"][0] > 0 else "rel") + "/" + ("abs" if c["frame"][1] > 0 else "rel"))
            o = r["out"]
            cols, lines = resolve(c["frame"][0], c["term"][0]), resolve(c["frame"][1], c["term"][1])
            bump("auto_choice", "original" if o[1] == o[2] and o[1] != o[0] else ("fit" if o[1] == o[0] and o[1] != o[2] else "same"))
            bump("fit_axis", ("w" if o[0][0] == cols else "") + ("h" if o[0][1] == lines else "") or "none")
            # non-trivial: neither dimension of the source is 1, the frame is larger than 1x1,
            # and FIT, ORIGINAL and FIT_TO_WIDTH give three different sizes
            if min(c["ow"], c["oh"]) > 1 and cols > 1 and lines > 1 and len({tuple(o[0]), tuple(o[2]), tuple(o[3])}) == 3:
                distinct.add(signature(c))
        else:
            bump("history_len", min(len(c["ops"]) // 4 * 4, 16))
            if c["kind"] == "h":
                bump("creation_route", c.get("route", "ctor"))
                bump("creation_size_arguments", form_name(c.get("args") or {}))
                bump("creation_result", "exception" if not r["made"] else ("dynamic" if r["init"]["size"][0] else "fixed"))
            kinds = set()
            for op, t in zip(c["ops"], r["trace"]):
                bump("history_ops", op[0])
                bump("outcomes", t["c"])
                kinds.add(op[0])
            cc = hist["concurrent_sections"]
            overlap = False
            prev_size = [2, 0, 0]  # a fresh image: Size.FIT
            for op, t in zip(c["ops"], r["trace"]):
                if op[0] == "conc":
                    n_thr = len(op[1])
                    ts = [g[1] for g in op[2] if g[0] == "t"] + [i for i in range(n_thr) for _ in range(4)]
                    firsts = {i: ts.index(i) for i in range(n_thr)}
                    lasts = {i: [k for k, x in enumerate(ts) if x == i][3] for i in range(n_thr)}  # its 4th grant: ended
                    # two renders overlap WITHOUT nesting: i starts, j starts, i ends, j ends
                    ov = any(firsts[i] < firsts[j] < lasts[i] < lasts[j] for i in firsts for j in firsts if i != j)
                    overlap = overlap or ov
                    cc["renders_overlapping"] += ov
                    bump2(cc["threads"], len(op[1]))
                    bump2(cc["size_setting_before"], "dynamic" if prev_size[0] else "fixed")
                    seen = [x[1] for x in t.get("thr") or []]
                    cc["a_renderer_saw_the_dynamic_member"] += any(d and d[0] > 0 for d in seen)
                    cc["a_render_started_on_a_temporarily_fixed_size"] += bool(prev_size[0] and len({tuple(d) for d in seen if d}) > 1)
                    cc["resize_inside"] += any(g[0] == "resize" for g in op[2])
                    cc["raising_renderer"] += any(op[1])
                prev_size = t["size"]
            # non-trivial: >= 3 ops, a size-setting op, an environment change and a render; a history with a
            # concurrent section: two renders of it overlap and the terminal is resized afterwards
            if c["kind"] == "c":
                if overlap and "resize" in kinds:
                    distinct.add(signature(c))
            elif len(c["ops"]) >= 3 and kinds & {"set_size", "assign"} and kinds & {"resize", "ratio"} and "render" in kinds:
                distinct.add(signature(c))
            elif c.get("args") and r["made"] and kinds & {"resize", "ratio"} and "render" in kinds:
                distinct.add(signature(c))  # created with size arguments, then the environment changes and a render

    mismatches, failures = [], []
    extra_searched = 0
    for i, code in enumerate(codes):
        if code == 0:
            continue
        c = cases[i]
        if code >= 2:
            if len(failures) >= 8:
                continue
            small = shrink(c, "c04s") if len(failures) < 1 and not ctx.replay else c
            if small is c or small == c:
                cd2, impl2 = [code], [impl[i]]
            else:
                cd2, _, impl2 = evaluate([small], tag="c04r")
            failures.append({
                "signature": signature(small),
                "what": "observed sizing contradicts the C04 oracle (exact rational clauses / history rules): "
                        + describe(small) + " -> " + json.dumps(impl2[0])[:300]
                        + " || (model, observed, clause ok): " + diagnose(small, impl2[0])[:700],
                "replay": {"case": small, "observed": impl2[0], "code": cd2[0]},
            })
        else:
            mm = {"case": c, "observed": impl[i], "diag": diagnose(c, impl[i])[:1500]}
            mismatches.append(mm)
            # the model no longer describes the code: search the neighbourhood with the oracle
            if c["kind"] == "v" and len(mismatches) <= 3:
                ns = neighbours(c)
                extra_searched += len(ns)
                ncodes, nerr, nimpl = evaluate(ns, tag="c04n")
                for n, cd, ni in zip(ns, ncodes, nimpl):
                    if cd >= 2:
                        failures.append({"signature": signature(n),
                                         "what": "near a model mismatch the oracle fails: " + describe(n) + " -> " + json.dumps(ni)[:300],
                                         "replay": {"case": n, "observed": ni, "code": cd}})
                        break
    nv = sum(1 for c in cases if c["kind"] == "v")
    return {
        "corr_name": "Sizing.valid_size / Sizing.trace on binary64 (Coq PrimFloat) == real _valid_size / set_size / size / "
                     "rendered_size / _renderer; SizingRoute.create == the real constructor / from_file / from_url; oracle SizingTie.spec_ok / "
                     "hspec / SizingRouteTie.rspec (exact Q) on the observed values",
        "evaluations": len(cases),
        "distinct_nontrivial": len(distinct),
        "rule": "corpus + generated: (v) one environment {family block|kitty|iterm2, original size 1..2^30-1 (small, 1xN, Nx1, equal "
                "ratios, AUTO threshold +-1, round() ties), terminal, cell size (none, even, odd), cell ratio (dynamic, .5, 1, .25, "
                "w/h of odd cells, random, 2^+-20), absolute/relative/clamped frame} x 12 argument pairs (FIT AUTO ORIGINAL FIT_TO_WIDTH "
                "width= height= None/None, Size as height, width+height), all intermediate pixel values < 2^50; (h) histories of "
                "1-8 (every 4th: 1-16) operations set_size/width=/height=/size=/render(str|format, may raise)/resize/set_cell_ratio "
                "(float, non-positive, FIXED, DYNAMIC) incl. invalid arguments; every history starts with the CREATION of the image "
                "and the reads right after it: route constructor | from_file (temporary PNG) | from_url (requests stubbed) x 20 forms "
                "of the keyword arguments width/height (left out, None written out, int, Size member, both, invalid) -- all "
                "3 x 20 combinations in both tiers, then random ones followed by resizes / cell-ratio changes / renders.  Non-trivial v: source and frame not degenerate and "
                "FIT/ORIGINAL/FIT_TO_WIDTH pairwise different; h: >= 3 ops with a size op, an environment change and a render; "
                "distinct by case hash." + (f"  Neighbourhood search around mismatches: {extra_searched} extra cases." if extra_searched else ""),
        "samples": [describe(c) for c in cases[:2] + cases[len(CORPUS):len(CORPUS) + 1]
                    + cases[len(CORPUS) + len(H_CORPUS):len(CORPUS) + len(H_CORPUS) + 2] + cases[-1:]],
        "histogram": hist,
        "mismatches": mismatches,
        "failures": failures,
        "errors": errors,
        "assumptions": [
            "IEEE-754: Coq's primitive binary64 floats (lib/FPrim.v) satisfy FArith.StandardModel (values, correctly rounded "
            "mul/div, monotone rounding with relative error 2^-53 on [2^-200, 2^200], exact comparisons, exact round-half-even and "
            "ceil) -- assumed, not proved; the theorems are `forall FA, StandardModel FA -> ...`",
            "theorem domain: original size, frame and given dimension in [1, 2^30), cell size in [1, 2^12], pixel ratio in "
            "[2^-32, 2^32]; the aspect clause additionally requires the exact free dimension to be below 2^40 pixels",
            "get_terminal_size() / get_cell_size() are read afresh on every call (the stubs of tests/__init__.py); the caching "
            "layer of utils.get_cell_size is the subject of C15",
        ],
        "trusted": [
            "CPython float = IEEE binary64 round-to-nearest-even = Coq PrimFloat (bit-exactness is checked on every case, not assumed)",
            "impl driver: stubs get_terminal_size / get_cell_size as the test-suite does; `_valid_size` is called on "
            "object.__new__ instances for sizes no PIL image could have; renders go through str()/format() with _render_image "
            "replaced by a recorder; from_url: the library module's name `requests` is bound to a stub (get -> status 200, the "
            "bytes of a generated PNG) in the driver process, from_file: a PNG in a scratch directory",
        ],
        "extra": {"single_call_cases": nv, "history_cases": len(cases) - nv,
                  "valid_size_calls_compared": nv * 12},
    }
