"""C20 — style settings resolve instance -> nearest class -> default.

Correspondence: generated class forests + set/unset histories run on the real classes
(impl/impl_c20.py) and on model/Settings.v inside Coq (model/SettingsTie.v: [check]
compares the observed trace with the model's trace AND with the history-level
specification [spec_trace], which is the property oracle)."""
from __future__ import annotations

import json

import core

LEVEL = "proof"
EXTRA_TARGETS = ["model/SettingsTie.vo"]
KINDS = {
    "rm": lambda root: f"(k_render_method {2 if root == 'kitty' else 3})",
    "fs": lambda root: "k_forced_support",
    "jq": lambda root: "k_jpeg_quality",
    "rff": lambda root: "k_read_from_file",
}
SETTINGS = {"kitty": ["rm", "fs"], "iterm2": ["rm", "fs", "jq", "rff", "nam"]}
VALUES = {
    "rm": [0, 0, 1, 1, 2, 2, 7, 8, 9],
    "fs": [0, 1, 1, 1, 2],
    "jq": [-1, 0, 50, 95, 95, 96, 100, 1000, 1001, -7],
    "rff": [0, 0, 1, 2],
    "nam": [1, 5, 4096, 0, -1, -5, 2097152],
}


def gen_case(rng, size):
    root = rng.choice(["kitty", "iterm2", "iterm2"])
    nc = rng.randint(1, 6)
    shape = rng.random()
    par = [0]
    for c in range(1, nc):
        if shape < 0.3:
            par.append(c - 1)  # chain
        elif shape < 0.45:
            par.append(0)  # star
        else:
            par.append(rng.randrange(c))
    ni = rng.randint(0, 3)
    icls = [rng.randrange(nc) for _ in range(ni)]
    settings = SETTINGS[root]
    focus = rng.choice(settings) if rng.random() < 0.6 else None
    ops = []
    for _ in range(rng.randint(1, size)):
        s = focus if focus and rng.random() < 0.8 else rng.choice(settings)
        kind = rng.choices(["cs", "cu", "is", "iu"], [5, 3, 2 if ni else 0, 1.5 if ni else 0])[0]
        t = rng.randrange(nc) if kind in ("cs", "cu") else rng.randrange(ni)
        o = {"s": s, "op": kind, "t": t, "pres": rng.randrange(6)}
        if kind in ("cs", "is"):
            o["v"] = rng.choice(VALUES[s])
        ops.append(o)
    case = {"root": root, "par": par, "icls": icls, "ops": ops}
    if nc > 1 and rng.random() < 0.35:
        # some subclasses get a metaclass DERIVED from their parent's (the model is unaffected)
        case["meta"] = sorted(rng.sample(range(1, nc), rng.randint(1, nc - 1)))
    return case


CORPUS = [
    # a style subclass with a derived metaclass: the native-animation limit stays ONE global value
    {"root": "iterm2", "par": [0, 0, 1], "icls": [1], "meta": [1, 2],
     "ops": [{"s": "nam", "op": "cs", "t": 1, "v": 4096, "pres": 0}, {"s": "nam", "op": "cs", "t": 0, "v": 5, "pres": 0},
             {"s": "nam", "op": "cu", "t": 2, "pres": 0}, {"s": "jq", "op": "cs", "t": 1, "v": 95, "pres": 0},
             {"s": "rff", "op": "cs", "t": 2, "v": 0, "pres": 0}, {"s": "rm", "op": "cs", "t": 1, "v": 2, "pres": 0}]},
    # F1 shape: parent set, subclass set, subclass unset -> must follow the parent
    {"root": "kitty", "par": [0, 0], "icls": [1],
     "ops": [{"s": "rm", "op": "cs", "t": 0, "v": 1, "pres": 0}, {"s": "rm", "op": "cs", "t": 1, "v": 0, "pres": 0},
             {"s": "rm", "op": "cu", "t": 1, "pres": 0}]},
    {"root": "iterm2", "par": [0, 0, 1], "icls": [2, 0],
     "ops": [{"s": "rm", "op": "cs", "t": 1, "v": 2, "pres": 1}, {"s": "rm", "op": "cs", "t": 2, "v": 1, "pres": 0},
             {"s": "rm", "op": "cu", "t": 2, "pres": 1}, {"s": "rm", "op": "cu", "t": 0, "pres": 0},
             {"s": "jq", "op": "cs", "t": 1, "v": 95, "pres": 0}, {"s": "jq", "op": "is", "t": 0, "v": 96, "pres": 0},
             {"s": "jq", "op": "cu", "t": 2, "pres": 0}, {"s": "nam", "op": "cs", "t": 2, "v": 5, "pres": 0},
             {"s": "nam", "op": "is", "t": 0, "v": 7, "pres": 0}, {"s": "nam", "op": "cu", "t": 0, "pres": 0},
             {"s": "fs", "op": "cs", "t": 1, "v": 1, "pres": 0}, {"s": "fs", "op": "is", "t": 0, "v": 1, "pres": 0},
             {"s": "rff", "op": "cs", "t": 0, "v": 0, "pres": 0}, {"s": "rff", "op": "cu", "t": 0, "pres": 0}]},
    {"root": "kitty", "par": [0], "icls": [0],
     "ops": [{"s": "rm", "op": "cs", "t": 0, "v": 1, "pres": 1}, {"s": "rm", "op": "cu", "t": 0, "pres": 0},
             {"s": "rm", "op": "is", "t": 0, "v": 2, "pres": 0}, {"s": "rm", "op": "is", "t": 0, "v": 1, "pres": 2},
             {"s": "rm", "op": "iu", "t": 0, "pres": 1}]},
]


def op_term(o):
    t = o["t"]
    if o["op"] == "cs":
        return f"ClsSet {t} {core.z(o['v'])}"
    if o["op"] == "cu":
        return f"ClsUnset {t}"
    if o["op"] == "is":
        return f"InstSet {t} {core.z(o['v'])}"
    return f"InstUnset {t}"


def gop_term(o):
    t = o["t"]
    return {"cs": f"GSet {t} {core.z(o.get('v', 0))}", "cu": f"GUnset {t}",
            "is": f"GInstSet {t} {core.z(o.get('v', 0))}", "iu": f"GInstUnset {t}"}[o["op"]]


def zll(rows):
    return core.coq_list(rows, lambda r: core.coq_list(r, core.z))


def evaluate(cases, tag="c20"):
    """Run cases on impl and in Coq. Returns (per_case_status, errors, impl_results).
    per_case_status[i] = list of (setting, code) with non-zero code, + harness-level flags."""
    impl = core.run_impl_parallel("impl_c20.py", cases)
    terms, owner = [], []
    gterms, gowner = [], []
    for i, (c, r) in enumerate(zip(cases, impl)):
        for s in SETTINGS[c["root"]]:
            ops = [o for o in c["ops"] if o["s"] == s]
            if not ops:
                continue
            obs = r["obs"][s]
            if s == "nam":
                gterms.append(f"{{| g_ops := {core.coq_list(ops, gop_term)}; g_obs := {zll(obs)} |}}")
                gowner.append((i, s))
            else:
                terms.append(
                    f"{{| t_kind := {KINDS[s](c['root'])}; t_par := {core.coq_list(c['par'])}; "
                    f"t_icls := {core.coq_list(c['icls'])}; t_ops := {core.coq_list(ops, op_term)}; "
                    f"t_obs := {zll(obs)} |}}")
                owner.append((i, s))
    header = "From Coq Require Import List ZArith.\nImport ListNotations.\nFrom TI Require Import model.Settings model.SettingsTie.\nOpen Scope nat_scope.\n"
    status = [[] for _ in cases]
    errors = []
    if terms:
        bad, errs = core.coq_shards(tag, header, terms, "tcase", "bad cases")
        errors += errs
        for idx, code in bad:
            i, s = owner[idx]
            status[i].append((s, code))
    if gterms:
        bad, errs = core.coq_shards(tag + "g", header, gterms, "gcase", "gbad cases")
        errors += errs
        for idx, code in bad:
            i, s = gowner[idx]
            status[i].append((s, code))
    for i, r in enumerate(impl):
        if r["interference"]:
            status[i].append(("interference", 2))
        if r["framing_bad"]:
            status[i].append(("framing", 2))
        f = r["final"]
        if not all(x == 1 for x in f["fresh_ok"]):
            status[i].append(("fresh-instance-method", 2))
        if not all(x == 1 for x in f["override_ok"]):
            status[i].append(("per-call-override", 2))
        if not all(x == 1 for x in f["instantiation_ok"]):
            status[i].append(("forced-support-instantiation", 2))
    return status, errors, impl


def fails_spec(st):
    return any(code >= 2 for _, code in st)


def shrink(case):
    """Greedy: drop operations (then instances / trailing classes) while the property
    oracle still fails on the implementation."""
    cur = case
    for _ in range(40):
        cands = []
        for k in range(len(cur["ops"])):
            c = dict(cur)
            c["ops"] = cur["ops"][:k] + cur["ops"][k + 1:]
            if c["ops"]:
                cands.append(c)
        if not cands:
            break
        status, errors, _ = evaluate(cands, tag="c20s")
        nxt = next((c for c, st in zip(cands, status) if fails_spec(st)), None)
        if nxt is None or errors:
            break
        cur = nxt
    return cur


def describe(case):
    def one(o):
        who = ("C%d" if o["op"] in ("cs", "cu") else "inst%d") % o["t"]
        return f"{who}.{o['s']}" + (f"={o['v']}" if "v" in o else ".unset")
    return f"root={case['root']} parents={case['par']} inst_classes={case['icls']} ops=[{', '.join(map(one, case['ops']))}]"


def run(ctx):
    rng = ctx.rng
    if ctx.replay:
        cases = [ctx.replay["replay"]["case"]]
    else:
        n = 300 if ctx.quick else 4000
        cases = list(CORPUS) + [gen_case(rng, 12 if i % 3 else 30) for i in range(n)]
    status, errors, impl = evaluate(cases)
    mismatches, failures = [], []
    hist = {"root": {}, "classes": {}, "ops_len": {}, "op_kinds": {}, "settings": {}, "rejected_ops": 0, "accepted_ops": 0}
    distinct = set()
    for c, r in zip(cases, impl):
        hist["root"][c["root"]] = hist["root"].get(c["root"], 0) + 1
        hist["classes"][len(c["par"])] = hist["classes"].get(len(c["par"]), 0) + 1
        b = min(len(c["ops"]) // 5 * 5, 30)
        hist["ops_len"][b] = hist["ops_len"].get(b, 0) + 1
        for o in c["ops"]:
            hist["op_kinds"][o["op"]] = hist["op_kinds"].get(o["op"], 0) + 1
            hist["settings"][o["s"]] = hist["settings"].get(o["s"], 0) + 1
        for s, rows in r["obs"].items():
            for row in rows:
                hist["rejected_ops" if row[0] else "accepted_ops"] += 1
        # non-trivial: >= 2 classes, >= 3 ops and some class-level set followed by an unset
        kinds = [o["op"] for o in c["ops"]]
        if len(c["par"]) >= 2 and len(c["ops"]) >= 3 and "cs" in kinds and ("cu" in kinds or "iu" in kinds):
            distinct.add(core.sig(c))
    for i, st in enumerate(status):
        if not st:
            continue
        if fails_spec(st):
            small = shrink(cases[i]) if len(failures) < 3 else cases[i]
            st2, _, impl2 = evaluate([small], tag="c20r")
            what = f"settings history violates the documented resolution rule ({[s for s, c in st2[0] if c >= 2]}): {describe(small)}"
            failures.append({
                "signature": core.sig({"root": small["root"], "par": small["par"], "icls": small["icls"],
                                       "ops": [(o["s"], o["op"], o["t"], o.get("v")) for o in small["ops"]]}),
                "what": what,
                "replay": {"case": small, "observed": impl2[0], "status": st2[0]},
            })
        else:
            mismatches.append({"case": cases[i], "status": st, "observed": impl[i]["obs"]})
    return {
        "corr_name": "Settings.trace (model) == real set/unset history on KittyImage/ITerm2Image subclass forests",
        "evaluations": len(cases),
        "distinct_nontrivial": len(distinct),
        "rule": "corpus + random class forests (1-6 classes: chains, stars, random trees; 0-3 instances) with 1-30 "
                "set/unset/invalid-set operations over render method, forced support, jpeg quality, read-from-file, "
                "native-anim limit; after every op every class's and instance's effective value is read, every "
                "instance is rendered (framing LINES vs WHOLE), at the end fresh instances, per-call overrides and "
                "forced-support instantiation are observed.  Non-trivial: >= 2 classes, >= 3 ops, a class-level "
                "set and some unset; distinct by full case hash.",
        "samples": [describe(c) for c in cases[:2] + cases[len(CORPUS):len(CORPUS) + 3]],
        "histogram": hist,
        "mismatches": mismatches,
        "failures": failures,
        "errors": errors,
        "assumptions": [
            "Python attribute resolution on single-inheritance class chains is modelled by cls_lookup (instance dict, then class chain)",
            "values are identified up to the case of a render-method name (the code applies .lower())",
        ],
        "trusted": ["impl driver reads _render_method (no public getter) and confirms it by the framing of real renders"],
    }
