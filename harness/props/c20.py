"""C20 — style settings resolve instance -> nearest class -> default.

Correspondence: generated class forests + set/unset histories run on the real classes
(impl/impl_c20.py) and on model/Settings.v inside Coq (model/SettingsTie.v: [check]
compares the observed trace with the model's trace AND with the history-level
specification [spec_trace], which is the property oracle).

Histories also contain RENDERS ("s": "rd") of instances whose sources are animated files
(GIF / APNG written to a temporary directory by the driver), PIL images opened from them,
static files and static PIL images, with or without a per-call method, whole or as one
frame of an ImageIterator, interleaved with set / unset operations of the render method
at every level and with operations on the global native-animation limit (values around
the sources' data sizes).  model/SettingsRenderTie.v [rcheck] compares the method each
render actually used and whether the size warning was issued with SettingsRender.rtrace
(model) and SettingsRender.spec_rtrace (the documented rule on the history alone).

Set operations carry Python VALUES of the universe of model/SettingsVal.v ("val": None, strings
incl. empty / padded / differently-cased / foreign names, ints, bools, floats incl. nan / inf,
bytes, tuples, lists, other sized containers, other objects of either truth value): valid and
INVALID ones of every kind for every setting at every level.  model/SettingsValTie.v [vcheck]
compares, after every operation, the outcome (accepted / TypeError / ValueError /
AttributeError) and what every class and instance reads with SettingsVal.vtrace (the argument
checks and writes as the code performs them) and SettingsVal.vspec_trace (the documented
meaning of each value; the documented resolution rule on the documented reading of the
history, in which an invalid operation is no operation).  Operations given in the older integer
coding ("v" + "pres") are translated to values first (legacy_val)."""
from __future__ import annotations

import json

import core

LEVEL = "proof"
EXTRA_TARGETS = ["model/SettingsTie.vo", "model/SettingsRenderTie.vo", "model/SettingsValTie.vo"]
KINDS = {
    "rm": lambda root: f"(SRm {2 if root == 'kitty' else 3})",
    "fs": lambda root: "SFs",
    "jq": lambda root: "SJq",
    "rff": lambda root: "SRff",
    "nam": lambda root: "SNam",
}
SETTINGS = {"kitty": ["rm", "fs"], "iterm2": ["rm", "fs", "jq", "rff", "nam"]}
VALUES = {
    "rm": [0, 0, 1, 1, 2, 2, 7, 8, 9],
    "fs": [0, 1, 1, 1, 2],
    "jq": [-1, 0, 50, 95, 95, 96, 100, 1000, 1001, -7],
    "rff": [0, 0, 1, 2],
    "nam": [1, 5, 4096, 0, -1, -5, 2097152],
}


# ---------------------------------------------------------------- the universe of values


def v_none():
    return {"k": "none"}


def v_str(x):
    return {"k": "str", "s": x}


def v_int(z):
    return {"k": "int", "z": z}


def v_bool(b):
    return {"k": "bool", "b": bool(b)}


def v_float(r):
    return {"k": "float", "r": r}


def v_bytes(x):
    return {"k": "bytes", "s": x}


def v_seq(kind, items):
    return {"k": kind, "l": list(items)}


def v_sized(t, n):
    return {"k": "sized", "t": t, "n": n}


def v_obj(w, t):
    return {"k": "obj", "w": w, "t": bool(t)}


# falsy values: of the wrong type for at least one setting each (False / 0 / None / "" are valid
# or invalid depending on the setting; the Coq side decides)
FALSY = [v_int(0), v_bool(False), v_float("0.0"), v_float("-0.0"), v_seq("tuple", []), v_seq("list", []),
         v_sized("dict", 0), v_sized("set", 0), v_sized("frozenset", 0), v_sized("range", 0),
         v_sized("bytearray", 0), v_bytes(""), v_obj("custom", False), v_obj("complex", False),
         v_str(""), v_none()]
TRUTHY_ODD = [v_bool(True), v_float("1.5"), v_float("5.0"), v_float("95.0"), v_float("1.0"), v_float("nan"),
              v_float("inf"), v_float("-inf"), v_seq("tuple", [v_str("whole")]), v_seq("list", [v_str("lines")]),
              v_seq("tuple", [v_none()]), v_seq("list", [v_int(0)]), v_sized("dict", 1), v_sized("set", 2),
              v_sized("range", 3), v_sized("bytearray", 1), v_bytes("lines"), v_bytes("whole"),
              v_obj("custom", True), v_obj("complex", True), v_obj("notimpl", True), v_obj("ellipsis", True),
              v_obj("type", True)]
STRINGS = [v_str(x) for x in (
    " ", "None", "none", "null", "0", "1", "95", "False", "True", "lines", "LINES", "Lines", "lInEs", "whole",
    "WHOLE", "wHoLe", "anim", "ANIM", "Anim", " lines", "lines ", "lines\n", "\tlines", "LINES ", "l ines",
    "line", "liness", "lines\x00", "line\u017f", "L\u0130NES", "l\u0131nes", "\uff4c\uff49\uff4e\uff45\uff53",
    "whole;", "lines,whole", "foo", "bar", "x")]
INTS = [v_int(z) for z in (-10**12, -1000, -7, -1, 1, 2, 50, 94, 95, 96, 100, 123, 4096, 2097152, 10**12)]
UNIVERSE = FALSY + TRUTHY_ODD + STRINGS + INTS
# a valid, non-default value per setting (what a wrongly accepted / wrongly "unset" value disturbs)
GOOD = {"rm": v_str("WHOLE"), "fs": v_bool(True), "jq": v_int(50), "rff": v_bool(False), "nam": v_int(4096)}


def legacy_val(s, v, pres):
    """The value the older integer coding of a set operation stands for (impl_c20.decode)."""
    if s == "rm":
        if 0 <= v <= 2:
            m = ["lines", "whole", "anim"][v]
            return v_str([m, m.upper(), m.capitalize()][pres % 3])
        return {7: v_str("foo"), 8: v_int(123), 9: v_str("")}.get(v, v_str("bar"))
    if s in ("fs", "rff"):
        return {0: v_bool(False), 1: v_bool(True)}.get(v, [v_int(2), v_str("x"), v_none()][pres % 3])
    if s == "jq":
        return v_str("x") if v == 1000 else (v_float("5.0") if v == 1001 else v_int(v))
    if s == "nam":
        return v_str("x") if v == -1 else v_int(v)
    raise ValueError(s)


def normalise(case):
    """Every set operation gets its value ("val"); the integer coding stays for reference."""
    ops = []
    for o in case["ops"]:
        if o["op"] in ("cs", "is") and "val" not in o:
            o = dict(o, val=legacy_val(o["s"], o["v"], o.get("pres", 0)))
        ops.append(o)
    return dict(case, ops=ops)


def val_term(d):
    k = d["k"]
    if k == "none":
        return "VNone"
    if k == "str":
        return f"(VStr {core.coq_list([ord(ch) for ch in d['s']], core.z)})"
    if k == "int":
        return f"(VInt {core.z(d['z'])})"
    if k == "bool":
        return f"(VBool {'true' if d['b'] else 'false'})"
    if k == "float":
        import fractions
        f = float(d["r"])
        if f != f:
            return "(VFloat FNaN)"
        if f in (float("inf"), float("-inf")):
            return f"(VFloat (FInf {'true' if f < 0 else 'false'}))"
        q = fractions.Fraction(f)
        return f"(VFloat (FFin {core.z(q.numerator)} {q.denominator}%positive))"
    if k == "bytes":
        return f"(VBytes {core.coq_list([ord(ch) for ch in d['s']], core.z)})"
    if k in ("tuple", "list"):
        return f"({'VTuple' if k == 'tuple' else 'VList'} {core.coq_list(d['l'], val_term)})"
    if k == "sized":
        return f"(VSized {d['n']})"
    if k == "obj":
        return f"(VObj {'true' if d['t'] else 'false'})"
    raise ValueError(d)


def val_repr(d):
    k = d["k"]
    if k == "none":
        return "None"
    if k in ("str",):
        return repr(d["s"])
    if k == "int":
        return str(d["z"])
    if k == "bool":
        return str(bool(d["b"]))
    if k == "float":
        return f"float({d['r']!r})"
    if k == "bytes":
        return "b" + repr(d["s"])
    if k == "tuple":
        return "(" + "".join(val_repr(x) + "," for x in d["l"]) + ")"
    if k == "list":
        return "[" + ", ".join(val_repr(x) for x in d["l"]) + "]"
    if k == "sized":
        return f"{d['t']}(<{d['n']} elements>)"
    return {"custom": "<truthy object>" if d["t"] else "<falsy object>", "complex": "1j" if d["t"] else "0j",
            "notimpl": "NotImplemented", "ellipsis": "...", "type": "int"}[d["w"]]


def value_corpus():
    """Every value of UNIVERSE handed to every setting at every level of both styles, each time
    right after the target (or, for a class-only setting written through an instance, its class)
    got a valid non-default value of its own -- so that a wrongly accepted value, or one taken for
    "unset", changes what somebody reads."""
    out = []
    for root in ("kitty", "iterm2"):
        for s in SETTINGS[root]:
            for lv in ("cs", "is"):
                for part, vals in enumerate((FALSY + TRUTHY_ODD, STRINGS + INTS)):
                    ops = []
                    for j, v in enumerate(vals):
                        inst_level_ok = s in ("rm", "jq", "rff")
                        if lv == "is" and inst_level_ok:
                            ops.append({"s": s, "op": "is", "t": 0, "val": GOOD[s], "pres": j})
                        else:
                            ops.append({"s": s, "op": "cs", "t": 1, "val": GOOD[s], "pres": j})
                        ops.append({"s": s, "op": lv, "t": 1 if lv == "cs" else 0, "val": v, "pres": j})
                    ops.append({"s": s, "op": "cu" if lv == "cs" else "iu", "t": 1 if lv == "cs" else 0, "pres": part})
                    out.append({"root": root, "par": [0, 0, 1], "icls": [2, 1], "src": ["p", "p"], "ops": ops})
    return out


SRC_KINDS = ["p", "g", "n", "q", "s"]  # static PIL, animated GIF file, animated PNG file, PIL image
#                                          opened from the GIF file, static PNG file
_SRC = {}
_PROBE = {}


def src_info():
    """{kind: {"animated": 0/1, "size": bytes}} of the driver's on-disk sources (deterministic)."""
    if not _SRC:
        probe = core.run_impl("impl_c20.py", [{"probe": 1}])[0]
        _SRC.update(probe["src"])
        _PROBE.update(probe)
    return _SRC


def nam_values():
    v = list(VALUES["nam"])
    for kd in ("g", "n"):
        sz = src_info()[kd]["size"]
        v += [sz - 1, sz, sz + 1]
    return v


def gen_render(rng, root, kinds, ni):
    t = rng.randrange(ni)
    nm = 2 if root == "kitty" else 3
    m = rng.choice([None, None, None] + list(range(nm)) + [nm - 1])
    animated = kinds[t] in ("g", "n", "q")
    return {"s": "rd", "op": "r", "t": t, "m": m, "f": int(animated and rng.random() < 0.2),
            "pres": rng.randrange(4)}


def gen_case(rng, size):
    root = rng.choice(["kitty", "iterm2", "iterm2"])
    nc = rng.randint(1, 6)
    shape = rng.random()
    par = [0]
    for c in range(1, nc):
        if shape < 0.3:
            par.append(c - 1)  # chain
        elif shape < 0.45:
            par.append(0)  # star
        else:
            par.append(rng.randrange(c))
    ni = rng.randint(0, 3)
    icls = [rng.randrange(nc) for _ in range(ni)]
    kinds = [rng.choice(["p", "g", "g", "g", "n", "n", "q", "s"]) for _ in range(ni)]
    settings = SETTINGS[root] + (["rd"] if ni else [])
    focus = rng.choice(settings + (["rd", "rd"] if ni else [])) if rng.random() < 0.6 else None
    namv = nam_values()
    ops = []
    for _ in range(rng.randint(1, size)):
        if focus == "rd":
            # renders interleaved with what the method used may (render method at every level)
            # and may NOT (the limit) depend on
            s = rng.choice(["rd", "rd", "rm", "rm", "nam" if root == "iterm2" else "rm"])
        else:
            s = focus if focus and rng.random() < 0.8 else rng.choice(settings)
        if s == "rd":
            ops.append(gen_render(rng, root, kinds, ni))
            continue
        kind = rng.choices(["cs", "cu", "is", "iu"], [5, 3, 2 if ni else 0, 1.5 if ni else 0])[0]
        t = rng.randrange(nc) if kind in ("cs", "cu") else rng.randrange(ni)
        o = {"s": s, "op": kind, "t": t, "pres": rng.randrange(6)}
        if kind in ("cs", "is"):
            o["v"] = rng.choice(namv if s == "nam" else VALUES[s])
            if focus == "rd" and s == "rm" and rng.random() < 0.5:
                o["v"] = 1 if root == "kitty" else rng.choice([1, 2, 2])
            elif rng.random() < 0.3:
                # any value of the universe: falsy ones, odd truthy ones, strings, integers
                o["val"] = rng.choice(rng.choice([FALSY, FALSY, TRUTHY_ODD, STRINGS, INTS]))
        ops.append(o)
    case = {"root": root, "par": par, "icls": icls, "src": kinds, "ops": ops}
    if nc > 1 and rng.random() < 0.35:
        # some subclasses get a metaclass DERIVED from their parent's (the model is unaffected)
        case["meta"] = sorted(rng.sample(range(1, nc), rng.randint(1, nc - 1)))
    return case


def render_corpus():
    """Boundary cases: ANIM effective at each level (instance, class, ancestor class) and as the
    per-call override, on animated file sources, with the global limit below / at / above the
    data size (and rejected / default values); kitty LINES / WHOLE at each level."""
    out = []

    def rd(t, m=None, f=0, pres=0):
        return {"s": "rd", "op": "r", "t": t, "m": m, "f": f, "pres": pres}

    def nam(t, v, op="cs"):
        return {"s": "nam", "op": op, "t": t, "v": v, "pres": 0}

    def rm(op, t, v=None, pres=0):
        o = {"s": "rm", "op": op, "t": t, "pres": pres}
        if v is not None:
            o["v"] = v
        return o

    for kd in ("g", "n", "q"):
        sz = src_info()[kd]["size"]
        levels = [
            ("ancestor", [rm("cs", 0, 2)], [rm("cu", 0)]),
            ("class", [rm("cs", 0, 1), rm("cs", 1, 2, 1)], [rm("cu", 1, pres=1)]),
            ("instance", [rm("cs", 2, 1), rm("is", 0, 2, 2)], [rm("iu", 0)]),
            ("override", [rm("cs", 2, 0)], []),
        ]
        for name, setup, undo in levels:
            m = 2 if name == "override" else None
            ops = list(setup)
            for lim in (0, sz + 1, sz, sz - 1, 1):
                ops += [nam(lim % 3, lim), rd(0, m, 0, lim % 4), rd(1, m), rd(0, m, 1)]
            ops += [nam(1, 0, "cu"), rd(0, m), rd(0, 0), rd(0, 1, pres=1)]
            ops += undo + [rd(0), rd(1, pres=1)]
            out.append({"root": "iterm2", "par": [0, 0, 1], "icls": [2, 1], "src": [kd, "s"], "ops": ops,
                        "meta": [2] if kd == "n" else []})
    kops = []
    for setup in ([rm("cs", 0, 1)], [rm("cs", 1, 0), rm("cs", 2, 1)], [rm("is", 0, 0)], [rm("iu", 0), rm("cu", 2)],
                  [rm("cu", 0)]):
        kops += setup + [rd(0), rd(1, pres=1), rd(0, 0), rd(0, 1, pres=1), rd(0, None, 1), rd(2)]
    out.append({"root": "kitty", "par": [0, 0, 1], "icls": [2, 0, 1], "src": ["g", "p", "n"], "ops": kops})
    return out


CORPUS = [
    # a style subclass with a derived metaclass: the native-animation limit stays ONE global value
    {"root": "iterm2", "par": [0, 0, 1], "icls": [1], "meta": [1, 2],
     "ops": [{"s": "nam", "op": "cs", "t": 1, "v": 4096, "pres": 0}, {"s": "nam", "op": "cs", "t": 0, "v": 5, "pres": 0},
             {"s": "nam", "op": "cu", "t": 2, "pres": 0}, {"s": "jq", "op": "cs", "t": 1, "v": 95, "pres": 0},
             {"s": "rff", "op": "cs", "t": 2, "v": 0, "pres": 0}, {"s": "rm", "op": "cs", "t": 1, "v": 2, "pres": 0}]},
    # F1 shape: parent set, subclass set, subclass unset -> must follow the parent
    {"root": "kitty", "par": [0, 0], "icls": [1],
     "ops": [{"s": "rm", "op": "cs", "t": 0, "v": 1, "pres": 0}, {"s": "rm", "op": "cs", "t": 1, "v": 0, "pres": 0},
             {"s": "rm", "op": "cu", "t": 1, "pres": 0}]},
    {"root": "iterm2", "par": [0, 0, 1], "icls": [2, 0],
     "ops": [{"s": "rm", "op": "cs", "t": 1, "v": 2, "pres": 1}, {"s": "rm", "op": "cs", "t": 2, "v": 1, "pres": 0},
             {"s": "rm", "op": "cu", "t": 2, "pres": 1}, {"s": "rm", "op": "cu", "t": 0, "pres": 0},
             {"s": "jq", "op": "cs", "t": 1, "v": 95, "pres": 0}, {"s": "jq", "op": "is", "t": 0, "v": 96, "pres": 0},
             {"s": "jq", "op": "cu", "t": 2, "pres": 0}, {"s": "nam", "op": "cs", "t": 2, "v": 5, "pres": 0},
             {"s": "nam", "op": "is", "t": 0, "v": 7, "pres": 0}, {"s": "nam", "op": "cu", "t": 0, "pres": 0},
             {"s": "fs", "op": "cs", "t": 1, "v": 1, "pres": 0}, {"s": "fs", "op": "is", "t": 0, "v": 1, "pres": 0},
             {"s": "rff", "op": "cs", "t": 0, "v": 0, "pres": 0}, {"s": "rff", "op": "cu", "t": 0, "pres": 0}]},
    {"root": "kitty", "par": [0], "icls": [0],
     "ops": [{"s": "rm", "op": "cs", "t": 0, "v": 1, "pres": 1}, {"s": "rm", "op": "cu", "t": 0, "pres": 0},
             {"s": "rm", "op": "is", "t": 0, "v": 2, "pres": 0}, {"s": "rm", "op": "is", "t": 0, "v": 1, "pres": 2},
             {"s": "rm", "op": "iu", "t": 0, "pres": 1}]},
]


def vop_term(o):
    """One set / unset operation as a SettingsVal.vop."""
    lv = "LCls" if o["op"] in ("cs", "cu") else "LInst"
    t = o["t"]
    if o["op"] in ("cs", "is"):
        return f"VSet {lv} {t} {val_term(o['val'])}"
    if o["s"] == "rm" and o.get("pres", 0) % 2 == 0:
        return f"VSet {lv} {t} VNone"  # set_render_method(None); the other spelling: no argument
    return f"VDel {lv} {t}"


def rop_term(o, n):
    """The documented reading of one operation of a history with renders, as a list of rops."""
    if o["s"] == "rm":
        return f"map RMeth (doc_op (SRm {n}) ({vop_term(o)}))"
    if o["s"] == "nam":
        return f"map RLim (doc_gop ({vop_term(o)}))"
    m = "None" if o.get("m") is None else f"(Some {core.z(o['m'])})"
    return f"[RRender {o['t']} {m} {'true' if o.get('f') else 'false'}]"


def zll(rows):
    return core.coq_list(rows, lambda r: core.coq_list(r, core.z))


def evaluate(cases, tag="c20", only=None):
    """Run cases on impl and in Coq. Returns (per_case_status, errors, impl_results).
    per_case_status[i] = list of (setting, code) with non-zero code, + harness-level flags.
    [only]: restrict the Coq-side judgement to these labels (used while shrinking)."""
    cases = [normalise(c) for c in cases]
    # spread neighbouring cases (the corpus comes first and is heavier) over the parallel drivers
    P = max(1, min(core.NCPU, len(cases)))
    order = sorted(range(len(cases)), key=lambda i: (i % P, i))
    shuffled = core.run_impl_parallel("impl_c20.py", [cases[i] for i in order])
    impl = [None] * len(cases)
    for i, r in zip(order, shuffled):
        impl[i] = r
    terms, owner = [], []
    rterms, rowner = [], []
    for i, (c, r) in enumerate(zip(cases, impl)):
        if any(o["s"] == "rd" for o in c["ops"]) and (only is None or "render-method-used" in only):
            rops = [o for o in c["ops"] if o["s"] in ("rm", "nam", "rd")]
            nm = 2 if c["root"] == "kitty" else 3
            rterms.append(
                f"{{| r_n := {nm}%Z; r_par := {core.coq_list(c['par'])}; "
                f"r_icls := {core.coq_list(c['icls'])}; "
                f"r_anim := {core.coq_list(r['srcs'], lambda x: 'true' if x[0] else 'false')}; "
                f"r_size := {core.coq_list(r['srcs'], lambda x: core.z(x[1]))}; "
                f"r_ops := concat {core.coq_list(rops, lambda o: rop_term(o, nm))}; r_obs := {zll([x[:2] for x in r['renders']])} |}}")
            rowner.append(i)
        for s in SETTINGS[c["root"]]:
            ops = [o for o in c["ops"] if o["s"] == s]
            if not ops or (only is not None and s not in only):
                continue
            obs = r["obs"][s]
            terms.append(
                f"{{| v_set := {KINDS[s](c['root'])}; v_par := {core.coq_list(c['par'])}; "
                f"v_icls := {core.coq_list(c['icls'])}; v_ops := {core.coq_list(ops, vop_term)}; "
                f"v_obs := {zll(obs)} |}}")
            owner.append((i, s))
    header = ("From Coq Require Import List ZArith.\nImport ListNotations.\n"
              "From TI Require Import model.Settings model.SettingsTie model.SettingsVal model.SettingsValTie.\n"
              "Open Scope nat_scope.\n")
    status = [[] for _ in cases]
    errors = []
    if terms:
        bad, errs = core.coq_shards(tag, header, terms, "vcase", "vbad cases")
        errors += errs
        for idx, code in bad:
            i, s = owner[idx]
            status[i].append((s, code))
    if rterms:
        rheader = header.replace("model.SettingsValTie.", "model.SettingsValTie model.SettingsRender model.SettingsRenderTie.")
        bad, errs = core.coq_shards(tag + "r", rheader, rterms, "rcase", "rbad cases")
        errors += errs
        for idx, code in bad:
            status[rowner[idx]].append(("render-method-used", code))
    for i, r in enumerate(impl):
        if r["interference"]:
            status[i].append(("interference", 2))
        if r["framing_bad"]:
            status[i].append(("framing", 2))
        f = r["final"]
        if not all(x == 1 for x in f["fresh_ok"]):
            status[i].append(("fresh-instance-method", 2))
        if not all(x == 1 for x in f["override_ok"]):
            status[i].append(("per-call-override", 2))
        if not all(x == 1 for x in f["instantiation_ok"]):
            status[i].append(("forced-support-instantiation", 2))
    return status, errors, impl, cases


def fails_spec(st):
    return any(code >= 2 for _, code in st)


def shrink(case, only=None):
    """Delta debugging over the operations: drop chunks (halves, quarters, ... single operations)
    while the property oracle still fails on the implementation (in the same respect)."""
    cur = case
    n = 2
    for _ in range(30):
        L = len(cur["ops"])
        if L <= 1:
            break
        n = min(n, L)
        size = (L + n - 1) // n
        cands = []
        for k in range(0, L, size):
            c = dict(cur)
            c["ops"] = cur["ops"][:k] + cur["ops"][k + size:]
            if c["ops"]:
                cands.append(c)
        status, errors, _, cands = evaluate(cands, tag="c20s", only=only)
        nxt = next((c for c, st in zip(cands, status) if fails_spec(st)), None)
        if errors:
            break
        if nxt is not None:
            cur = nxt
            n = max(n - 1, 2)
        elif size == 1:
            break
        else:
            n = min(n * 2, L)
    return cur


def describe(case):
    def one(o):
        if o["s"] == "rd":
            how = "iterator-frame" if o.get("f") else "render"
            return f"inst{o['t']}.{how}" + ("" if o.get("m") is None else "+" + "LWA"[o["m"]])
        who = ("C%d" if o["op"] in ("cs", "cu") else "inst%d") % o["t"]
        if o["op"] in ("cs", "is"):
            return f"{who}.{o['s']}={val_repr(o['val'] if 'val' in o else legacy_val(o['s'], o['v'], o.get('pres', 0)))}"
        return f"{who}.{o['s']}.unset"
    return (f"root={case['root']} parents={case['par']} inst_classes={case['icls']} "
            f"inst_sources={case.get('src')} ops=[{', '.join(map(one, case['ops']))}]")


def run(ctx):
    rng = ctx.rng
    if ctx.replay:
        cases = [ctx.replay["replay"]["case"]]
    else:
        n = 300 if ctx.quick else 4000
        corpus = list(CORPUS) + render_corpus() + value_corpus()
        cases = corpus + [gen_case(rng, 12 if i % 3 else 30) for i in range(n)]
    src_info()
    lower_bad = list(_PROBE.get("lower_bad", []))
    status, errors, impl, cases = evaluate(cases)
    if lower_bad:
        errors.append("str.lower() of the running Python maps code points outside A-Z onto letters of the "
                      f"render-method names (model/SettingsVal.v lower_cp assumes none): {lower_bad[:10]}")
    mismatches, failures = [], []
    ncorpus = 0 if ctx.replay else len(corpus)
    hist = {"root": {}, "classes": {}, "ops_len": {}, "op_kinds": {}, "settings": {}, "rejected_ops": 0, "accepted_ops": 0,
            "inst_sources": {}, "renders": {}, "render_requests": {}, "set_values": {}, "outcomes": {}}
    distinct = set()
    for c, r in zip(cases, impl):
        hist["root"][c["root"]] = hist["root"].get(c["root"], 0) + 1
        hist["classes"][len(c["par"])] = hist["classes"].get(len(c["par"]), 0) + 1
        b = min(len(c["ops"]) // 5 * 5, 30)
        hist["ops_len"][b] = hist["ops_len"].get(b, 0) + 1
        for o in c["ops"]:
            hist["op_kinds"][o["op"]] = hist["op_kinds"].get(o["op"], 0) + 1
            hist["settings"][o["s"]] = hist["settings"].get(o["s"], 0) + 1
        for kd in c.get("src", []):
            hist["inst_sources"][kd] = hist["inst_sources"].get(kd, 0) + 1
        rds = [o for o in c["ops"] if o["s"] == "rd"]
        for o, row in zip(rds, r.get("renders", [])):
            key = f"used={'LWA'[row[0]] if 0 <= row[0] <= 2 else row[0]},warned={row[1]}"
            hist["renders"][key] = hist["renders"].get(key, 0) + 1
            key = (f"src={c['src'][o['t']]},call={'-' if o.get('m') is None else 'LWA'[o['m']]},"
                   f"{'frame' if o.get('f') else 'whole'}")
            hist["render_requests"][key] = hist["render_requests"].get(key, 0) + 1
        for s, rows in r["obs"].items():
            sops = [o for o in c["ops"] if o["s"] == s]
            for o, row in zip(sops, rows):
                hist["rejected_ops" if row[0] else "accepted_ops"] += 1
                res = {0: "accepted", 1: "TypeError", 2: "ValueError", 3: "AttributeError"}.get(row[0], "other")
                if o["op"] in ("cs", "is"):
                    d = o["val"]
                    falsy = (d["k"] == "none" or d.get("s") == "" or d.get("z") == 0 or d.get("b") is False
                             or d.get("l") == [] or d.get("n") == 0 or d.get("t") is False
                             or d.get("r") in ("0.0", "-0.0"))
                    key = f"{s}/{'class' if o['op'] == 'cs' else 'instance'}/{d['k']}{'(falsy)' if falsy else ''}"
                    hist["set_values"][key] = hist["set_values"].get(key, 0) + 1
                    key = f"{s}/{'class' if o['op'] == 'cs' else 'instance'}:{res}"
                else:
                    key = f"{s}/{'class' if o['op'] == 'cu' else 'instance'}.unset:{res}"
                hist["outcomes"][key] = hist["outcomes"].get(key, 0) + 1
        # non-trivial: >= 2 classes, >= 3 ops and some class-level set followed by an unset
        kinds = [o["op"] for o in c["ops"]]
        if len(c["par"]) >= 2 and len(c["ops"]) >= 3 and "cs" in kinds and ("cu" in kinds or "iu" in kinds):
            distinct.add(core.sig(c))
    for i, st in enumerate(status):
        if not st:
            continue
        if fails_spec(st):
            if len(failures) < 2 and not ctx.replay:
                small = shrink(cases[i], {s for s, c in st if c >= 2})
                st2, _, impl2, _ = evaluate([small], tag="c20r")
                small = normalise(small)
            else:
                small, st2, impl2 = cases[i], [st], [impl[i]]
            what = f"settings history violates the documented resolution rule ({[s for s, c in st2[0] if c >= 2]}): {describe(small)}"
            failures.append({
                "signature": core.sig({"root": small["root"], "par": small["par"], "icls": small["icls"],
                                       "src": small.get("src"),
                                       "ops": [(o["s"], o["op"], o["t"], o.get("val"), o.get("m"), o.get("f"))
                                               for o in small["ops"]]}),
                "what": what,
                "replay": {"case": small, "observed": impl2[0], "status": st2[0]},
            })
        else:
            mismatches.append({"case": cases[i], "status": st, "observed": impl[i]["obs"]})
    return {
        "corr_name": "SettingsVal.vtrace (model) == real set/unset history, with values of the whole universe, on "
                     "KittyImage/ITerm2Image subclass forests",
        "evaluations": len(cases),
        "distinct_nontrivial": len(distinct),
        "rule": "corpus + random class forests (1-6 classes: chains, stars, random trees; 0-3 instances) with 1-30 "
                "set/unset/invalid-set operations over render method, forced support, jpeg quality, read-from-file, "
                "native-anim limit (values around the data sizes of the animated sources); the values set are drawn "
                f"from a universe of {len(UNIVERSE)} Python values ({len(FALSY)} falsy ones: 0, False, 0.0, -0.0, (), [], "
                "{}, set(), frozenset(), range(0), bytearray(), b'', a falsy object, 0j, '', None; odd truthy ones: "
                "floats incl. nan/inf, containers, bytes, NotImplemented, ..., a type; strings: names in every case, "
                "padded / truncated / foreign / look-alike names; integers around every range end) and the corpus hands "
                "EVERY value of the universe to EVERY setting at EVERY level of both styles; the outcome is compared "
                "by kind (accepted / TypeError / ValueError / AttributeError); interleaved with RENDERS of "
                "instances sourced from animated GIF/APNG files, PIL images opened from them, static files and static "
                "PIL images (str / format with or without a per-call method, one frame of an ImageIterator): the method "
                "whose output format was produced (LINES / WHOLE / ANIM = the whole animated file in one transmission) "
                "and whether the size warning was issued are compared with the model and with the documented rule; "
                "after every op every class's and instance's effective value is read, every "
                "instance is rendered (framing LINES vs WHOLE), at the end fresh instances, per-call overrides and "
                "forced-support instantiation are observed.  Non-trivial: >= 2 classes, >= 3 ops, a class-level "
                "set and some unset; distinct by full case hash.",
        "samples": [describe(c) for c in cases[:2] + cases[len(CORPUS):len(CORPUS) + 1] + cases[ncorpus:ncorpus + 3]],
        "histogram": hist,
        "mismatches": mismatches,
        "failures": failures,
        "errors": errors,
        "assumptions": [
            "Python attribute resolution on single-inheritance class chains is modelled by cls_lookup (instance dict, then class chain)",
            "values are identified up to the case of a render-method name (the code applies .lower()) and up to "
            "Python equality of bool and int (True == 1): a bool is accepted where an int is documented",
            "str.lower() maps no code point outside A-Z onto letters of the render-method names (checked over all "
            "code points of the running Python by the driver's probe at every run)",
            "a source's 'animated' flag and data size are facts about the file (PIL), inputs of the model",
        ],
        "trusted": ["impl driver reads _render_method (no public getter) and confirms it by the framing of real renders",
                    "decoding of a render into the method used: iterm2 LINES = one 'height=1' transmission per line, "
                    "WHOLE = one transmission of a single-frame image, ANIM = one transmission whose payload is "
                    "byte-for-byte the animated source file; kitty LINES/WHOLE by the number of transmissions"],
    }
