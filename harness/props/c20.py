"""C20 — style settings resolve instance -> nearest class -> default.

Correspondence: generated class forests + set/unset histories run on the real classes
(impl/impl_c20.py) and on model/Settings.v inside Coq (model/SettingsTie.v: [check]
compares the observed trace with the model's trace AND with the history-level
specification [spec_trace], which is the property oracle).

Histories also contain RENDERS ("s": "rd") of instances whose sources are animated files
(GIF / APNG written to a temporary directory by the driver), PIL images opened from them,
static files and static PIL images, with or without a per-call method, whole or as one
frame of an ImageIterator, interleaved with set / unset operations of the render method
at every level and with operations on the global native-animation limit (values around
the sources' data sizes).  model/SettingsRenderTie.v [rcheck] compares the method each
render actually used and whether the size warning was issued with SettingsRender.rtrace
(model) and SettingsRender.spec_rtrace (the documented rule on the history alone).

Render REQUESTS BY ROUTE ("s": "rd" with "route": "fmt" format() / "still" draw(animate=False) /
"anim" draw(animate=True) / "iter" an ImageIterator run to its end; "m": per-call method or None;
"others": other style arguments): the driver reports one row per rendered FRAME (animated draws
captured on a write-recording StringIO, sleep a no-op); model/SettingsRouteTie.v [qcheck] judges
the per-frame list against SettingsRoute.qtrace (the keyword dictionary through the hops of the
route) and SettingsRoute.spec_qtrace (every frame of every route is a render with the request's
per-call method).

Set operations carry Python VALUES of the universe of model/SettingsVal.v ("val": None, strings
incl. empty / padded / differently-cased / foreign names, ints, bools, floats incl. nan / inf,
bytes, tuples, lists, other sized containers, other objects of either truth value): valid and
INVALID ones of every kind for every setting at every level.  model/SettingsValTie.v [vcheck]
compares, after every operation, the outcome (accepted / TypeError / ValueError /
AttributeError) and what every class and instance reads with SettingsVal.vtrace (the argument
checks and writes as the code performs them) and SettingsVal.vspec_trace (the documented
meaning of each value; the documented resolution rule on the documented reading of the
history, in which an invalid operation is no operation).  Operations given in the older integer
coding ("v" + "pres") are translated to values first (legacy_val).

Class HIERARCHIES ("hier" instead of "par"): the library's own base classes (BaseImage, GraphicsImage,
TextImage, BlockImage), the style class, image mix-ins derived from the base classes that are not style
classes, plain object mix-ins, style classes composed of a style base and mix-ins listed before or after
it, diamonds -- created with type(name, bases, {}) through the library's metaclass; operations may target
the library's base classes themselves.  model/SettingsMroTie.v [mcheck] computes every class's MRO with the
C3 linearisation of model/SettingsMro.v, compares it with the real __mro__, and judges outcomes and
readings against SettingsMro.m_vtrace (lookup through the MRO as the code performs it) and
SettingsMro.m_vspec_trace (own value, else the FIRST CLASS OF THE MRO that has one, else the default).

SUPPORT DETECTION inside the histories ("det": 1 cases, driver impl/impl_c20_detect.py): the process starts
as a fresh one (no `_supported` recorded anywhere), the terminal reports one of six identities (kitty 0.30,
kitty 0.19, konsole, wezterm, iterm2, unknown: name / version + reply to the kitty graphics query are
stubbed, the detection is the library's own) and the history of set / unset operations of one setting is
interleaved with support checks on any class ("det", possibly a subclass first, possibly after the
recorded flags were dropped) and instance creations ("new", which check support first).
model/SettingsDetectTie.v [dcheck] judges every row against SettingsDetect.dtrace (detection writes only the
support flags) and against the documented rule on the history WITH THE DETECTION STEPS ERASED."""
from __future__ import annotations

import json

import core

LEVEL = "proof"
EXTRA_TARGETS = ["model/SettingsTie.vo", "model/SettingsRenderTie.vo", "model/SettingsValTie.vo",
                 "model/SettingsMroTie.vo", "model/SettingsDetectTie.vo", "model/SettingsRouteTie.vo",
                 "model/SettingsGeomTie.vo"]
KINDS = {
    "rm": lambda root: f"(SRm {2 if root == 'kitty' else 3})",
    "fs": lambda root: "SFs",
    "jq": lambda root: "SJq",
    "rff": lambda root: "SRff",
    "nam": lambda root: "SNam",
}
SETTINGS = {"kitty": ["rm", "fs"], "iterm2": ["rm", "fs", "jq", "rff", "nam"]}
VALUES = {
    "rm": [0, 0, 1, 1, 2, 2, 7, 8, 9],
    "fs": [0, 1, 1, 1, 2],
    "jq": [-1, 0, 50, 95, 95, 96, 100, 1000, 1001, -7],
    "rff": [0, 0, 1, 2],
    "nam": [1, 5, 4096, 0, -1, -5, 2097152],
}


# ---------------------------------------------------------------- the universe of values


def v_none():
    return {"k": "none"}


def v_str(x):
    return {"k": "str", "s": x}


def v_int(z):
    return {"k": "int", "z": z}


def v_bool(b):
    return {"k": "bool", "b": bool(b)}


def v_float(r):
    return {"k": "float", "r": r}


def v_bytes(x):
    return {"k": "bytes", "s": x}


def v_seq(kind, items):
    return {"k": kind, "l": list(items)}


def v_sized(t, n):
    return {"k": "sized", "t": t, "n": n}


def v_obj(w, t):
    return {"k": "obj", "w": w, "t": bool(t)}


# falsy values: of the wrong type for at least one setting each (False / 0 / None / "" are valid
# or invalid depending on the setting; the Coq side decides)
FALSY = [v_int(0), v_bool(False), v_float("0.0"), v_float("-0.0"), v_seq("tuple", []), v_seq("list", []),
         v_sized("dict", 0), v_sized("set", 0), v_sized("frozenset", 0), v_sized("range", 0),
         v_sized("bytearray", 0), v_bytes(""), v_obj("custom", False), v_obj("complex", False),
         v_str(""), v_none()]
TRUTHY_ODD = [v_bool(True), v_float("1.5"), v_float("5.0"), v_float("95.0"), v_float("1.0"), v_float("nan"),
              v_float("inf"), v_float("-inf"), v_seq("tuple", [v_str("whole")]), v_seq("list", [v_str("lines")]),
              v_seq("tuple", [v_none()]), v_seq("list", [v_int(0)]), v_sized("dict", 1), v_sized("set", 2),
              v_sized("range", 3), v_sized("bytearray", 1), v_bytes("lines"), v_bytes("whole"),
              v_obj("custom", True), v_obj("complex", True), v_obj("notimpl", True), v_obj("ellipsis", True),
              v_obj("type", True)]
STRINGS = [v_str(x) for x in (
    " ", "None", "none", "null", "0", "1", "95", "False", "True", "lines", "LINES", "Lines", "lInEs", "whole",
    "WHOLE", "wHoLe", "anim", "ANIM", "Anim", " lines", "lines ", "lines\n", "\tlines", "LINES ", "l ines",
    "line", "liness", "lines\x00", "line\u017f", "L\u0130NES", "l\u0131nes", "\uff4c\uff49\uff4e\uff45\uff53",
    "whole;", "lines,whole", "foo", "bar", "x")]
INTS = [v_int(z) for z in (-10**12, -1000, -7, -1, 1, 2, 50, 94, 95, 96, 100, 123, 4096, 2097152, 10**12)]
UNIVERSE = FALSY + TRUTHY_ODD + STRINGS + INTS
# a valid, non-default value per setting (what a wrongly accepted / wrongly "unset" value disturbs)
GOOD = {"rm": v_str("WHOLE"), "fs": v_bool(True), "jq": v_int(50), "rff": v_bool(False), "nam": v_int(4096)}


def legacy_val(s, v, pres):
    """The value the older integer coding of a set operation stands for (impl_c20.decode)."""
    if s == "rm":
        if 0 <= v <= 2:
            m = ["lines", "whole", "anim"][v]
            return v_str([m, m.upper(), m.capitalize()][pres % 3])
        return {7: v_str("foo"), 8: v_int(123), 9: v_str("")}.get(v, v_str("bar"))
    if s in ("fs", "rff"):
        return {0: v_bool(False), 1: v_bool(True)}.get(v, [v_int(2), v_str("x"), v_none()][pres % 3])
    if s == "jq":
        return v_str("x") if v == 1000 else (v_float("5.0") if v == 1001 else v_int(v))
    if s == "nam":
        return v_str("x") if v == -1 else v_int(v)
    raise ValueError(s)


def normalise(case):
    """Every set operation gets its value ("val"); the integer coding stays for reference."""
    ops = []
    for o in case["ops"]:
        if o["op"] in ("cs", "is") and "val" not in o:
            o = dict(o, val=legacy_val(o["s"], o["v"], o.get("pres", 0)))
        ops.append(o)
    return dict(case, ops=ops)


def val_term(d):
    k = d["k"]
    if k == "none":
        return "VNone"
    if k == "str":
        return f"(VStr {core.coq_list([ord(ch) for ch in d['s']], core.z)})"
    if k == "int":
        return f"(VInt {core.z(d['z'])})"
    if k == "bool":
        return f"(VBool {'true' if d['b'] else 'false'})"
    if k == "float":
        import fractions
        f = float(d["r"])
        if f != f:
            return "(VFloat FNaN)"
        if f in (float("inf"), float("-inf")):
            return f"(VFloat (FInf {'true' if f < 0 else 'false'}))"
        q = fractions.Fraction(f)
        return f"(VFloat (FFin {core.z(q.numerator)} {q.denominator}%positive))"
    if k == "bytes":
        return f"(VBytes {core.coq_list([ord(ch) for ch in d['s']], core.z)})"
    if k in ("tuple", "list"):
        return f"({'VTuple' if k == 'tuple' else 'VList'} {core.coq_list(d['l'], val_term)})"
    if k == "sized":
        return f"(VSized {d['n']})"
    if k == "obj":
        return f"(VObj {'true' if d['t'] else 'false'})"
    raise ValueError(d)


def val_repr(d):
    k = d["k"]
    if k == "none":
        return "None"
    if k in ("str",):
        return repr(d["s"])
    if k == "int":
        return str(d["z"])
    if k == "bool":
        return str(bool(d["b"]))
    if k == "float":
        return f"float({d['r']!r})"
    if k == "bytes":
        return "b" + repr(d["s"])
    if k == "tuple":
        return "(" + "".join(val_repr(x) + "," for x in d["l"]) + ")"
    if k == "list":
        return "[" + ", ".join(val_repr(x) for x in d["l"]) + "]"
    if k == "sized":
        return f"{d['t']}(<{d['n']} elements>)"
    return {"custom": "<truthy object>" if d["t"] else "<falsy object>", "complex": "1j" if d["t"] else "0j",
            "notimpl": "NotImplemented", "ellipsis": "...", "type": "int"}[d["w"]]


def value_corpus():
    """Every value of UNIVERSE handed to every setting at every level of both styles, each time
    right after the target (or, for a class-only setting written through an instance, its class)
    got a valid non-default value of its own -- so that a wrongly accepted value, or one taken for
    "unset", changes what somebody reads."""
    out = []
    for root in ("kitty", "iterm2"):
        for s in SETTINGS[root]:
            for lv in ("cs", "is"):
                for part, vals in enumerate((FALSY + TRUTHY_ODD, STRINGS + INTS)):
                    ops = []
                    for j, v in enumerate(vals):
                        inst_level_ok = s in ("rm", "jq", "rff")
                        if lv == "is" and inst_level_ok:
                            ops.append({"s": s, "op": "is", "t": 0, "val": GOOD[s], "pres": j})
                        else:
                            ops.append({"s": s, "op": "cs", "t": 1, "val": GOOD[s], "pres": j})
                        ops.append({"s": s, "op": lv, "t": 1 if lv == "cs" else 0, "val": v, "pres": j})
                    ops.append({"s": s, "op": "cu" if lv == "cs" else "iu", "t": 1 if lv == "cs" else 0, "pres": part})
                    out.append({"root": root, "par": [0, 0, 1], "icls": [2, 1], "src": ["p", "p"], "ops": ops})
    return out


SRC_KINDS = ["p", "g", "n", "q", "s"]  # static PIL, animated GIF file, animated PNG file, PIL image
#                                          opened from the GIF file, static PNG file
_SRC = {}
_PROBE = {}


def src_info():
    """{kind: {"animated": 0/1, "size": bytes}} of the driver's on-disk sources (deterministic)."""
    if not _SRC:
        probe = core.run_impl("impl_c20.py", [{"probe": 1}])[0]
        _SRC.update(probe["src"])
        _PROBE.update(probe)
    return _SRC


def nam_values():
    v = list(VALUES["nam"])
    for kd in ("g", "n"):
        sz = src_info()[kd]["size"]
        v += [sz - 1, sz, sz + 1]
    return v


def gen_render(rng, root, kinds, ni):
    t = rng.randrange(ni)
    nm = 2 if root == "kitty" else 3
    m = rng.choice([None, None, None] + list(range(nm)) + [nm - 1])
    animated = kinds[t] in ("g", "n", "q")
    return {"s": "rd", "op": "r", "t": t, "m": m, "f": int(animated and rng.random() < 0.2),
            "pres": rng.randrange(4)}


def gen_case(rng, size):
    root = rng.choice(["kitty", "iterm2", "iterm2"])
    nc = rng.randint(1, 6)
    shape = rng.random()
    par = [0]
    for c in range(1, nc):
        if shape < 0.3:
            par.append(c - 1)  # chain
        elif shape < 0.45:
            par.append(0)  # star
        else:
            par.append(rng.randrange(c))
    ni = rng.randint(0, 3)
    icls = [rng.randrange(nc) for _ in range(ni)]
    kinds = [rng.choice(["p", "g", "g", "g", "n", "n", "q", "s"]) for _ in range(ni)]
    settings = SETTINGS[root] + (["rd"] if ni else [])
    focus = rng.choice(settings + (["rd", "rd"] if ni else [])) if rng.random() < 0.6 else None
    namv = nam_values()
    ops = []
    for _ in range(rng.randint(1, size)):
        if focus == "rd":
            # renders interleaved with what the method used may (render method at every level)
            # and may NOT (the limit) depend on
            s = rng.choice(["rd", "rd", "rm", "rm", "nam" if root == "iterm2" else "rm"])
        else:
            s = focus if focus and rng.random() < 0.8 else rng.choice(settings)
        if s == "rd":
            ops.append(gen_render(rng, root, kinds, ni))
            continue
        kind = rng.choices(["cs", "cu", "is", "iu"], [5, 3, 2 if ni else 0, 1.5 if ni else 0])[0]
        t = rng.randrange(nc) if kind in ("cs", "cu") else rng.randrange(ni)
        o = {"s": s, "op": kind, "t": t, "pres": rng.randrange(6)}
        if kind in ("cs", "is"):
            o["v"] = rng.choice(namv if s == "nam" else VALUES[s])
            if focus == "rd" and s == "rm" and rng.random() < 0.5:
                o["v"] = 1 if root == "kitty" else rng.choice([1, 2, 2])
            elif rng.random() < 0.3:
                # any value of the universe: falsy ones, odd truthy ones, strings, integers
                o["val"] = rng.choice(rng.choice([FALSY, FALSY, TRUTHY_ODD, STRINGS, INTS]))
        ops.append(o)
    case = {"root": root, "par": par, "icls": icls, "src": kinds, "ops": ops}
    if nc > 1 and rng.random() < 0.35:
        # some subclasses get a metaclass DERIVED from their parent's (the model is unaffected)
        case["meta"] = sorted(rng.sample(range(1, nc), rng.randint(1, nc - 1)))
    return case


# ---------------------------------------------------------------- the ROUTE of a render request

ROUTES = ["fmt", "still", "anim", "iter"]  # format() / draw(animate=False) / draw(animate=True) / ImageIterator
ANIMATED = ("g", "n", "q")


def gen_others(rng, root):
    """Other style arguments of the call (they must never matter for the method used)."""
    others = {}
    if root == "kitty" and rng.random() < 0.3:
        others["z"] = rng.choice([-3, 0, 5, 2**31 - 1])
    if rng.random() < 0.3:
        others["mix"] = rng.randrange(2)
    if rng.random() < 0.3:
        others["c"] = rng.choice([0, 4, 9])
    return others


def gen_request(rng, root, kinds, ni):
    t = rng.randrange(ni)
    nm = 2 if root == "kitty" else 3
    m = rng.choice([None, None] + list(range(nm)) + list(range(nm)))
    route = rng.choice(["anim", "anim", "anim", "still", "iter", "fmt"])
    if route == "iter" and kinds[t] not in ANIMATED:
        route = "anim"  # (an ImageIterator needs an animated source; draw(animate=True) is then one frame)
    return {"s": "rd", "op": "r", "t": t, "m": m, "route": route, "others": gen_others(rng, root),
            "pres": rng.randrange(4)}


def gen_route_case(rng, size):
    """Histories of render-method settings at every level interleaved with render REQUESTS by
    every route, for both styles, on animated and static sources."""
    root = rng.choice(["kitty", "iterm2"])
    nm = 2 if root == "kitty" else 3
    nc = rng.randint(1, 4)
    par = [0] + [rng.randrange(c) for c in range(1, nc)]
    ni = rng.randint(1, 3)
    icls = [rng.randrange(nc) for _ in range(ni)]
    kinds = [rng.choice(["g", "g", "n", "n", "q", "q", "p", "s"]) for _ in range(ni)]
    if not any(k in ANIMATED for k in kinds):
        kinds[0] = rng.choice(ANIMATED)
    ops = []
    for _ in range(rng.randint(2, size)):
        x = rng.random()
        if x < 0.5:
            ops.append(gen_request(rng, root, kinds, ni))
        elif x < 0.55:
            ops.append(gen_render(rng, root, kinds, ni))
        elif x < 0.62 and root == "iterm2":
            ops.append({"s": "nam", "op": rng.choice(["cs", "cs", "cu"]), "t": rng.randrange(nc),
                        "v": rng.choice(nam_values()), "pres": 0})
        else:
            kind = rng.choices(["cs", "cu", "is", "iu"], [4, 2, 3, 1.5])[0]
            o = {"s": "rm", "op": kind, "t": rng.randrange(nc) if kind in ("cs", "cu") else rng.randrange(ni),
                 "pres": rng.randrange(6)}
            if kind in ("cs", "is"):
                o["v"] = rng.randrange(nm) if rng.random() < 0.9 else rng.choice(VALUES["rm"])
            ops.append(o)
    return {"root": root, "par": par, "icls": icls, "src": kinds, "ops": ops}


def route_corpus():
    """Both styles x every animated source kind: with the render method set at each level
    (ancestor class, own class, instance, nowhere), EVERY override value (none and each method)
    through EVERY route; plus other style arguments and a static source."""
    out = []

    def rq(t, route, m=None, others=None, pres=0):
        return {"s": "rd", "op": "r", "t": t, "m": m, "route": route, "others": others or {}, "pres": pres}

    def rm(op, t, v=None, pres=0):
        o = {"s": "rm", "op": op, "t": t, "pres": pres}
        if v is not None:
            o["v"] = v
        return o

    for root, nm in (("kitty", 2), ("iterm2", 3)):
        for kd in ANIMATED:
            ops = []
            top = nm - 1
            for setup in ([], [rm("cs", 0, 1)], [rm("cs", 1, 0), rm("cs", 0, top)], [rm("is", 0, top, 1)],
                          [rm("iu", 0), rm("cu", 1, pres=1)]):
                ops += setup
                for m in [None] + list(range(nm)):
                    ops += [rq(0, "anim", m, pres=len(ops)), rq(0, "iter", m), rq(0, "still", m, pres=1), rq(0, "fmt", m)]
            extra = {"c": 0, "mix": 1}
            if root == "kitty":
                extra["z"] = 5
            ops += [rq(0, "anim", 0, extra), rq(0, "anim", 1, {"mix": 0}, 1), rq(1, "anim", 1), rq(1, "still", 0, extra),
                    rq(0, "iter", 1, extra), rq(0, "anim", None, extra)]
            out.append({"root": root, "par": [0, 0, 1], "icls": [2, 1], "src": [kd, "s"], "ops": ops})
    return out


def others_term(d):
    names = {"z": "KZIndex", "mix": "KMix", "c": "KCompress"}
    return core.coq_list(sorted(d.items()), lambda kv: f"({names[kv[0]]}, {core.z(kv[1])})")


def qop_term(o, n):
    """One operation of a history with requests, as a list of SettingsRoute.qop."""
    if "route" not in o:
        return f"map QOp ({rop_term(o, n)})"
    m = "None" if o.get("m") is None else f"(Some {core.z(o['m'])})"
    q = {"fmt": "QFormat", "still": "(QDraw false)", "anim": "(QDraw true)", "iter": "QIterate"}[o["route"]]
    return f"[QReq {q} {o['t']} {m} {others_term(o.get('others', {}))}]"


# ---------------------------------------------------------------- the GEOMETRY of a render request

GEO_KINDS = ["p", "s", "b", "g", "n", "q"]  # "b": a static file LARGER than the small renders


def gen_geo(rng):
    """[columns, lines] of an instance's render: the boundary (exactly one line, exactly one
    column) most of the time."""
    return [rng.choice([1, 1, 2, 3, 8]), rng.choice([1, 1, 1, 2, 2, 3])]


def gen_geom_case(rng, size):
    """Histories of render-method settings at every level interleaved with renders of instances
    whose render is 1 / 2 / 3 lines high and 1 / 2 / 3 / 8 columns wide, for both styles, on
    sources smaller and larger (in pixels) than the render, read_from_file on (default) and off;
    what every render TRANSMITS is judged."""
    root = rng.choice(["kitty", "iterm2", "iterm2"])
    nm = 2 if root == "kitty" else 3
    nc = rng.randint(1, 3)
    par = [0] + [rng.randrange(c) for c in range(1, nc)]
    ni = rng.randint(1, 3)
    icls = [rng.randrange(nc) for _ in range(ni)]
    kinds = [rng.choice(GEO_KINDS) for _ in range(ni)]
    geo = [gen_geo(rng) for _ in range(ni)]
    if not any(g[1] == 1 for g in geo):
        geo[0][1] = 1
    ops = []
    for _ in range(rng.randint(2, size)):
        x = rng.random()
        if x < 0.55:
            ops.append(gen_render(rng, root, kinds, ni))
        elif x < 0.6 and root == "iterm2":
            ops.append({"s": "nam", "op": rng.choice(["cs", "cs", "cu"]), "t": rng.randrange(nc),
                        "v": rng.choice(nam_values()), "pres": 0})
        else:
            kind = rng.choices(["cs", "cu", "is", "iu"], [4, 2, 3, 1.5])[0]
            o = {"s": "rm", "op": kind, "t": rng.randrange(nc) if kind in ("cs", "cu") else rng.randrange(ni),
                 "pres": rng.randrange(6)}
            if kind in ("cs", "is"):
                o["v"] = rng.randrange(nm) if rng.random() < 0.9 else rng.choice(VALUES["rm"])
            ops.append(o)
    return {"root": root, "par": par, "icls": icls, "src": kinds, "geo": geo,
            "rff": rng.choice([None, None, 0, 1]) if root == "iterm2" else None, "ops": ops}


def geom_corpus():
    """Both styles x read_from_file default / off: instances of every static source kind and an
    animated one with renders one line / one column / two lines high, the render method set
    nowhere / on the class (WHOLE) / on the instance (LINES), EVERY per-call value."""
    out = []

    def rd(t, m=None, f=0, pres=0):
        return {"s": "rd", "op": "r", "t": t, "m": m, "f": f, "pres": pres}

    for root, nm in (("kitty", 2), ("iterm2", 3)):
        for rff in ((None, 0) if root == "iterm2" else (None,)):
            for geos in ([[8, 1], [3, 1], [2, 1], [1, 1]], [[1, 2], [1, 1], [3, 2], [2, 1]]):
                ops = []
                for setup in ([], [{"s": "rm", "op": "cs", "t": 0, "v": 1, "pres": 0}],
                              [{"s": "rm", "op": "is", "t": t, "v": 0, "pres": t} for t in range(4)]):
                    ops += setup
                    for t in range(4):
                        ops += [rd(t, m, pres=t + (m or 0)) for m in [None] + list(range(nm))]
                    ops.append(rd(3, 0, 1))
                    ops.append(rd(3, nm - 1, 1))
                out.append({"root": root, "par": [0, 0], "icls": [1, 0, 1, 1], "src": ["p", "s", "b", "g"],
                            "geo": geos, "rff": rff, "ops": ops})
    return out


def geom_term(row):
    cols, lines, cw, ch, ow, oh = row[:6]
    return (f"{{| height_lines := {lines}; width_cols := {core.z(cols)}; cell_w := {core.z(cw)}; "
            f"cell_h := {core.z(ch)}; ori_w := {core.z(ow)}; ori_h := {core.z(oh)} |}}")


def geop_term(o, n, ginfo):
    """One operation of a history whose renders carry their geometry, as a list of SettingsGeom.geop."""
    if o["s"] == "rm":
        return f"map GMeth (doc_op (SRm {n}) ({vop_term(o)}))"
    if o["s"] == "nam":
        return f"map GLim (doc_gop ({vop_term(o)}))"
    m = "None" if o.get("m") is None else f"(Some {core.z(o['m'])})"
    return f"[GRender {o['t']} {m} {'true' if o.get('f') else 'false'} {geom_term(ginfo[o['t']])}]"


def lines_whole_differ(root, row, animated, rff):
    """Do the documented payloads of LINES and WHOLE differ for this geometry (the Python twin of
    SettingsGeom.doc_payload, used for the histogram / the non-triviality count only)?"""
    cols, lines, cw, ch, ow, oh, readable = row
    fits = ow * oh <= cols * cw * lines * ch
    verb = bool(root == "iterm2" and rff and not animated and readable and fits)
    whole = [((ow, oh) if fits else (cols * cw, lines * ch)) + (verb,)]
    return [(cols * cw, ch, False)] * lines != whole


# ---------------------------------------------------------------- class hierarchies (multiple inheritance)

# the library's own classes, always the first five of a hierarchy
LIB = [("base", []), ("gfx", [0]), ("text", [0]), ("block", [2]), ("root", [1])]
BASE, GFX, TEXT, BLOCK, ROOT = range(5)
LIB_NAMES = {"base": "BaseImage", "gfx": "GraphicsImage", "text": "TextImage", "block": "BlockImage"}


def mirror_mros(hier):
    """Python's own linearisation, on mirror classes built with plain type(): per class the MRO as
    class numbers ([] = Python refuses to create the class)."""
    cl, out = [], []
    for i, e in enumerate(hier):
        try:
            if any(cl[b] is None for b in e["b"]):
                raise TypeError("base not created")
            c = type(f"K{i}", tuple(cl[b] for b in e["b"]), {})
        except TypeError:
            cl.append(None)
            out.append([])
            continue
        cl.append(c)
        ix = {id(x): j for j, x in enumerate(cl) if x is not None}
        out.append([ix[id(x)] for x in c.__mro__ if id(x) in ix])
    return out


def hier_facts(hier):
    """(mros, style classes = the root is in their MRO, classes instances can be made of)."""
    mros = mirror_mros(hier)
    style = [c for c, m in enumerate(mros) if ROOT in m]
    # TextImage re-declares _render_image abstract: a class in whose MRO it precedes the style class
    # cannot be instantiated
    inst_ok = [c for c in style if TEXT not in mros[c] or mros[c].index(ROOT) < mros[c].index(TEXT)]
    return mros, style, inst_ok


def style_depth(hier, mros, c):
    if c == ROOT:
        return 0
    return 1 + max([style_depth(hier, mros, b) for b in hier[c]["b"] if ROOT in mros[b]] or [0])


def gen_hier(rng):
    hier = [{"k": k, "b": list(b)} for k, b in LIB]
    for _ in range(rng.randint(1, 6)):
        for attempt in range(8):
            mros, style, _ = hier_facts(hier)
            mixins = [c for c, e in enumerate(hier) if e["k"] == "img" and mros[c] and ROOT not in mros[c]]
            objs = [c for c, e in enumerate(hier) if e["k"] == "obj"]
            r = rng.random()
            if r < 0.12:
                e = {"k": "obj", "b": [rng.choice(objs)] if objs and rng.random() < 0.3 else []}
            elif r < 0.32:
                # an image mix-in: derived from a library base class or another mix-in, not a style class
                b = [rng.choice([BASE, GFX, GFX, TEXT] + mixins)]
                if objs and rng.random() < 0.25:
                    b.insert(rng.randrange(2), rng.choice(objs))
                e = {"k": "img", "b": b}
            else:
                # a style class: one style base (two: a diamond) with mix-ins listed before or after
                deep = [c for c in style if style_depth(hier, mros, c) < 4]
                b = [rng.choice(deep)]
                if len(deep) > 1 and rng.random() < 0.3:
                    b.append(rng.choice([c for c in deep if c != b[0]]))
                for _ in range(rng.choice([0, 0, 1, 1, 1, 2])):
                    pool = mixins + objs
                    if not pool or rng.random() < 0.1:
                        pool = pool + [BASE, GFX, TEXT]  # a library base class listed beside the style base
                    m = rng.choice(pool)
                    if m not in b:
                        b.insert(0 if rng.random() < 0.6 else rng.randrange(len(b) + 1), m)
                e = {"k": "img", "b": b}
            created = bool(mirror_mros(hier + [e])[-1])
            # Python refuses an inconsistent order: kept now and then (nothing can derive from the
            # class, target it or instantiate it; the model must refuse it too)
            if created or rng.random() < 0.15:
                hier.append(e)
                break
    return hier


def gen_mi_case(rng, size):
    root = rng.choice(["kitty", "iterm2", "iterm2"])
    hier = gen_hier(rng)
    mros, style, inst_ok = hier_facts(hier)
    image = [c for c, e in enumerate(hier) if e["k"] != "obj" and mros[c]]
    plain = [c for c in image if c not in style]
    icls = [rng.choice(inst_ok) for _ in range(rng.randint(0, 3))]
    ni = len(icls)
    settings = SETTINGS[root]
    focus = rng.choice(["rm", "rm", "fs", "fs"] + settings) if rng.random() < 0.7 else None
    namv = VALUES["nam"]
    ops = []
    for _ in range(rng.randint(1, size)):
        s = focus if focus and rng.random() < 0.8 else rng.choice(settings)
        kind = rng.choices(["cs", "cu", "is", "iu"], [5, 3, 2 if ni else 0, 1.5 if ni else 0])[0]
        if kind in ("is", "iu"):
            t = rng.randrange(ni)
        elif s == "fs":
            # the library's own base classes are targets like any other class
            t = rng.choice(image if rng.random() < 0.6 else [BASE, GFX, TEXT, BLOCK, ROOT])
        elif s == "rm" and rng.random() < 0.12:
            t = rng.choice(plain)  # a class without render methods: every name unknown, None allowed
        else:
            t = rng.choice(style)
        o = {"s": s, "op": kind, "t": t, "pres": rng.randrange(6)}
        if kind in ("cs", "is"):
            o["v"] = rng.choice(namv if s == "nam" else VALUES[s])
            if rng.random() < 0.2:
                o["val"] = rng.choice(rng.choice([FALSY, FALSY, TRUTHY_ODD, STRINGS, INTS]))
        ops.append(o)
    case = {"root": root, "hier": hier, "icls": icls, "src": ["p"] * ni, "inst_ok": inst_ok, "ops": ops}
    # a metaclass DERIVED from the one Python would pick, for classes nothing derives from (two
    # unrelated derived metaclasses below one class would be a metaclass conflict)
    used = {b for e in hier for b in e["b"]}
    cands = [c for c, e in enumerate(hier) if e["k"] == "img" and c > ROOT and mros[c] and c not in used]
    if cands and rng.random() < 0.3:
        case["meta"] = sorted(rng.sample(cands, rng.randint(1, len(cands))))
    return case


def mi_corpus():
    """Boundary hierarchies: a mix-in-first / mix-in-last / object-mix-in-first style class, a diamond,
    a refused order; the class-wide render method set / unset at every class, forced support set on
    every library base class in turn."""
    out = []
    lib = [{"k": k, "b": list(b)} for k, b in LIB]
    #        5 Tagged(Gfx)   6 TK(Tagged, Root)   7 KT(Root, Tagged)   8 O   9 OK(O, Root)  10 A(Root)
    #        11 B(Root)  12 D(A, B)   13 DT(Tagged, D)  14 refused (Root, A)
    user = [[GFX], [5, ROOT], [ROOT, 5], None, [8, ROOT], [ROOT], [ROOT], [10, 11], [5, 12], [ROOT, 10]]
    hier = lib + [{"k": "obj", "b": []} if b is None else {"k": "img", "b": b} for b in user]
    _, style, inst_ok = hier_facts(hier)

    def rm(op, t, v=None, pres=0):
        o = {"s": "rm", "op": op, "t": t, "pres": pres}
        if v is not None:
            o["v"] = v
        return o

    def fs(t, v):
        return {"s": "fs", "op": "cs", "t": t, "val": v_bool(v), "pres": 0}

    for root in ("kitty", "iterm2"):
        ops = [rm("cs", ROOT, 1)]
        for c in style[1:]:
            ops += [rm("cs", c, 0, c), rm("cu", c, pres=c)]  # set, unset: follows the rest of its MRO again
        ops += [rm("cu", c, pres=c + 1) for c in style[1:]]  # unset without a value of its own
        ops += [rm("cs", 10, 0), rm("cs", 11, 1, 1), rm("cu", 10), rm("cu", ROOT), rm("cs", 5, 0), rm("cu", 5),
                rm("cu", GFX, pres=1), rm("cs", BASE, 1), rm("cs", ROOT, 1, 2), rm("cu", 11, pres=1)]
        ops += [fs(BASE, True), fs(GFX, False), fs(ROOT, True), fs(5, True), fs(6, False), fs(BASE, False),
                fs(TEXT, True), fs(BLOCK, False), fs(GFX, True), fs(10, False), fs(12, True), fs(GFX, False),
                fs(TEXT, False), {"s": "fs", "op": "is", "t": 0, "val": v_bool(True), "pres": 0},
                {"s": "fs", "op": "cs", "t": BASE, "val": v_int(1), "pres": 0}]
        if root == "iterm2":
            ops += [{"s": "jq", "op": "cs", "t": ROOT, "v": 50, "pres": 0}, {"s": "jq", "op": "cs", "t": 6, "v": 95, "pres": 0},
                    {"s": "jq", "op": "cu", "t": 6, "pres": 0}, {"s": "rff", "op": "cs", "t": 12, "v": 0, "pres": 0},
                    {"s": "rff", "op": "cs", "t": 11, "v": 0, "pres": 0}, {"s": "rff", "op": "cu", "t": 12, "pres": 0},
                    {"s": "nam", "op": "cs", "t": 9, "v": 4096, "pres": 0}, {"s": "nam", "op": "cu", "t": 13, "pres": 0}]
        out.append({"root": root, "hier": hier, "icls": [6, 9, 12, 7], "src": ["p"] * 4, "inst_ok": inst_ok,
                    "ops": ops, "meta": [7, 12] if root == "iterm2" else []})
    return out


def cls_name(case, c):
    e = case["hier"][c]
    if e["k"] in LIB_NAMES:
        return LIB_NAMES[e["k"]]
    if e["k"] == "root":
        return {"kitty": "KittyImage", "iterm2": "ITerm2Image"}[case["root"]]
    return ("O%d" if e["k"] == "obj" else "C%d") % c


def hier_term(c, r):
    return (f"mc_bases := {core.coq_list(c['hier'], lambda e: core.coq_list(e['b']))}; "
            f"mc_img := {core.coq_list(c['hier'], lambda e: 'false' if e['k'] == 'obj' else 'true')}; "
            f"mc_root := {ROOT}; mc_icls := {core.coq_list(c['icls'])}; "
            f"mc_pymro := {core.coq_list(r['mros'], core.coq_list)}")


def render_corpus():
    """Boundary cases: ANIM effective at each level (instance, class, ancestor class) and as the
    per-call override, on animated file sources, with the global limit below / at / above the
    data size (and rejected / default values); kitty LINES / WHOLE at each level."""
    out = []

    def rd(t, m=None, f=0, pres=0):
        return {"s": "rd", "op": "r", "t": t, "m": m, "f": f, "pres": pres}

    def nam(t, v, op="cs"):
        return {"s": "nam", "op": op, "t": t, "v": v, "pres": 0}

    def rm(op, t, v=None, pres=0):
        o = {"s": "rm", "op": op, "t": t, "pres": pres}
        if v is not None:
            o["v"] = v
        return o

    for kd in ("g", "n", "q"):
        sz = src_info()[kd]["size"]
        levels = [
            ("ancestor", [rm("cs", 0, 2)], [rm("cu", 0)]),
            ("class", [rm("cs", 0, 1), rm("cs", 1, 2, 1)], [rm("cu", 1, pres=1)]),
            ("instance", [rm("cs", 2, 1), rm("is", 0, 2, 2)], [rm("iu", 0)]),
            ("override", [rm("cs", 2, 0)], []),
        ]
        for name, setup, undo in levels:
            m = 2 if name == "override" else None
            ops = list(setup)
            for lim in (0, sz + 1, sz, sz - 1, 1):
                ops += [nam(lim % 3, lim), rd(0, m, 0, lim % 4), rd(1, m), rd(0, m, 1)]
            ops += [nam(1, 0, "cu"), rd(0, m), rd(0, 0), rd(0, 1, pres=1)]
            ops += undo + [rd(0), rd(1, pres=1)]
            out.append({"root": "iterm2", "par": [0, 0, 1], "icls": [2, 1], "src": [kd, "s"], "ops": ops,
                        "meta": [2] if kd == "n" else []})
    kops = []
    for setup in ([rm("cs", 0, 1)], [rm("cs", 1, 0), rm("cs", 2, 1)], [rm("is", 0, 0)], [rm("iu", 0), rm("cu", 2)],
                  [rm("cu", 0)]):
        kops += setup + [rd(0), rd(1, pres=1), rd(0, 0), rd(0, 1, pres=1), rd(0, None, 1), rd(2)]
    out.append({"root": "kitty", "par": [0, 0, 1], "icls": [2, 0, 1], "src": ["g", "p", "n"], "ops": kops})
    return out


CORPUS = [
    # a style subclass with a derived metaclass: the native-animation limit stays ONE global value
    {"root": "iterm2", "par": [0, 0, 1], "icls": [1], "meta": [1, 2],
     "ops": [{"s": "nam", "op": "cs", "t": 1, "v": 4096, "pres": 0}, {"s": "nam", "op": "cs", "t": 0, "v": 5, "pres": 0},
             {"s": "nam", "op": "cu", "t": 2, "pres": 0}, {"s": "jq", "op": "cs", "t": 1, "v": 95, "pres": 0},
             {"s": "rff", "op": "cs", "t": 2, "v": 0, "pres": 0}, {"s": "rm", "op": "cs", "t": 1, "v": 2, "pres": 0}]},
    # F1 shape: parent set, subclass set, subclass unset -> must follow the parent
    {"root": "kitty", "par": [0, 0], "icls": [1],
     "ops": [{"s": "rm", "op": "cs", "t": 0, "v": 1, "pres": 0}, {"s": "rm", "op": "cs", "t": 1, "v": 0, "pres": 0},
             {"s": "rm", "op": "cu", "t": 1, "pres": 0}]},
    {"root": "iterm2", "par": [0, 0, 1], "icls": [2, 0],
     "ops": [{"s": "rm", "op": "cs", "t": 1, "v": 2, "pres": 1}, {"s": "rm", "op": "cs", "t": 2, "v": 1, "pres": 0},
             {"s": "rm", "op": "cu", "t": 2, "pres": 1}, {"s": "rm", "op": "cu", "t": 0, "pres": 0},
             {"s": "jq", "op": "cs", "t": 1, "v": 95, "pres": 0}, {"s": "jq", "op": "is", "t": 0, "v": 96, "pres": 0},
             {"s": "jq", "op": "cu", "t": 2, "pres": 0}, {"s": "nam", "op": "cs", "t": 2, "v": 5, "pres": 0},
             {"s": "nam", "op": "is", "t": 0, "v": 7, "pres": 0}, {"s": "nam", "op": "cu", "t": 0, "pres": 0},
             {"s": "fs", "op": "cs", "t": 1, "v": 1, "pres": 0}, {"s": "fs", "op": "is", "t": 0, "v": 1, "pres": 0},
             {"s": "rff", "op": "cs", "t": 0, "v": 0, "pres": 0}, {"s": "rff", "op": "cu", "t": 0, "pres": 0}]},
    {"root": "kitty", "par": [0], "icls": [0],
     "ops": [{"s": "rm", "op": "cs", "t": 0, "v": 1, "pres": 1}, {"s": "rm", "op": "cu", "t": 0, "pres": 0},
             {"s": "rm", "op": "is", "t": 0, "v": 2, "pres": 0}, {"s": "rm", "op": "is", "t": 0, "v": 1, "pres": 2},
             {"s": "rm", "op": "iu", "t": 0, "pres": 1}]},
]


def vop_term(o):
    """One set / unset operation as a SettingsVal.vop."""
    lv = "LCls" if o["op"] in ("cs", "cu") else "LInst"
    t = o["t"]
    if o["op"] in ("cs", "is"):
        return f"VSet {lv} {t} {val_term(o['val'])}"
    if o["s"] == "rm" and o.get("pres", 0) % 2 == 0:
        return f"VSet {lv} {t} VNone"  # set_render_method(None); the other spelling: no argument
    return f"VDel {lv} {t}"


def rop_term(o, n):
    """The documented reading of one operation of a history with renders, as a list of rops."""
    if o["s"] == "rm":
        return f"map RMeth (doc_op (SRm {n}) ({vop_term(o)}))"
    if o["s"] == "nam":
        return f"map RLim (doc_gop ({vop_term(o)}))"
    m = "None" if o.get("m") is None else f"(Some {core.z(o['m'])})"
    return f"[RRender {o['t']} {m} {'true' if o.get('f') else 'false'}]"


def zll(rows):
    return core.coq_list(rows, lambda r: core.coq_list(r, core.z))


def evaluate(cases, tag="c20", only=None):
    """Run cases on impl and in Coq. Returns (per_case_status, errors, impl_results).
    per_case_status[i] = list of (setting, code) with non-zero code, + harness-level flags.
    [only]: restrict the Coq-side judgement to these labels (used while shrinking)."""
    cases = [normalise(c) for c in cases]
    # spread neighbouring cases (the corpus comes first and is heavier) over the parallel drivers
    P = max(1, min(core.NCPU, len(cases)))
    order = sorted(range(len(cases)), key=lambda i: (i % P, i))
    shuffled = core.run_impl_parallel("impl_c20.py", [cases[i] for i in order])
    impl = [None] * len(cases)
    for i, r in zip(order, shuffled):
        impl[i] = r
    terms, owner = [], []
    rterms, rowner = [], []
    mterms, mowner = [], []
    qterms, qowner = [], []
    gterms, gowner = [], []
    geo_errors = []
    for i, (c, r) in enumerate(zip(cases, impl)):
        if c.get("geo"):
            if only is None or "render-method-used" in only:
                rops = [o for o in c["ops"] if o["s"] in ("rm", "nam", "rd")]
                nm = 2 if c["root"] == "kitty" else 3
                rff = 1 if c.get("rff") is None else c["rff"]
                if [x[:2] for x in r["ginfo"]] != c["geo"] or (r["rff"] is not None and set(r["rff"]) != {rff}):
                    geo_errors.append(f"case {i}: the instances do not have the requested geometry / read_from_file: "
                                      f"{r['ginfo']} {r['rff']} vs {c['geo']} {rff}")
                gterms.append(
                    f"{{| gc_style := {'SKitty' if c['root'] == 'kitty' else 'SITerm2'}; "
                    f"gc_par := {core.coq_list(c['par'])}; gc_icls := {core.coq_list(c['icls'])}; "
                    f"gc_anim := {core.coq_list(r['srcs'], lambda x: 'true' if x[0] else 'false')}; "
                    f"gc_size := {core.coq_list(r['srcs'], lambda x: core.z(x[1]))}; "
                    f"gc_rff := {'true' if rff else 'false'}; "
                    f"gc_readable := {core.coq_list(r['ginfo'], lambda x: 'true' if x[6] else 'false')}; "
                    f"gc_ops := concat {core.coq_list(rops, lambda o: geop_term(o, nm, r['ginfo']))}; "
                    f"gc_obs := {zll(r['renders'])} |}}")
                gowner.append(i)
        elif any("route" in o for o in c["ops"]):
            if only is None or "render-method-used" in only:
                rops = [o for o in c["ops"] if o["s"] in ("rm", "nam", "rd")]
                nm = 2 if c["root"] == "kitty" else 3
                qterms.append(
                    f"{{| q_style := {'SKitty' if c['root'] == 'kitty' else 'SITerm2'}; q_newer := true; "
                    f"q_par := {core.coq_list(c['par'])}; q_icls := {core.coq_list(c['icls'])}; "
                    f"q_anim := {core.coq_list(r['srcs'], lambda x: 'true' if x[0] else 'false')}; "
                    f"q_size := {core.coq_list(r['srcs'], lambda x: core.z(x[1]))}; "
                    f"q_frames := {core.coq_list(r['srcs'], lambda x: str(x[2]))}; "
                    f"q_ops := concat {core.coq_list(rops, lambda o: qop_term(o, nm))}; "
                    f"q_obs := {zll([x[:2] for x in r['renders']])} |}}")
                qowner.append(i)
        elif any(o["s"] == "rd" for o in c["ops"]) and (only is None or "render-method-used" in only):
            rops = [o for o in c["ops"] if o["s"] in ("rm", "nam", "rd")]
            nm = 2 if c["root"] == "kitty" else 3
            rterms.append(
                f"{{| r_n := {nm}%Z; r_par := {core.coq_list(c['par'])}; "
                f"r_icls := {core.coq_list(c['icls'])}; "
                f"r_anim := {core.coq_list(r['srcs'], lambda x: 'true' if x[0] else 'false')}; "
                f"r_size := {core.coq_list(r['srcs'], lambda x: core.z(x[1]))}; "
                f"r_ops := concat {core.coq_list(rops, lambda o: rop_term(o, nm))}; r_obs := {zll([x[:2] for x in r['renders']])} |}}")
            rowner.append(i)
        for s in SETTINGS[c["root"]]:
            ops = [o for o in c["ops"] if o["s"] == s]
            if not ops or (only is not None and s not in only):
                continue
            obs = r["obs"][s]
            if "hier" in c:
                mterms.append(
                    f"{{| mc_set := {KINDS[s](c['root'])}; {hier_term(c, r)}; "
                    f"mc_ops := {core.coq_list(ops, vop_term)}; mc_obs := {zll(obs)} |}}")
                mowner.append((i, s))
                continue
            terms.append(
                f"{{| v_set := {KINDS[s](c['root'])}; v_par := {core.coq_list(c['par'])}; "
                f"v_icls := {core.coq_list(c['icls'])}; v_ops := {core.coq_list(ops, vop_term)}; "
                f"v_obs := {zll(obs)} |}}")
            owner.append((i, s))
    header = ("From Coq Require Import List ZArith.\nImport ListNotations.\n"
              "From TI Require Import model.Settings model.SettingsTie model.SettingsVal model.SettingsValTie.\n"
              "Open Scope nat_scope.\n")
    status = [[] for _ in cases]
    errors = []
    rheader = header.replace("model.SettingsValTie.", "model.SettingsValTie model.SettingsRender model.SettingsRenderTie.")
    mheader = header.replace("model.SettingsValTie.", "model.SettingsValTie model.SettingsMro model.SettingsMroTie.")
    qheader = header.replace("model.SettingsValTie.", "model.SettingsValTie model.SettingsRender model.SettingsRenderTie "
                                                      "model.SettingsRoute model.SettingsRouteTie.")
    gheader = header.replace("model.SettingsValTie.", "model.SettingsValTie model.SettingsRender model.SettingsRenderTie "
                                                      "model.SettingsRoute model.SettingsGeom model.SettingsGeomTie.")
    jobs = [(tag, header, terms, "vcase", "vbad cases"), (tag + "r", rheader, rterms, "rcase", "rbad cases"),
            (tag + "m", mheader, mterms, "mcase", "mbad cases"), (tag + "q", qheader, qterms, "qcase", "qbad cases"),
            (tag + "g", gheader, gterms, "gcase", "gbad cases")]
    from concurrent.futures import ThreadPoolExecutor
    with ThreadPoolExecutor(max_workers=5) as ex:  # the five judgements side by side
        judged = list(ex.map(lambda j: core.coq_shards(*j) if j[2] else ([], []), jobs))
    errors += geo_errors
    for (bad, errs), own in zip(judged, (owner, rowner, mowner, qowner, gowner)):
        errors += errs
        for idx, code in bad:
            if own is rowner or own is qowner or own is gowner:
                status[own[idx]].append(("render-method-used", code))
            else:
                i, s = own[idx]
                status[i].append((s, code))
    for i, r in enumerate(impl):
        if not r.get("restored", 1) or not r.get("clean_start", 1):
            # the library's process-global classes were not put back: later cases of that driver
            # process cannot be trusted
            errors.append(f"case {i}: library classes not restored (restored={r.get('restored')}, "
                          f"clean_start={r.get('clean_start')})")
        if r["interference"]:
            status[i].append(("interference", 2))
        if r["framing_bad"]:
            status[i].append(("framing", 2))
        f = r["final"]
        if not all(x == 1 for x in f["fresh_ok"]):
            status[i].append(("fresh-instance-method", 2))
        if not all(x == 1 for x in f["override_ok"]):
            status[i].append(("per-call-override", 2))
        if not all(x == 1 for x in f["instantiation_ok"]):
            status[i].append(("forced-support-instantiation", 2))
    return status, errors, impl, cases


# ---------------------------------------------------------------- support detection inside the histories

IDENTS = {"kitty30": "IdKitty30", "kitty19": "IdKitty19", "konsole": "IdKonsole", "wezterm": "IdWezterm",
          "iterm2": "IdIterm2", "unknown": "IdUnknown"}
DKINDS = {"rm": lambda root: f"(k_render_method {2 if root == 'kitty' else 3})", "fs": lambda root: "k_forced_support",
          "jq": lambda root: "k_jpeg_quality", "rff": lambda root: "k_read_from_file"}
DSETTINGS = {"kitty": ["rm", "rm", "rm", "fs"], "iterm2": ["rm", "rm", "rm", "fs", "jq", "rff"]}


def gen_forest(rng, nmax):
    n = rng.randint(1, nmax)
    shape = rng.choice(["chain", "star", "tree"])
    return [0] + [{"chain": c - 1, "star": 0, "tree": rng.randrange(c)}[shape] for c in range(1, n)]


def gen_set_op(rng, s, nc, ni):
    kind = rng.choice(["cs", "cs", "cs", "cu", "cu", "is", "iu"] if ni else ["cs", "cs", "cu"])
    t = rng.randrange(nc if kind in ("cs", "cu") else ni)
    o = {"op": kind, "t": t, "pres": rng.randrange(6)}
    if kind in ("cs", "is"):
        o["v"] = rng.choice(VALUES[s])
    return o


def gen_detect_case(rng, size):
    root = rng.choice(["kitty", "kitty", "iterm2"])
    s = rng.choice(DSETTINGS[root])
    par = gen_forest(rng, 4)
    nc = len(par)
    icls = [rng.randrange(nc) for _ in range(rng.choice([0, 1, 1, 2]))]
    ops = []
    for _ in range(rng.randint(2, size)):
        r = rng.random()
        if r < 0.22:
            ops.append({"op": "det", "t": rng.randrange(nc), "fresh": rng.random() < 0.35})
        elif r < 0.4:
            ops.append({"op": "new", "t": rng.randrange(nc)})
        else:
            ops.append(gen_set_op(rng, s, nc, len(icls)))
    return {"det": 1, "root": root, "s": s, "ident": rng.choice(sorted(IDENTS)), "par": par, "icls": icls, "ops": ops}


def detect_corpus():
    """Every terminal identity x both styles: detection (on the class / on a subclass first / by the
    first instance creation) before, between and after class-wide set / unset operations."""
    out = []
    cs = lambda t, v: {"op": "cs", "t": t, "v": v, "pres": 0}
    cu = lambda t: {"op": "cu", "t": t, "pres": 0}
    det = lambda t, fresh=False: {"op": "det", "t": t, "fresh": fresh}
    new = lambda t: {"op": "new", "t": t}
    for root in ("kitty", "iterm2"):
        for ident in sorted(IDENTS):
            base = {"det": 1, "root": root, "ident": ident, "par": [0, 0, 1], "icls": [1, 0]}
            for s, hi in (("rm", 1), ("fs", 1)) + ((("jq", 50), ("rff", 0)) if root == "iterm2" and ident in ("konsole", "unknown") else ()):
                lo = {"rm": 0, "fs": 0, "jq": -1, "rff": 1}[s]
                hists = [
                    [det(0), cs(0, hi), cu(0), det(1), new(2)],                 # detection first, then set / unset
                    [cs(0, lo), new(0), cs(0, hi), new(1), cu(0), det(0, True)],  # explicit default value, then first creation
                    [det(2), cs(0, hi), cs(0, lo), det(1), cs(1, hi), det(0), cu(1), new(2)],  # a subclass is checked first
                    [cs(1, hi), new(2), cu(1), det(0), {"op": "is", "t": 0, "v": hi, "pres": 0}, det(1, True),
                     {"op": "iu", "t": 0, "pres": 1}, new(1)],
                ]
                out += [dict(base, s=s, ops=h) for h in hists]
    return out


def dop_term(o):
    if o["op"] == "det":
        return f"DDetect {'true' if o.get('fresh') else 'false'} {o['t']}"
    if o["op"] == "new":
        return f"DNew {o['t']}"
    if o["op"] == "cs":
        return f"DOp (ClsSet {o['t']} {core.z(o['v'])})"
    if o["op"] == "is":
        return f"DOp (InstSet {o['t']} {core.z(o['v'])})"
    return f"DOp ({'ClsUnset' if o['op'] == 'cu' else 'InstUnset'} {o['t']})"


def evaluate_detect(cases, tag="c20d"):
    """Detection cases on the implementation and in Coq: (status per case, errors, impl results)."""
    if not cases:
        return [], [], []
    impl = core.run_impl_parallel("impl_c20_detect.py", cases)
    status = [[] for _ in cases]
    errors, terms, owner = [], [], []
    for i, (c, r) in enumerate(zip(cases, impl)):
        if not r.get("restored", 0) or not r.get("clean_start", 0):
            errors.append(f"detection case {i}: library classes not restored (restored={r.get('restored')}, "
                          f"clean_start={r.get('clean_start')})")
        if "error" in r:
            errors.append(f"detection case {i}: driver failed: {r['error']} {r.get('tb', '')}")
            continue
        if r["confirm_bad"]:
            status[i].append(("framing", 2))
        if r["others"]:
            status[i].append(("other-settings-changed", 2))
        terms.append(
            f"{{| dc_kind := {DKINDS[c['s']](c['root'])}; dc_isfs := {'true' if c['s'] == 'fs' else 'false'}; "
            f"dc_g := {'GKitty' if c['root'] == 'kitty' else 'GIterm2'}; dc_t := {IDENTS[c['ident']]}; "
            f"dc_par := {core.coq_list(c['par'])}; dc_icls := {core.coq_list(c['icls'])}; "
            f"dc_ops := {core.coq_list(c['ops'], dop_term)}; dc_obs := {zll(r['rows'])} |}}")
        owner.append(i)
    header = ("From Coq Require Import List ZArith.\nImport ListNotations.\n"
              "From TI Require Import model.Settings model.SettingsTie model.SettingsDetect model.SettingsDetectTie.\n"
              "Open Scope nat_scope.\n")
    bad, errs = core.coq_shards(tag, header, terms, "dcase", "dbad cases") if terms else ([], [])
    errors += errs
    for idx, code in bad:
        status[owner[idx]].append((cases[owner[idx]]["s"], code))
    return status, errors, impl


def shrink_detect(case):
    """Drop operations (chunks, then single ones), then unused classes / instances, while the property
    oracle still fails on the implementation."""
    def failing(cands):
        st, errs, _ = evaluate_detect(cands, tag="c20ds")
        return None if errs else next((c for c, x in zip(cands, st) if fails_spec(x)), None)

    cur = case
    size = max(1, len(cur["ops"]) // 2)
    for _ in range(40):
        L = len(cur["ops"])
        cands = [dict(cur, ops=cur["ops"][:k] + cur["ops"][k + size:]) for k in range(0, L, size)
                 if L - len(cur["ops"][k:k + size]) >= 1]
        nxt = failing(cands) if cands else None
        if nxt is not None:
            cur = nxt
            size = max(1, min(size, len(cur["ops"]) // 2))
        elif size == 1:
            break
        else:
            size = max(1, size // 2)
    # without the instances / trailing classes the operations do not involve
    used_i = sorted({o["t"] for o in cur["ops"] if o["op"] in ("is", "iu")})
    imap = {i: j for j, i in enumerate(used_i)}
    keep = {0} | {o["t"] for o in cur["ops"] if o["op"] not in ("is", "iu")} | {cur["icls"][i] for i in used_i}
    for c in sorted(keep, reverse=True):
        while c:
            c = cur["par"][c]
            keep.add(c)
    cmap = {c: j for j, c in enumerate(sorted(keep))}
    small = dict(cur, par=[cmap[cur["par"][c]] for c in sorted(keep)], icls=[cmap[cur["icls"][i]] for i in used_i],
                 ops=[dict(o, t=(imap if o["op"] in ("is", "iu") else cmap)[o["t"]]) for o in cur["ops"]])
    if small != cur and failing([small]) is not None:
        cur = small
    return cur


def describe_detect(case):
    def one(o):
        if o["op"] == "det":
            return f"C{o['t']}.is_supported()" + ("<after dropping the recorded flags>" if o.get("fresh") else "")
        if o["op"] == "new":
            return f"C{o['t']}(image)"
        who = ("C%d" if o["op"] in ("cs", "cu") else "inst%d") % o["t"]
        if o["op"] in ("cs", "is"):
            return f"{who}.{case['s']}={val_repr(legacy_val(case['s'], o['v'], o.get('pres', 0)))}"
        return f"{who}.{case['s']}.unset"
    return (f"fresh process, terminal={case['ident']}, root={case['root']} parents={case['par']} "
            f"inst_classes={case['icls']} ops=[{', '.join(map(one, case['ops']))}]")


def fails_spec(st):
    return any(code >= 2 for _, code in st)


def shrink(case, only=None):
    """Delta debugging over the operations: drop chunks (halves, quarters, ... single operations)
    while the property oracle still fails on the implementation (in the same respect)."""
    cur = case
    n = 2
    for _ in range(30):
        L = len(cur["ops"])
        if L <= 1:
            break
        n = min(n, L)
        size = (L + n - 1) // n
        cands = []
        for k in range(0, L, size):
            c = dict(cur)
            c["ops"] = cur["ops"][:k] + cur["ops"][k + size:]
            if c["ops"]:
                cands.append(c)
        status, errors, _, cands = evaluate(cands, tag="c20s", only=only)
        nxt = next((c for c, st in zip(cands, status) if fails_spec(st)), None)
        if errors:
            break
        if nxt is not None:
            cur = nxt
            n = max(n - 1, 2)
        elif size == 1:
            break
        else:
            n = min(n * 2, L)
    if "hier" in cur:
        small = prune_hier(cur)
        if small is not cur:
            status, errors, _, cands = evaluate([small], tag="c20s", only=only)
            if not errors and fails_spec(status[0]):
                cur = cands[0]
    return cur


def prune_hier(case):
    """The case without the classes and instances its operations do not involve (classes an
    involved class derives from are kept; the library's classes always are)."""
    hier = case["hier"]
    insts = sorted({o["t"] for o in case["ops"] if o["op"] in ("is", "iu")})
    keep = set(range(ROOT + 1)) | {o["t"] for o in case["ops"] if o["op"] in ("cs", "cu")}
    keep |= {case["icls"][i] for i in insts}
    todo = list(keep)
    while todo:
        for b in hier[todo.pop()]["b"]:
            if b not in keep:
                keep.add(b)
                todo.append(b)
    if len(keep) == len(hier) and len(insts) == len(case["icls"]):
        return case
    cmap = {c: j for j, c in enumerate(sorted(keep))}
    imap = {i: j for j, i in enumerate(insts)}
    out = dict(case)
    out["hier"] = [{"k": hier[c]["k"], "b": [cmap[b] for b in hier[c]["b"]]} for c in sorted(keep)]
    out["icls"] = [cmap[case["icls"][i]] for i in insts]
    out["src"] = [case["src"][i] for i in insts]
    out["inst_ok"] = [cmap[c] for c in case.get("inst_ok", []) if c in keep]
    out["meta"] = [cmap[c] for c in case.get("meta", []) if c in keep]
    out["ops"] = [dict(o, t=(cmap if o["op"] in ("cs", "cu") else imap)[o["t"]]) for o in case["ops"]]
    return out


def describe(case):
    def one(o):
        if o["s"] == "rd" and "route" in o:
            how = {"fmt": "format", "still": "draw(animate=False)", "anim": "draw(animate=True)",
                   "iter": "ImageIterator(all frames)"}[o["route"]]
            args = ([] if o.get("m") is None else ["method=" + ["lines", "whole", "anim"][o["m"]]]) + [
                f"{ {'z': 'z_index', 'mix': 'mix', 'c': 'compress'}[k]}={v}" for k, v in sorted(o.get("others", {}).items())]
            return f"inst{o['t']}.{how}[{', '.join(args)}]"
        if o["s"] == "rd":
            how = "iterator-frame" if o.get("f") else "render"
            return f"inst{o['t']}.{how}" + ("" if o.get("m") is None else "+" + "LWA"[o["m"]])
        who = ("C%d" if o["op"] in ("cs", "cu") else "inst%d") % o["t"]
        if o["op"] in ("cs", "is"):
            return f"{who}.{o['s']}={val_repr(o['val'] if 'val' in o else legacy_val(o['s'], o['v'], o.get('pres', 0)))}"
        return f"{who}.{o['s']}.unset"
    if "hier" in case:
        mros = mirror_mros(case["hier"])
        decl = [f"{cls_name(case, c)}({', '.join(cls_name(case, b) for b in e['b']) or 'object'})"
                + ("" if mros[c] else "<refused>")
                for c, e in enumerate(case["hier"]) if c > ROOT]
        names = {f"C{c}.": cls_name(case, c) + "." for c in range(len(case["hier"]))}
        ops = [names.get(x.split(".")[0] + ".", x.split(".")[0] + ".") + x.split(".", 1)[1]
               for x in map(one, case["ops"])]
        return (f"root={case['root']} classes=[{'; '.join(decl)}] below BaseImage <- GraphicsImage <- "
                f"{cls_name(case, ROOT)}, BaseImage <- TextImage <- BlockImage; "
                f"inst_classes={[cls_name(case, c) for c in case['icls']]} ops=[{', '.join(ops)}]")
    geo = ""
    if case.get("geo"):
        geo = (f"inst_render_size(columns x lines)={['%dx%d' % tuple(g) for g in case['geo']]} cell=10x20px "
               f"read_from_file={'default' if case.get('rff') is None else bool(case['rff'])} ")
    return (f"root={case['root']} parents={case['par']} inst_classes={case['icls']} "
            f"inst_sources={case.get('src')} {geo}ops=[{', '.join(map(one, case['ops']))}]")


def run(ctx):
    rng = ctx.rng
    dcases = []
    if ctx.replay:
        cases = [ctx.replay["replay"]["case"]]
        if cases[0].get("det"):
            dcases, cases = cases, []
    else:

        n = 300 if ctx.quick else 4000
        nmi = 110 if ctx.quick else 1500
        corpus = list(CORPUS) + mi_corpus() + render_corpus() + value_corpus()
        cases = corpus + [gen_case(rng, 12 if i % 3 else 30) for i in range(n)]
        # hierarchies with multiple inheritance rooted at the library's base classes (own generator stream
        # position: after the forests, so that those are the same cases as before)
        cases += [gen_mi_case(rng, 10 if i % 3 else 24) for i in range(nmi)]
        # support detection inside the histories (drawn after the others, so that those stay the same cases)
        dcases = detect_corpus() + [gen_detect_case(rng, 8 if i % 3 else 16) for i in range(150 if ctx.quick else 3000)]
        # render REQUESTS by every route (drawn last, so that all the others stay the same cases)
        qcorpus = route_corpus()
        cases += qcorpus + [gen_route_case(rng, 8 if i % 3 else 16) for i in range(40 if ctx.quick else 800)]
        # renders whose GEOMETRY is at the boundary (drawn after everything else)
        cases += geom_corpus() + [gen_geom_case(rng, 6 if i % 3 else 12) for i in range(30 if ctx.quick else 600)]
    src_info()
    lower_bad = list(_PROBE.get("lower_bad", []))
    from concurrent.futures import ThreadPoolExecutor
    with ThreadPoolExecutor(max_workers=1) as ex:  # the detection histories side by side with the others
        fut = ex.submit(evaluate_detect, dcases)
        status, errors, impl, cases = evaluate(cases) if cases else ([], [], [], [])
        dstatus, derrors, dimpl = fut.result()
    errors += derrors
    if lower_bad:
        errors.append("str.lower() of the running Python maps code points outside A-Z onto letters of the "
                      f"render-method names (model/SettingsVal.v lower_cp assumes none): {lower_bad[:10]}")
    mismatches, failures = [], []
    ncorpus = 0 if ctx.replay else len(corpus)
    hist = {"root": {}, "classes": {}, "ops_len": {}, "op_kinds": {}, "settings": {}, "rejected_ops": 0, "accepted_ops": 0,
            "inst_sources": {}, "renders": {}, "render_requests": {}, "set_values": {}, "outcomes": {},
            "hierarchy_cases": 0, "hierarchy_shapes": {}, "hierarchy_targets": {},
            "route_requests": {}, "route_frames": {}, "geometry_renders": {}}
    distinct = set()

    def bump(key, name):
        hist[key][name] = hist[key].get(name, 0) + 1

    for c, r in zip(cases, impl):
        hist["root"][c["root"]] = hist["root"].get(c["root"], 0) + 1
        nclasses = len(c["par"]) if "par" in c else len(c["hier"]) - ROOT
        hist["classes"][nclasses] = hist["classes"].get(nclasses, 0) + 1
        if "hier" in c:
            hist["hierarchy_cases"] += 1
            mros, style, _ = hier_facts(c["hier"])
            for x, e in enumerate(c["hier"]):
                if x <= ROOT:
                    continue
                if not mros[x]:
                    bump("hierarchy_shapes", "refused (inconsistent order)")
                elif e["k"] == "obj":
                    bump("hierarchy_shapes", "object mix-in")
                elif x not in style:
                    bump("hierarchy_shapes", "image mix-in (no render methods)")
                else:
                    sb = [b for b in e["b"] if b in style]
                    first_is_style = e["b"][0] in style
                    bump("hierarchy_shapes", "style class: " + ("single base" if len(e["b"]) == 1 else (
                        ("diamond, " if len(sb) > 1 else "")
                        + ("mix-in listed first" if not first_is_style else "style base listed first")
                        if len(e["b"]) > len(sb) else "diamond")))
                    bump("hierarchy_shapes", f"style depth {style_depth(c['hier'], mros, x)}")
            for o in c["ops"]:
                if o["op"] in ("cs", "cu"):
                    t = o["t"]
                    bump("hierarchy_targets", o["s"] + " on " + (
                        cls_name(c, t) if t < ROOT else "the style class" if t == ROOT else
                        "a style subclass" if t in style else "an image mix-in"))
        b = min(len(c["ops"]) // 5 * 5, 30)
        hist["ops_len"][b] = hist["ops_len"].get(b, 0) + 1
        for o in c["ops"]:
            hist["op_kinds"][o["op"]] = hist["op_kinds"].get(o["op"], 0) + 1
            hist["settings"][o["s"]] = hist["settings"].get(o["s"], 0) + 1
        for kd in c.get("src", []):
            hist["inst_sources"][kd] = hist["inst_sources"].get(kd, 0) + 1
        rds = [o for o in c["ops"] if o["s"] == "rd"]
        if c.get("geo"):
            rff = 1 if c.get("rff") is None else c["rff"]
            for o, row in zip(rds, r.get("renders", [])):
                gi = r["ginfo"][o["t"]]
                differ = lines_whole_differ(c["root"], gi, r["srcs"][o["t"]][0], rff)
                bump("geometry_renders", f"{c['root']},lines={min(gi[1], 3)}{'+' if gi[1] >= 3 else ''}")
                bump("geometry_renders", f"columns={'1' if gi[0] == 1 else '>1'}")
                bump("geometry_renders", f"src={c['src'][o['t']]},rff={'default' if c.get('rff') is None else c['rff']}")
                bump("geometry_renders", f"lines={'1' if gi[1] == 1 else '>1'},LINES/WHOLE payloads "
                                         f"{'differ' if differ else 'coincide'}")
                bump("geometry_renders", f"transmissions={(len(row) - 1) // 3},verbatim={int(any(row[3::3]))}")
                if gi[1] == 1 and differ:
                    distinct.add(core.sig([c["root"], gi, c["src"][o["t"]], rff, o.get("m"), o.get("f")]))
            rds = []
        elif any("route" in o for o in rds):
            # requests: one row per rendered frame
            for o in rds:
                if "route" in o:
                    bump("route_requests", f"{c['root']},{o['route']},"
                                           f"call={'-' if o.get('m') is None else 'LWA'[o['m']]}")
                    bump("route_requests", f"src={c['src'][o['t']]},{o['route']}")
                    bump("route_requests", "other style args: " + (",".join(sorted(o.get("others", {}))) or "none"))
            for row in r.get("renders", []):
                bump("route_frames", f"used={'LWA'[row[0]] if 0 <= row[0] <= 2 else row[0]},warned={row[1]}")
            rds = []
        for o, row in zip(rds, r.get("renders", [])):
            key = f"used={'LWA'[row[0]] if 0 <= row[0] <= 2 else row[0]},warned={row[1]}"
            hist["renders"][key] = hist["renders"].get(key, 0) + 1
            key = (f"src={c['src'][o['t']]},call={'-' if o.get('m') is None else 'LWA'[o['m']]},"
                   f"{'frame' if o.get('f') else 'whole'}")
            hist["render_requests"][key] = hist["render_requests"].get(key, 0) + 1
        for s, rows in r["obs"].items():
            sops = [o for o in c["ops"] if o["s"] == s]
            for o, row in zip(sops, rows):
                hist["rejected_ops" if row[0] else "accepted_ops"] += 1
                res = {0: "accepted", 1: "TypeError", 2: "ValueError", 3: "AttributeError"}.get(row[0], "other")
                if o["op"] in ("cs", "is"):
                    d = o["val"]
                    falsy = (d["k"] == "none" or d.get("s") == "" or d.get("z") == 0 or d.get("b") is False
                             or d.get("l") == [] or d.get("n") == 0 or d.get("t") is False
                             or d.get("r") in ("0.0", "-0.0"))
                    key = f"{s}/{'class' if o['op'] == 'cs' else 'instance'}/{d['k']}{'(falsy)' if falsy else ''}"
                    hist["set_values"][key] = hist["set_values"].get(key, 0) + 1
                    key = f"{s}/{'class' if o['op'] == 'cs' else 'instance'}:{res}"
                else:
                    key = f"{s}/{'class' if o['op'] == 'cu' else 'instance'}.unset:{res}"
                hist["outcomes"][key] = hist["outcomes"].get(key, 0) + 1
        # non-trivial: >= 2 classes, >= 3 ops and some class-level set followed by an unset
        kinds = [o["op"] for o in c["ops"]]
        if nclasses >= 2 and len(c["ops"]) >= 3 and "cs" in kinds and ("cu" in kinds or "iu" in kinds):
            distinct.add(core.sig(c))
    for i, st in enumerate(status):
        if not st:
            continue
        if fails_spec(st):
            if len(failures) < 2 and not ctx.replay:
                small = shrink(cases[i], {s for s, c in st if c >= 2})
                st2, _, impl2, _ = evaluate([small], tag="c20r")
                small = normalise(small)
            else:
                small, st2, impl2 = cases[i], [st], [impl[i]]
            what = f"settings history violates the documented resolution rule ({[s for s, c in st2[0] if c >= 2]}): {describe(small)}"
            failures.append({
                "signature": core.sig({"root": small["root"], "icls": small["icls"],
                                       **({"hier": small["hier"]} if "hier" in small else {"par": small["par"]}),
                                       "src": small.get("src"),
                                       **({"geo": small["geo"], "rff": small.get("rff")} if small.get("geo") else {}),
                                       "ops": [(o["s"], o["op"], o["t"], o.get("val"), o.get("m"), o.get("f"))
                                               + ((o["route"], sorted(o.get("others", {}).items())) if "route" in o else ())
                                               for o in small["ops"]]}),
                "what": what,
                "replay": {"case": small, "observed": impl2[0], "status": st2[0]},
            })
        else:
            mismatches.append({"case": cases[i], "status": st, "observed": impl[i]["obs"]})
    hist["detection"] = {"cases": len(dcases), "terminal": {}, "setting": {}, "ops": {}, "answers": {},
                         "first_detection_on": {}, "detection_vs_sets": {}}
    for c, r in zip(dcases, dimpl):
        h = hist["detection"]
        h["terminal"][f"{c['root']}/{c['ident']}"] = h["terminal"].get(f"{c['root']}/{c['ident']}", 0) + 1
        h["setting"][c["s"]] = h["setting"].get(c["s"], 0) + 1
        kinds = [o["op"] for o in c["ops"]]
        for o, row in zip(c["ops"], r.get("rows", [])):
            key = o["op"] + ("(fresh)" if o.get("fresh") else "")
            h["ops"][key] = h["ops"].get(key, 0) + 1
            if o["op"] in ("det", "new"):
                key = f"{o['op']}:{'yes' if row[0] else 'no'}"
                h["answers"][key] = h["answers"].get(key, 0) + 1
        dk = [k for k, x in enumerate(kinds) if x in ("det", "new")]
        sk = [k for k, x in enumerate(kinds) if x in ("cs", "cu", "is", "iu")]
        if dk:
            first = c["ops"][dk[0]]
            key = ("the style class" if first["t"] == 0 else "a subclass") + (" (instance creation)" if first["op"] == "new" else "")
            h["first_detection_on"][key] = h["first_detection_on"].get(key, 0) + 1
        if dk and sk:
            key = ("before" if dk[0] < sk[0] else "") + ("+between" if any(sk[0] < k < sk[-1] for k in dk) else "") \
                + ("+after" if dk[-1] > sk[-1] else "")
            h["detection_vs_sets"][key] = h["detection_vs_sets"].get(key, 0) + 1
        if len(c["par"]) >= 2 and dk and "cs" in kinds and len(c["ops"]) >= 3:
            distinct.add(core.sig(c))
    for i, st in enumerate(dstatus):
        if not st:
            continue
        if fails_spec(st):
            if len(failures) < 2 and not ctx.replay:
                small = shrink_detect(dcases[i])
                st2, _, impl2 = evaluate_detect([small], tag="c20dr")
            else:
                small, st2, impl2 = dcases[i], [st], [dimpl[i]]
            failures.append({
                "signature": core.sig({k: small[k] for k in ("root", "s", "ident", "par", "icls", "ops")}),
                "what": "support detection / instance creation inside a settings history changes what a class or instance "
                        f"reads ({[s for s, c in st2[0] if c >= 2]}; the documented rule on the history without the "
                        f"detection steps is violated): {describe_detect(small)}",
                "replay": {"case": small, "observed": impl2[0], "status": st2[0]},
            })
        else:
            mismatches.append({"case": dcases[i], "status": st, "observed": dimpl[i].get("rows")})
    return {
        "corr_name": "SettingsVal.vtrace / SettingsMro.m_vtrace (model) == real set/unset history, with values of the "
                     "whole universe, on KittyImage/ITerm2Image subclass forests and on multiple-inheritance "
                     "hierarchies rooted at the library's base classes",
        "evaluations": len(cases) + len(dcases),
        "distinct_nontrivial": len(distinct),
        "rule": "corpus + random class forests (1-6 classes: chains, stars, random trees; 0-3 instances) with 1-30 "
                "set/unset/invalid-set operations over render method, forced support, jpeg quality, read-from-file, "
                "native-anim limit (values around the data sizes of the animated sources); the values set are drawn "
                f"from a universe of {len(UNIVERSE)} Python values ({len(FALSY)} falsy ones: 0, False, 0.0, -0.0, (), [], "
                "{}, set(), frozenset(), range(0), bytearray(), b'', a falsy object, 0j, '', None; odd truthy ones: "
                "floats incl. nan/inf, containers, bytes, NotImplemented, ..., a type; strings: names in every case, "
                "padded / truncated / foreign / look-alike names; integers around every range end) and the corpus hands "
                "EVERY value of the universe to EVERY setting at EVERY level of both styles; the outcome is compared "
                "by kind (accepted / TypeError / ValueError / AttributeError); interleaved with RENDERS of "
                "instances sourced from animated GIF/APNG files, PIL images opened from them, static files and static "
                "PIL images (str / format with or without a per-call method, one frame of an ImageIterator): the method "
                "whose output format was produced (LINES / WHOLE / ANIM = the whole animated file in one transmission) "
                "and whether the size warning was issued are compared with the model and with the documented rule; "
                "after every op every class's and instance's effective value is read, every "
                "instance is rendered (framing LINES vs WHOLE), at the end fresh instances, per-call overrides and "
                "forced-support instantiation are observed.  HIERARCHIES with multiple inheritance (corpus + random): "
                "below the library's own BaseImage <- GraphicsImage <- style class and BaseImage <- TextImage <- "
                "BlockImage, 1-6 classes created with type(name, bases, {}) through the library's metaclass: plain "
                "object mix-ins, image mix-ins derived from BaseImage / GraphicsImage / TextImage or from each other "
                "(no render methods), style classes with one or two style bases (diamonds) and 0-2 mix-ins listed "
                "before or after them, style depth <= 4, now and then an order Python refuses (the class is not "
                "created, the model's C3 must refuse it too), a derived metaclass on leaf classes; operations target "
                "ANY class the setting exists on, the library's base classes included (forced support on BaseImage / "
                "GraphicsImage / TextImage / BlockImage; the render method's set / unset also on classes without "
                "render methods), the process-global classes being restored and the restoration verified after "
                "every case; the model's C3 linearisation is compared with every class's real __mro__; readings "
                "of every class (ABSENT where the setting does not exist) and instance after every op.  "
                "SUPPORT DETECTION inside the histories (corpus + random, own driver): a fresh process (no support "
                "flag recorded on any class), the terminal reporting one of six identities (kitty 0.30 / kitty 0.19 / "
                "konsole / wezterm / iterm2 / unknown; only name, version and the reply to the kitty graphics query are "
                "stubbed, is_supported() is the library's own), forests of 1-4 classes, histories of 2-16 steps of ONE "
                "setting (render method, forced support, jpeg quality, read-from-file) interleaved with support checks "
                "on any class (a subclass first; with the recorded flags dropped) and instance creations, before / "
                "between / after the set / unset operations; after every step every class and instance is read, a "
                "new instance is read and rendered, the other settings are compared with their values at the start. "
                "RENDER REQUESTS BY ROUTE (corpus + random, forests of 1-4 classes, 1-3 instances, both styles): "
                "format(), draw(animate=False), draw(animate=True) and an ImageIterator run to its end, each with no "
                "per-call method or any of the style's methods and with or without other style arguments (z_index, mix, "
                "compress), on animated GIF / APNG files, PIL images opened from them and static sources, interleaved "
                "with render-method operations at every level (and limit operations on iterm2); the draws are captured "
                "on a write-recording StringIO with sleep() a no-op and EVERY frame is decoded into the method used; "
                "the per-frame list is judged against SettingsRoute.qtrace and spec_qtrace.  "
                "RENDER GEOMETRY (corpus + random, forests of 1-3 classes, 1-3 instances, both styles): instances whose "
                "render is 1 / 2 / 3 lines high and 1 / 2 / 3 / 8 columns wide (cell 10x20 px; one line / one column most "
                "of the time), sourced from a 4x4 PIL image, 8x8 static / animated files and a 40x30 static file (larger "
                "than the small renders), read_from_file default (on) / off / on, rendered by str / format / the first "
                "frame of an ImageIterator with every per-call method, interleaved with render-method operations at every "
                "level; every transmitted image is DECODED (iterm2: PIL pixel size of each payload + bytes equal to the "
                "source file; kitty: declared pixel columns / rows verified against the length of the decompressed pixel "
                "data) and the list [warned; (pixel width, pixel height, verbatim)*] of every render is judged against "
                "SettingsGeom.gtrace and spec_gtrace (the documented payload of the documented method), so the method "
                "used is decided by the payloads, not by the framing, which coincides for one-line renders.  "
                "Non-trivial: >= 2 classes, >= 3 ops, a class-level set and some unset (detection cases: >= 2 classes, "
                ">= 3 steps, a class-level set and a detection step; geometry cases: each distinct (style, geometry, "
                "source, read_from_file, per-call method, frame) ONE-LINE render for which the documented payloads of "
                "LINES and WHOLE differ); distinct by full case hash.",
        "samples": [describe(c) for c in cases[:1] + cases[len(CORPUS):len(CORPUS) + 1] + cases[ncorpus:ncorpus + 2]
                    + ([] if ctx.replay else cases[-2:])]
                   + [describe_detect(c) for c in dcases[:1] + dcases[-2:]],
        "histogram": hist,
        "mismatches": mismatches,
        "failures": failures,
        "errors": errors,
        "assumptions": [
            "Python attribute resolution is modelled by cls_lookup on single-inheritance chains and by first_some over the "
            "C3 linearisation (SettingsMro.c3_all, compared with the real __mro__ of every generated class at run time) on "
            "hierarchies with multiple inheritance (instance dict, then the classes of the MRO in order)",
            "a setting exists on a class iff the class has the metaclass property / a non-empty _render_methods: forced "
            "support on every ImageMeta class, the render method below the style class, the iterm2 settings below "
            "ITerm2Image (the driver decides this from the library's structure, the model from the MRO)",
            "values are identified up to the case of a render-method name (the code applies .lower()) and up to "
            "Python equality of bool and int (True == 1): a bool is accepted where an int is documented",
            "str.lower() maps no code point outside A-Z onto letters of the render-method names (checked over all "
            "code points of the running Python by the driver's probe at every run)",
            "a source's 'animated' flag, data size and number of frames are facts about the file (PIL), inputs of the model",
            "geometry cases: the rendered size in cells and the original pixel size are read back from the instance "
            "(sizing is C04's business) and compared with what the generator asked for; cell size 10x20 px; a file source "
            "of the generated kinds is readable and of a mode the verbatim read accepts (RGB); alpha is the default",
            "requests by route: kitty as version 0.30.0, iterm2 as wezterm; repeat=1, cached=False; one write() to stdout "
            "that contains an image transmission = one rendered frame",
            "support detection: the terminal is represented by six identities (what get_terminal_name_version() returns "
            "and what the kitty graphics query is answered); SettingsDetect.detects (the conclusion of the detection body "
            "per style and identity) is compared with the real is_supported() at run time (model side of the judgement); "
            "instances that exist from the start of a detection history were created before the fresh-process state was "
            "entered",
        ],
        "trusted": ["impl driver reads _render_method (no public getter) and confirms it by the framing of real renders",
                    "decoding of a render into the method used: iterm2 LINES = one 'height=1' transmission per line, "
                    "WHOLE = one transmission of a single-frame image, ANIM = one transmission whose payload is "
                    "byte-for-byte the animated source file; kitty LINES/WHOLE by the number of transmissions "
                    "(renders two lines high only; for the geometry cases the payloads themselves are judged)",
                    "decoding of a transmitted image: PIL's decoder for iterm2 payloads (PNG / JPEG / GIF), "
                    "base64 + zlib for kitty payloads"],
    }
