"""C10, second part of the correspondence (used by props/c10.py): two more families

* "ctor": faults DURING THE CONSTRUCTION of a RenderIterator (both constructors, three ownership
  modes): client padding code raising, the frame cache that cannot be allocated, failing
  `_get_render_size_` / `_get_render_data_`, invalid arguments, and a KeyboardInterrupt delivered at the
  k-th line executed inside the package while the constructor runs (asyncfault.py; every k for the
  corpus and in the thorough tier, every 3rd-7th in the quick tier).  The half-built object is dropped
  and collected.  Model: model/IterCtor.v; judge: model/IterCtorTie.v ([ccheck]).
* "nest": SEVERAL render-data objects alive at once: composite renderables (the finalizer of a node's
  render data closes iterators over the node's children / finalizes their data / drops the last
  reference to it), nesting depth up to 3, several iterators open at the same time, one-off
  operations on composites, and a close() performed by a second thread whose finalizer waits at an
  Event gate while the main thread completes other operations.  Model: model/FinNest.v; judge:
  model/FinNestTie.v ([ncheck]).

Driver: impl/impl_c10_life.py."""
from __future__ import annotations

import copy

import core
from props import c10_client as client

CHEADER = ("From Coq Require Import List.\nImport ListNotations.\n"
           "From TI Require Import model.IterCtor model.IterCtorTie.\nOpen Scope nat_scope.\n")
NHEADER = ("From Coq Require Import List.\nImport ListNotations.\n"
           "From TI Require Import model.FinNest model.FinNestTie.\nOpen Scope nat_scope.\n")
KIND = {"init": 0, "frd_keep": 1, "frd_give": 2}
FAULTS = ["none", "pad0", "pad1", "pad2", "pad3", "huge", "size", "data", "loops0", "cache0", "badargs"]
FAULT_TEXT = {
    "none": "no fault", "pad0": "client padding: _get_exact_dimensions_ raises PaddingError",
    "pad1": "client padding: get_padded_size raises RuntimeError",
    "pad2": "client padding: _get_exact_dimensions_ raises KeyboardInterrupt",
    "pad3": "client padding: _get_exact_dimensions_ raises MemoryError",
    "huge": "frame_count=sys.maxsize, cache=True (the frame cache cannot be allocated: MemoryError)",
    "size": "_get_render_size_ raises", "data": "_get_render_data_ raises", "loops0": "loops=0", "cache0": "cache=0",
    "badargs": "render arguments of an unrelated render class"}
EXC = ["PaddingError", "RuntimeError", "KeyboardInterrupt", "MemoryError", "ValueError", "IncompatibleRenderArgsError"]
CTOR_TEXT = {"init": "RenderIterator(renderable, ...)", "frd_keep": "RenderIterator._from_render_data_(..., finalize=False)",
             "frd_give": "RenderIterator._from_render_data_(..., finalize=True)"}


def is_ctor(c):
    return c.get("mode") == "ctor"


def is_nest(c):
    return c.get("mode") == "nest"


def is_life(c):
    """the families judged outside model/Iter*Tie: ctor, nest (this module) and client (props/c10_client.py)"""
    return c.get("mode") in ("ctor", "nest", "client")


# ----------------------------------------------------------------- generators: ctor


def ctor_case(kind="frd_keep", fault="none", **kw):
    c = {"mode": "ctor", "kind": kind, "fault": fault, "n": 3, "total": 3, "loops": 1, "cache": False,
         "pad": [0, 0, 0, 0], "custom_pad": False, "nexts": 0, "async": None}
    c.update(kw)
    return c


def ctor_corpus():
    out = []
    for kind in ("frd_keep", "frd_give", "init"):
        for fault in FAULTS:
            if fault in ("size", "data") and kind != "init":
                continue  # the caller makes the data itself before the constructor runs
            out.append(ctor_case(kind, fault))
        out.append(ctor_case(kind, "none", n=None, cache=True, nexts=1))
        out.append(ctor_case(kind, "pad0", n=2, loops=-1, cache=100))
        # a KeyboardInterrupt between ANY two lines executed inside the package during the construction
        out.append(ctor_case(kind, "none", enumerate_async=1))
        out.append(ctor_case(kind, "none", n=5, cache=True, custom_pad=True, enumerate_async=1))
    return out


def gen_ctor(rng, i, quick):
    kind = rng.choices(["frd_keep", "frd_give", "init"], [45, 20, 35])[0]
    fault = rng.choices(FAULTS, [14, 12, 10, 8, 6, 12, 6, 6, 5, 4, 5])[0]
    if fault in ("size", "data") and kind != "init":
        fault = "pad" + str(rng.randrange(4))
    c = ctor_case(kind, fault, n=rng.choice([2, 3, 3, 5, None]), total=rng.randint(1, 4),
                  loops=rng.choice([1, 1, 2, -1]), cache=rng.choice([False, True, 2, 100]),
                  pad=[rng.randrange(3) for _ in range(4)], custom_pad=rng.random() < 0.3,
                  nexts=rng.choice([0, 0, 1]))
    if rng.random() < (0.3 if quick else 0.5):
        c["enumerate_async"] = rng.choice([3, 5, 7]) if quick else rng.choice([1, 1, 2])
        c["async_offset"] = rng.randrange(7)
    return c


# ----------------------------------------------------------------- generators: nest

MODES = ["own", "give", "keep_fin", "keep_drop", "keep_leak"]
IN_BODY = ("own", "give", "keep_fin", "keep_drop")


def node(n=3, total=2, kids=()):
    return {"n": n, "total": total, "kids": [list(k) for k in kids]}


def nest_case(nodes, script, **kw):
    c = {"mode": "nest", "nodes": nodes, "script": [list(s) for s in script], "rfaults": {}}
    c.update(kw)
    return c


IT = lambda slot, nd, ctor="init": ["iter", slot, nd, ctor]  # noqa: E731
NX, CL, DR, EX, OF = (lambda s: ["next", s]), (lambda s: ["close", s]), (lambda s: ["drop", s]), \
    (lambda s: ["exhaust", s]), (lambda s: ["ownerfin", s])  # noqa: E731


def nest_corpus():
    leaf = node(5)
    comp = lambda mode, n=None: [node(n, 3, [[1, mode]]), node(5)]  # noqa: E731
    out = []
    for mode in MODES:
        # a composite whose finalizer closes an iterator over another renderable: closed early / exhausted /
        # collected / failed; one-off operations
        out.append(nest_case(comp(mode), [IT(0, 0), NX(0), CL(0), CL(0)]))
        out.append(nest_case(comp(mode), [IT(0, 0), EX(0), NX(0)]))
        out.append(nest_case(comp(mode), [IT(0, 0), NX(0), DR(0)]))
        out.append(nest_case(comp(mode), [["render", 0], ["str", 0], ["draw", 0, 0], ["draw", 0, 1]]))
        out.append(nest_case(comp(mode, 3), [IT(0, 0), NX(0), NX(0), NX(0)], rfaults={"0": 1}))
        out.append(nest_case(comp(mode), [IT(0, 0), NX(0), NX(0)], rfaults={"1": 1}))
    # nesting depth 2 and 3, several children, mixed ownership
    deep = [node(None, 3, [[1, "own"], [3, "keep_drop"]]), node(3, 2, [[2, "give"]]), node(3), node(3)]
    out.append(nest_case(deep, [IT(0, 0), EX(0), ["render", 0], ["draw", 0, 1], ["str", 0]]))
    out.append(nest_case(deep, [IT(0, 0, "give"), NX(0), IT(1, 0, "keep"), NX(1), CL(0), CL(1), OF(1)]))
    deep3 = [node(None, 4, [[1, "own"]]), node(None, 9, [[2, "keep_fin"]]), node(None, 9, [[3, "own"], [4, "keep_drop"]]),
             node(7), node(7)]
    out.append(nest_case(deep3, [IT(0, 0), NX(0), NX(0), DR(0)]))
    out.append(nest_case(deep3, [["draw", 0, 1], IT(0, 1), NX(0), ["render", 2], CL(0)]))
    # the child ends first (it has fewer frames than its parent asks for)
    out.append(nest_case([node(None, 5, [[1, "own"]]), node(2)], [IT(0, 0), NX(0), NX(0), NX(0), NX(0)]))
    out.append(nest_case([node(3, 5, [[1, "give"]]), node(2)], [IT(0, 0), EX(0)]))
    # two unrelated iterators; the finalizer of one is in progress in another thread while the other is
    # closed / exhausted / dropped / a one-off render completes
    two = [node(2), node(2)]
    for mid in ([CL(1)], [EX(1)], [DR(1)], [["render", 1]], [["draw", 1, 1]], [NX(1), NX(1), NX(1)]):
        out.append(nest_case(two, [IT(0, 0), IT(1, 1), NX(0), NX(1), ["tclose", 0, 0, 1]] + mid + [["trelease"]]))
    # the same with composites on both sides; the gate inside the finalizer of a nested object
    both = [node(None, 3, [[1, "own"]]), node(5), node(None, 3, [[3, "own"], [4, "keep_drop"]]), node(5), node(5)]
    out.append(nest_case(both, [IT(0, 0), IT(1, 2), NX(0), NX(1), ["tclose", 0, 0, 1], CL(1), ["render", 2], ["trelease"]]))
    out.append(nest_case(both, [IT(0, 0), IT(1, 2), NX(0), NX(1), ["tclose", 0, 1, 2], EX(1), ["trelease"]]))
    out.append(nest_case(both, [IT(0, 2), IT(1, 0), NX(0), ["tclose", 0, 3, 2], NX(1), DR(1), ["trelease"]]))
    return out


def gen_nest(rng, i, quick):
    nn = rng.randint(2, 6)
    nodes = [node(rng.choice([None, None, 2, 3, 5]), rng.randint(1, 4)) for _ in range(nn)]
    parent = {}
    depth = {0: 0}
    for j in range(1, nn):
        if rng.random() < 0.7:
            cands = [p for p in range(j) if depth.get(p, 0) < 3 and len(nodes[p]["kids"]) < 2]
            if cands:
                p = rng.choice(cands)
                nodes[p]["kids"].append([j, rng.choice(MODES)])
                parent[j] = p
                depth[j] = depth.get(p, 0) + 1
                continue
        depth[j] = 0
    roots = [j for j in range(nn) if j not in parent]
    threaded = len(roots) >= 2 and rng.random() < 0.3
    script, live = [], {}  # slot -> [root, ctor, state]  state: open | ended | dropped

    def one_step(allowed_slots, allowed_roots):
        k = rng.choices(["iter", "next", "close", "drop", "exhaust", "oneshot", "ownerfin"], [18, 34, 10, 8, 8, 16, 6])[0]
        if k == "iter" or not [s for s in allowed_slots if s in live]:
            free = [s for s in allowed_slots]
            if not free:
                return
            s = rng.choice(free)
            r = rng.choice(allowed_roots)
            ctor = rng.choices(["init", "give", "keep"], [60, 20, 20])[0]
            script.append(IT(s, r, ctor))
            live[s] = [r, ctor, "open"]
            return
        s = rng.choice([s for s in allowed_slots if s in live])
        st = live[s]
        if k == "oneshot":
            r = rng.choice(allowed_roots + [st[0]])
            script.append(rng.choice([["render", r], ["str", r], ["draw", r, 0], ["draw", r, 1]]))
        elif k == "ownerfin":
            if st[1] == "keep" and st[2] != "open":
                script.append(OF(s))
        elif st[2] == "dropped":
            return
        elif k == "next":
            script.append(NX(s))
        elif k == "close":
            script.append(CL(s))
            st[2] = "ended"
        elif k == "exhaust":
            script.append(EX(s))
            st[2] = "ended"
        elif k == "drop":
            script.append(DR(s))
            st[2] = "dropped"

    if threaded:
        a, b = rng.sample(roots, 2)
        script += [IT(0, a, rng.choice(["init", "give"])), IT(1, b, rng.choice(["init", "init", "give", "keep"]))]
        live[0], live[1] = [a, "init", "open"], [b, script[-1][3], "open"]
        if rng.random() < 0.5:  # at most one: nothing of slot 0 may have ended before its close()
            script.append(NX(0))
        for _ in range(rng.randint(0, 2)):
            script.append(NX(1))
        gate, moves = a, 1
        first = nodes[a]["kids"][0] if nodes[a]["kids"] else None
        if first and first[1] in ("own", "give", "keep_fin") and rng.random() < 0.4:
            # (not keep_drop: an object inside its own __del__ cannot be looked at from outside)
            gate, moves = first[0], 2
        script.append(["tclose", 0, gate, moves])
        broots = [b] + [j for j in range(nn) if _root_of(j, parent) == b]
        for _ in range(rng.randint(1, 4)):
            one_step([1], broots)
        script.append(["trelease"])
        for _ in range(rng.randint(0, 2)):
            one_step([1], broots)
    else:
        for _ in range(rng.randint(3, 9)):
            one_step([0, 1], list(range(nn)) if rng.random() < 0.3 else roots)
    c = nest_case(nodes, script)
    if rng.random() < 0.2:
        pool = [j for j in range(nn) if not threaded or _root_of(j, parent) != script[0][2]]
        c["rfaults"] = {str(rng.choice(pool)): rng.randrange(3)}
    return c


def _root_of(j, parent):
    while j in parent:
        j = parent[j]
    return j


# ----------------------------------------------------------------- encoding to Coq


def b(v):
    return "true" if v else "false"


def nats(l):
    return core.coq_list(l, lambda k: f"{k}%nat")


def obool(v):
    return "None" if v is None else f"(Some {b(v)})"


def ccase_t(c, r):
    o = r["obj"]
    obj = "None" if o is None else (f"(Some ({obool(o[0])}, {'None' if o[1] is None else f'(Some {o[1]}%nat)'}, "
                                    f"{b(o[2])}, {obool(o[3])}))")
    return (f"{{| cc_kind := {KIND[c['kind']]}%nat; cc_completed := {b(r['completed'])}; cc_obj := {obj}; "
            f"cc_data_exists := {b(r['data_exists'])}; cc_drop_calls := {r['drop_calls']}%nat; "
            f"cc_drop_fz := {b(r['drop_fz'])}; cc_end_calls := {r['end_calls']}%nat; cc_others := {nats(r['others'])}; "
            f"cc_unraisable := {r['unraisable']}%nat; cc_bad_use := {r['bad_use']}%nat |}}")


def ncase_t(c, r):
    steps = r["steps"]
    fuel = 2 * len(r["bodies"]) + sum(len(x) for x in r["bodies"]) + max([len(s["targets"]) for s in steps] + [0]) + 3
    sched = core.coq_list(steps, lambda s: f"({s['sched'][0]}%nat, {fuel if s['sched'][1] is None else s['sched'][1]}%nat, "
                                           f"{b(s['sched'][2])})")
    obs = core.coq_list(steps, lambda s: core.coq_list(s["snap"], lambda x: f"({x[0]}%nat, {obool(x[1])})"))
    return (f"{{| n_bodies := {core.coq_list(r['bodies'], nats)}; "
            f"n_progs := {core.coq_list(steps, lambda s: nats(s['targets']))}; n_sched := {sched}; n_obs := {obs}; "
            f"n_bad_use := {r['bad_use']}%nat; n_unraisable := {r['unraisable']}%nat |}}")


def jobs(variants, obs, tag):
    """[(coq_shards arguments, indices)] for the life cases among `variants`"""
    ci = [k for k, v in enumerate(variants) if is_ctor(v)]
    ni = [k for k, v in enumerate(variants) if is_nest(v)]
    out = []
    if ci:
        out.append(((tag + "c", CHEADER, [ccase_t(variants[k], obs[k]) for k in ci], "ccase", "cbad cases", 400), ci))
    if ni:
        out.append(((tag + "n", NHEADER, [ncase_t(variants[k], obs[k]) for k in ni], "ncase", "nbad cases",
                     max(40, -(-len(ni) // 8))), ni))
    return out + client.jobs(variants, obs, tag)


# ----------------------------------------------------------------- reporting


def describe(c):
    if client.is_client(c):
        return client.describe(c)
    if is_ctor(c):
        n = "INDEFINITE" if c["n"] is None else c["n"]
        flt = FAULT_TEXT[c.get("fault") or "none"]
        if c.get("async") is not None:
            flt += f"; KeyboardInterrupt delivered at line event #{c['async']} executed inside the package during the constructor"
        pad = "a client Padding subclass" if c.get("custom_pad") or (c.get("fault") or "").startswith("pad") \
            else f"ExactPadding{tuple(c.get('pad', [0, 0, 0, 0]))}"
        return (f"construction by {CTOR_TEXT[c['kind']]} over the instrumented renderable: frames={n} loops={c.get('loops', 1)} "
                f"cache={c.get('cache', False)} padding={pad}; {flt}; then {c.get('nexts', 0)} x next() if it was built, "
                "the (half-built) iterator is dropped and collected")
    nodes = "; ".join(
        f"node{i}(frames={'INDEFINITE/' + str(nd.get('total')) if nd['n'] is None else nd['n']}"
        + (", finalizer handles " + ", ".join(f"iterator over node{k[0]} [{k[1]}]" for k in nd["kids"]) if nd["kids"] else "")
        + ")" for i, nd in enumerate(c["nodes"]))
    def one(s):
        if s[0] == "iter":
            return f"slot{s[1]} = {'RenderIterator(node%d)' % s[2] if s[3] == 'init' else '_from_render_data_(node%d, finalize=%s)' % (s[2], s[3] == 'give')}"
        if s[0] in ("next", "close", "drop", "exhaust"):
            return f"{s[0]}(slot{s[1]})"
        if s[0] == "ownerfin":
            return f"owner of slot{s[1]}'s data: finalize()"
        if s[0] == "tclose":
            return f"SECOND THREAD: close(slot{s[1]}), waits inside the finalizer of node{s[2]}'s data"
        if s[0] == "trelease":
            return "the second thread is let go and joined"
        return f"node{s[1]}.{s[0]}(" + (f"animate={bool(s[2])}" if s[0] == "draw" else "") + ")"
    return (f"composite renderables [own: RenderIterator(child); give/keep_*: _from_render_data_(finalize=True/False); "
            f"keep_fin: finalizer also finalizes the child's data; keep_drop: drops its last reference; keep_leak: leaves it]: "
            f"{nodes}; _render_ faults {c.get('rfaults') or {}}; script: " + "; ".join(one(s) for s in c["script"]))


def what_of(c, r):
    if client.is_client(c):
        return client.what_of(c, r)
    if is_ctor(c):
        o = r.get("obj")
        obj = "no object yet" if o is None else (
            f"_closed={o[0]} generator={ {None: 'absent', 0: 'created', 1: 'running', 2: 'suspended', 3: 'closed'}[o[1]] } "
            f"_render_data={'bound' if o[2] else 'absent'} _finalize_data={o[3]}")
        return ("render data not finalized exactly once / a caller's data finalized, after a fault during the construction "
                "of an iterator: " + describe(c) + f" -> constructor {'returned' if r['completed'] else 'raised ' + (EXC[r['exc']] if r['exc'] is not None and r['exc'] < len(EXC) else 'another exception')}"
                + (f" at {r['where']}" if r.get("where") else "") + f"; object left behind: {obj}; after it was collected: "
                f"finalizer entries={r['drop_calls']} finalized={bool(r['drop_fz'])}; in the end (owner's finalize, everything "
                f"released): entries={r['end_calls']}; other render data objects: {r['others']}; unraisable exceptions: "
                f"{r['unraisable']}; _render_ calls on finalized data: {r['bad_use']}")
    lines = []
    for s, st in zip(c["script"] + [["everything released and collected"]], r["steps"]):
        lines.append(f"{' '.join(map(str, s))} -> outcome {['ok/frame', 'StopIteration', 'error', 'TIMEOUT', 'skipped'][st['out']]}, "
                     f"ends the life of objects {st['targets']}, then per object [finalizer entries, finalized] = {st['snap']}")
    return ("some render data object not finalized exactly once / not when the operation that ends its life completes: "
            + describe(c) + f" -> render data objects in creation order belong to nodes {r['nodes_of']}, their finalizers "
            f"finalize {r['bodies']}; " + " | ".join(lines) + f"; entries that saw finalized data: {r['bad_use']}; "
            f"unraisable exceptions: {r['unraisable']}")[:4000]


def plain(c):
    if client.is_client(c):
        return client.plain(c)
    return {k: v for k, v in c.items() if k not in ("enumerate_async", "async_offset")}


def shrink(c, fails):
    """greedy; `fails(list of cases) -> list of bool`"""
    if client.is_client(c):
        return client.shrink(c, fails)
    cur = copy.deepcopy(plain(c))
    if is_ctor(c):
        dflt = ctor_case(cur["kind"], cur["fault"])
        for f in ("nexts", "custom_pad", "pad", "cache", "loops", "total", "n"):
            if cur.get(f) != dflt[f]:
                cand = dict(cur, **{f: dflt[f]})
                if fails([cand])[0]:
                    cur = cand
        if cur.get("async") is not None:
            k = cur["async"]
            cands = [dict(cur, **{"async": j}) for j in range(1, k)]
            if cands:
                hit = next((d for d, v in zip(cands, fails(cands)) if v), None)
                cur = hit or cur
        return cur
    # nest: drop script steps (keeping tclose / trelease paired), then faults, then children
    for _ in range(8):
        cands = []
        for k in reversed(range(len(cur["script"]))):
            d = copy.deepcopy(cur)
            s = d["script"].pop(k)
            if s[0] == "tclose":
                d["script"] = [x for x in d["script"] if x[0] != "trelease"]
            elif s[0] == "trelease":
                continue
            cands.append(d)
        if cur.get("rfaults"):
            cands.append(dict(copy.deepcopy(cur), rfaults={}))
        for i, nd in enumerate(cur["nodes"]):
            if any(x[0] == "tclose" for x in cur["script"]):
                break  # the gate may sit in a child's finalizer
            for j in range(len(nd["kids"])):
                d = copy.deepcopy(cur)
                del d["nodes"][i]["kids"][j]
                cands.append(d)
        if not cands:
            break
        hit = next((d for d, v in zip(cands, fails(cands)) if v), None)
        if hit is None:
            break
        cur = hit
    return cur


def histogram(h, nontrivial, variants, obs, signature):
    def inc(k, v):
        v = str(v)
        h.setdefault(k, {})
        h[k][v] = h[k].get(v, 0) + 1

    client.histogram(h, nontrivial, variants, obs, signature)
    for c, r in zip(variants, obs):
        if is_ctor(c):
            inc("family", "ctor")
            inc("ctor_constructor", c["kind"])
            inc("ctor_fault", (c.get("fault") or "none") + ("+async" if c.get("async") is not None else ""))
            inc("ctor_ended", "returned" if r["completed"] else "raised " + (EXC[r["exc"]] if r["exc"] is not None and r["exc"] < len(EXC) else "other"))
            o = r["obj"]
            inc("ctor_object_left_behind", "none" if o is None else
                f"_closed={o[0]} gen={o[1]} _render_data={o[2]} _finalize_data={o[3]}")
            if r.get("where"):
                inc("ctor_async_hit_in", r["where"][2])
            if not r["completed"] and o is not None and o[1] == 3:
                h["ctor_failed_while_priming"] = h.get("ctor_failed_while_priming", 0) + 1
                nontrivial.add(signature(c))
            if c["kind"] == "frd_keep" and r["drop_calls"] == 0:
                h["ctor_kept_data_untouched"] = h.get("ctor_kept_data_untouched", 0) + 1
        elif is_nest(c):
            inc("family", "nest")
            nobj = len(r["bodies"])
            inc("nest_objects", nobj if nobj < 12 else "12+")
            depth = _depth(r["bodies"])
            inc("nest_finalizer_nesting_depth", depth)
            threaded = any(s[0] == "tclose" for s in c["script"])
            inc("nest_threads", 2 if threaded else 1)
            for s in c["script"]:
                inc("nest_steps", s[0])
            for nd in c["nodes"]:
                for k in nd["kids"]:
                    inc("nest_child_mode", k[1])
            for st in r["steps"]:
                if st["out"] == 3:
                    h["nest_timeouts"] = h.get("nest_timeouts", 0) + 1
            h["nest_renders_observed"] = h.get("nest_renders_observed", 0) + r["renders"]
            if depth >= 1 or threaded:
                nontrivial.add(signature(c))


def _depth(bodies):
    memo = {}

    def d(j):
        if j not in memo:
            memo[j] = 0
            memo[j] = 1 + max([d(k) for k in bodies[j]] + [-1]) if bodies[j] else 0
        return memo[j]
    return max([d(j) for j in range(len(bodies))] + [0])
