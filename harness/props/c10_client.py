"""C10, third part of the correspondence (used by props/c10.py through props/c10_life.py): the family

* "client": ALL client code that runs inside RenderIterator.__next__() - not only `_render_`, but also the
  methods of the iterator's padding object (a client `Padding` subclass: `pad`, `get_padded_size`,
  `_get_exact_dimensions_`) and whatever the iterator does to the object `_render_` returned (a non-Frame).
  Histories of next / seek / set_render_size / set_padding / close (+ drop) over the three constructors,
  frame counts {2,3,5,INDEFINITE}, paddings that do / do not change the size; the driver first runs the
  history unfaulted, then once per (method, k, kind): the k-th call of `_render_` / `pad` / `get_padded_size` /
  `_get_exact_dimensions_` raises (7 exception classes, StopIteration) or `_render_` returns a non-Frame,
  FOR ALL k of the history.  Model: model/IterClient.v; judge: model/IterClientTie.v ([kcheck]).

Driver: impl/impl_c10_client.py."""
from __future__ import annotations

import copy

import core

KHEADER = ("From Coq Require Import List.\nImport ListNotations.\n"
           "From TI Require Import model.IterClient model.IterClientTie.\nOpen Scope nat_scope.\n")
CTOR_TEXT = {"init": "RenderIterator(renderable, padding=P0)", "frd_keep": "RenderIterator._from_render_data_(..., P0, finalize=False)",
             "frd_give": "RenderIterator._from_render_data_(..., P0, finalize=True)"}
EXC = ["RuntimeError", "AttributeError", "KeyError", "ValueError", "TypeError", "IndexError", "OSError"]
GARBAGE = ["None", "a tuple", "an int", "a str"]
METHOD = {"render": "_render_", "pad": "Padding.pad", "gps": "Padding.get_padded_size", "ged": "Padding._get_exact_dimensions_"}
N, CL, DR = ["next"], ["close"], ["drop"]
PROBE = [N, ["seek", 0], ["setsize", [1, 2]], ["setpad", [0, 1, 0, 0]], N, CL, N, ["seek", 1]]


def is_client(c):
    return c.get("mode") == "client"


def case(ops, **kw):
    c = {"mode": "client", "kind": "init", "n": 3, "total": 3, "size": [2, 1], "dims": [1, 0, 1, 0],
         "ops": [list(o) for o in ops] + [DR], "faults": {}}
    c.update(kw)
    return c


def corpus():
    out = []
    for kind in ("init", "frd_keep", "frd_give"):
        # every frame is padded; probe suffix after the point where a fault may have ended the iterator
        out.append(case([N, N] + PROBE, kind=kind, enumerate=True))
        # the padding does not change the size (pad() is never called), then one that does is set
        out.append(case([N, ["setpad", [0, 0, 1, 1]], N, N, N] + PROBE[1:4], kind=kind, dims=[0, 0, 0, 0], n=5, enumerate=True))
    out.append(case([N, ["seek", 2], N, ["setsize", [3, 2]], N, N], n=None, total=4, enumerate=True))
    out.append(case([N, N, ["seek", 0], ["setsize", [1, 1]], ["setpad", [0, 0, 0, 0]], N, N, N, ["seek", 0], CL], enumerate=True))
    out.append(case([["setpad", [1, 1, 1, 1]], ["setsize", [3, 3]], N, ["seek", 7], N, N, N], n=2, enumerate=True))
    out.append(case([], enumerate=True))
    return out


def gen(rng, i, quick):
    n = rng.choice([2, 3, 3, 5, None])
    ops = []
    for _ in range(rng.randint(2, 7)):
        k = rng.choices(["next", "seek", "setsize", "setpad", "close"], [55, 12, 12, 15, 6])[0]
        if k == "next":
            ops.append(N)
        elif k == "seek":
            ops.append(["seek", rng.randrange(0, (n or 3) + 1)])
        elif k == "setsize":
            ops.append(["setsize", [rng.randint(1, 3), rng.randint(1, 3)]])
        elif k == "setpad":
            ops.append(["setpad", [0, 0, 0, 0] if rng.random() < 0.3 else [rng.randrange(3) for _ in range(4)]])
        else:
            ops.append(CL)
    if rng.random() < 0.7:
        ops += PROBE[:rng.randint(2, len(PROBE))]
    return case(ops, kind=rng.choices(["init", "frd_keep", "frd_give"], [50, 25, 25])[0], n=n, total=rng.randint(1, 4),
                size=[rng.randint(1, 3), rng.randint(1, 3)],
                dims=[0, 0, 0, 0] if rng.random() < 0.25 else [rng.randrange(3) for _ in range(4)],
                enumerate=True, salt=rng.randrange(84))


# ----------------------------------------------------------------- encoding to Coq


def b(v):
    return "true" if v else "false"


def cres_t(r):
    if r[0] == "val":
        return f"RVal {r[1]}"
    if r[0] == "garbage":
        return "RGarbage"
    if r[0] == "stop":
        return "RStop"
    return f"RRaise {r[1]}"


def op_t(o):
    if o[0] == "next":
        return "Next"
    if o[0] == "seek":
        return f"Seek {o[1]}"
    if o[0] == "setsize":
        return f"SetSize {o[1][0] * 10 + o[1][1]}"
    if o[0] == "close":
        return "Close"
    if o[0] == "drop":
        return "Drop"
    raise AssertionError(o)


ERR = {"finalized": "EFinalized", "value": "EValue", "stopdef": "EStopDefinite", "attr": "EAttr", "genstop": "EGenStop"}


def out_t(x):
    if x[0] == "F":
        return f"OFrame {b(x[1])}"
    if x[0] == "S":
        return "OStop"
    if x[0] == "K":
        return "OOk"
    if x[1] == "client":
        return f"OErr (EClient {x[2]})"
    if x[1] == "other":
        return "OErr (EClient 98)"
    return f"OErr {ERR[x[1]]}"


def kcase_t(c, r):
    ops, pads = [], 0
    for o in c["ops"]:
        if o[0] == "setpad":
            pads += 1
            ops.append(f"SetPadding {pads}")
        else:
            ops.append(op_t(o))
    n = "None" if c["n"] is None else f"(Some {c['n']})"
    return (f"{{| k_n := {n}; k_owns := {b(c['kind'] != 'frd_keep')}; k_pid := {r['start'][0]}; k_rsize := {r['start'][1]}; "
            f"k_padded := {r['start'][2]}; k_script := {core.coq_list(r['script'], lambda e: f'({e[0]}, {e[1]}, {cres_t(e[2])})')}; "
            f"k_ops := [{'; '.join(ops)}]; "
            f"k_obs := {core.coq_list(r['obs'], lambda x: f'({out_t(x[0])}, {x[1]}, {b(x[2])}, {b(x[3])})')}; "
            f"k_fin_end := {r['fin_end']}; k_bad_use := {r['bad_use']} |}}")


def jobs(variants, obs, tag):
    ki = [k for k, v in enumerate(variants) if is_client(v)]
    if not ki:
        return []
    return [((tag + "k", KHEADER, [kcase_t(variants[k], obs[k]) for k in ki], "kcase", "kbad cases",
             max(150, -(-len(ki) // 8))), ki)]


# ----------------------------------------------------------------- reporting


def fault_text(c):
    out = []
    for m, d in (c.get("faults") or {}).items():
        for k, w in d.items():
            what = ("raises " + EXC[w[1]]) if w[0] == "raise" else "raises StopIteration" if w[0] == "stop" \
                else "returns " + GARBAGE[w[1]] + " instead of a Frame"
            out.append(f"call #{k} of {METHOD[m]} {what}")
    return "; ".join(out) or "no fault"


def describe(c):
    n = f"INDEFINITE ({c.get('total')} frames, then StopIteration)" if c["n"] is None else c["n"]
    ops = "; ".join(o[0] + ("" if len(o) == 1 else "(" + ", ".join(map(str, o[1:])) + ")") for o in c["ops"])
    return (f"{CTOR_TEXT[c.get('kind', 'init')]} over a renderable with frames={n}, render size={tuple(c['size'])}, P0 = client Padding "
            f"subclass with exact dimensions {tuple(c['dims'])} (setpad(d) = set_padding(new client padding with dimensions d)); "
            f"client-code fault, calls counted from the end of the constructor: {fault_text(c)}; history: {ops}")


def what_of(c, r):
    rows = []
    for o, x in zip(c["ops"], r["obs"]):
        rows.append(f"{o[0]} -> {' '.join(map(str, x[0]))} [finalizer entries={x[1]} finalized={bool(x[2])} _closed={bool(x[3])}]")
    return ("an exception out of client code run by next() (render / padding / a non-Frame) did not close the iterator / finalize "
            "owned data exactly once, or a closed iterator went on: " + describe(c) + " -> " + " | ".join(rows)
            + f"; finalizer entries in the end (after collection and the owner's finalize()): {r['fin_end']}; client calls entered "
            f"with finalized data: {r['bad_use']}; client calls logged [kind 0 render/1 pad/2 get_padded_size, padding, result]: "
            f"{r['script']}")[:4000]


def plain(c):
    return {k: v for k, v in c.items() if k not in ("enumerate", "salt")}


def shrink(c, fails):
    """greedy: drop operations (the final drop stays); fault positions are call numbers, so a candidate whose fault
    is no longer reached simply does not fail"""
    cur = copy.deepcopy(plain(c))
    for _ in range(10):
        cands = []
        for k in reversed(range(len(cur["ops"]) - 1)):
            d = copy.deepcopy(cur)
            del d["ops"][k]
            cands.append(d)
        if not cands:
            break
        hit = next((d for d, v in zip(cands, fails(cands)) if v), None)
        if hit is None:
            break
        cur = hit
    dflt = case([])
    for f in ("kind", "size", "dims", "total", "n"):
        if cur.get(f) != dflt[f]:
            cand = dict(cur, **{f: dflt[f]})
            if fails([cand])[0]:
                cur = cand
    return cur


def histogram(h, nontrivial, variants, obs, signature):
    def inc(k, v):
        v = str(v)
        h.setdefault(k, {})
        h[k][v] = h[k].get(v, 0) + 1

    for c, r in zip(variants, obs):
        if not is_client(c):
            continue
        inc("family", "client")
        inc("client_constructor", c.get("kind", "init"))
        flt = c.get("faults") or {}
        if not flt:
            inc("client_fault", "none")
        for m, d in flt.items():
            for k, w in d.items():
                inc("client_fault", METHOD[m] + " " + (w[0] if w[0] != "raise" else "raises " + EXC[w[1]]))
                inc("client_fault_position", k if int(k) < 8 else "8+")
        ended = None
        for o, x in zip(c["ops"], r["obs"]):
            if ended:
                h["client_ops_on_ended_iterator"] = h.get("client_ops_on_ended_iterator", 0) + 1
                continue
            if o[0] in ("close", "drop"):
                ended = o[0]
            elif o[0] == "next" and x[0][0] == "S":
                ended = "exhaustion/StopIteration"
            elif o[0] == "next" and x[0][0] == "E":
                ended = "error in next(): " + x[0][1]
            elif x[0][0] == "E" and x[0][1] == "client":
                h["client_control_op_raised_client_error"] = h.get("client_control_op_raised_client_error", 0) + 1
        inc("client_iterator_ended_by", ended)
        hit_non_render = any(e[0] in (1, 2) and e[2][0] != "val" for e in r["script"]) \
            or any(e[0] == 0 and e[2][0] == "garbage" for e in r["script"])
        if hit_non_render:
            h["client_non_render_fault_hit"] = h.get("client_non_render_fault_hit", 0) + 1
            nontrivial.add(signature(c))
