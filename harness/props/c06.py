"""C06 — draw() leaves the picture in place and the cursor on the line below it.

Correspondence: real Renderable.draw() of an instrumented N-frame renderable (new API) and
real BaseImage.draw() of Block / Kitty / ITerm2 images built from in-memory multi-frame GIFs
(old API), standard output on a pty (cursor hiding happens) or a StringIO, `sleep` patched to
zero.  The bytes are lexed; inside Coq (model/DrawTie.v) they are (1) compared token for
token with Draw.draw_stream / Draw.old_draw_stream applied to the frames' own (lexed) render
outputs, and (2) executed by Term.exec / TermScroll.srun from start rows 0, middle and H-1
(forces scrolling) and checked against the final-state predicate (cursor on the row below
the box at column 0, visible, attributes default, protocol clean, scrolled exactly as much
as needed, nothing outside the box touched, every cell of the box showing what the padded
last frame alone shows, and — kitty style — the image placements left on the screen, with
kitty's delete commands interpreted (lib/TermPlace.v), being exactly those of the last
frame: no stale placement of an earlier frame) and the documented size rule (raised <-> rule violated, nothing
written).

Round 4.  (a) The terminal is the ACTIVE TERMINAL: "real_term" cases run the library's real
get_terminal_size() on a pty whose window size is set with TIOCSWINSZ while COLUMNS / LINES in the
environment are absent / equal / larger / smaller / garbage; the model (model/DrawEnv.v) takes the
size from the environment record by its own get_terminal_size, the oracle judges the rule and the
final state against the real window.  (b) Animations ENDED BY Ctrl-C: the k-th write of the
animation raises KeyboardInterrupt after j characters (every kind of write: first frame, later
frames, cursor moves, clearing; j at 0, inside escape sequences / graphics payloads, at the end) or
a sleep between two frames does; the model stream is model/DrawCut.v's, the oracle
model/DrawCutTie.v's executable CutFinal (between two frames: the full final-state predicate
against the last complete frame).

Round 6.  Draws that TALK TO THE TERMINAL (props/c06_tty.py, impl/impl_c06_tty.py, model/DrawQuery.v,
model/DrawQueryTie.v): every case in a fresh process (cold query caches, nothing stubbed) on a pty
whose master side the harness plays as a terminal that ANSWERS the queries draw() makes (colours,
name, cell size) at pipe-synchronised points of each exchange; the screen's stream is what the
master received -- including whatever the line discipline echoed of the replies -- and is judged
like every other draw."""
from __future__ import annotations

import sys
import threading

import core
import lexer
import renderlib as R
from props import c06_tty as TTY

LEVEL = "proof"
EXTRA_TARGETS = ["model/DrawTie.vo", "model/DrawEnv.vo", "model/DrawCutTie.vo", "model/DrawQueryTie.vo"]
HEADER = ("From Coq Require Import List ZArith.\nImport ListNotations.\n"
          "From TI Require Import lib.Term lib.RectCheck model.Padding model.Draw model.DrawTie model.DrawEnv "
          "model.DrawCut model.DrawCutTie.\nOpen Scope Z_scope.\n")
HANDLER = {"new": "[TSgr0]", "block": "[]", "kitty": "[TSt; TSt; TKittyEnd]", "iterm2": "[TSt; TSt]"}
FILL_T = {"space": "(Some GSpace)", "star": "(Some (GOther 42))", "empty": "None"}


def b(x):
    return "true" if x else "false"


def zz(n):
    return core.z(n).replace("%Z", "")


# ------------------------------------------------------------------ generation


def gen_padding(rng, w, h, tw, th, exceed=0.04):
    if rng.random() < 0.45:
        return {"kind": "exact", "l": rng.choice([0, 0, 1, 2]), "t": rng.choice([0, 0, 1, 2]),
                "r": rng.choice([0, 0, 1, 2]), "b": rng.choice([0, 0, 1, 2, 3])}

    def dim(x, t):
        r = rng.random()
        if r < 0.5:
            return max(1, x + rng.randint(-1, 3))
        if r < 0.65:
            return 0
        if r < 0.65 + exceed:
            return t + rng.randint(1, 2)
        return -rng.randint(0, 3)
    return {"kind": "aligned", "W": dim(w, tw), "H": dim(h, th), "ha": rng.randrange(3), "va": rng.randrange(3)}


def gen_new(rng):
    tw, th = rng.randint(7, 14), rng.randint(5, 10)
    r = rng.random()
    w = rng.randint(1, 5) if r > 0.03 else tw + 1
    h = rng.randint(1, 4) if rng.random() > 0.03 else th + rng.randint(1, 2)
    n = rng.choice([1, 2, 2, 3, 4])
    c = {"api": "new", "term_size": [tw, th], "size": [w, h], "frames": n,
         "frame_kind": rng.choice(["text", "block", "gfx"]), "seed": rng.randrange(100),
         "padding": gen_padding(rng, w, h, tw, th), "fill": rng.choice(["space", "space", "star", "empty"]),
         "animate": rng.random() < 0.8, "loops": rng.randint(1, 3), "cache": rng.choice([True, False, 2]),
         "check_size": rng.random() < 0.75, "allow_scroll": rng.random() < 0.35,
         "hide_cursor": rng.random() < 0.8, "tty": rng.random() < 0.7,
         "clear": rng.choice(["", "", "ech"])}
    return c


def gen_old(rng):
    tw, th = rng.randint(7, 14), rng.randint(5, 10)
    style = rng.choice(["block", "block", "kitty", "iterm2"])
    n = rng.choice([1, 2, 2, 3, 4])
    w, h = rng.randint(1, 5), rng.randint(1, 3)
    c = {"api": "old", "style": style, "term_size": [tw, th],
         "img": {"n_frames": n, "size": [rng.randint(2, 5), rng.randint(2, 5)], "seed": rng.randrange(100)},
         "cells": [w, h], "ha": rng.randrange(3), "va": rng.randrange(3), "pres": rng.randrange(6),
         "animate": rng.random() < 0.85, "repeat": rng.randint(1, 3), "cached": rng.choice([True, False, 2]),
         "scroll": rng.random() < 0.3, "check_size": rng.random() < 0.75, "tty": rng.random() < 0.7, "args": {}}

    def dim(x, t):
        r = rng.random()
        if r < 0.5:
            return max(1, x + rng.randint(-1, 3))
        if r < 0.65:
            return 0
        if r < 0.69:
            return t + rng.randint(1, 2)
        return -rng.randint(0, 3)
    c["pad"] = [dim(w, tw), dim(h, th)]
    r = rng.random()
    if r < 0.04:
        c["force_size"] = [tw + 1, h]
    elif r < 0.08:
        c["force_size"] = [w, th + rng.randint(1, 2)]
    elif r < 0.16:
        c["cells"] = None  # dynamic size
    if style == "kitty":
        c["kitty_version"] = rng.choice([[0, 25, 0], [0, 20, 1], [0, 24, 9], [0, 30, 0], [0, 25, 1], [1, 0, 0]])
        if rng.random() < 0.8:
            c["args"]["method"] = rng.choice(["lines", "whole", "LINES", "Whole"])
        if rng.random() < 0.35:
            c["args"]["mix"] = rng.random() < 0.8
        if rng.random() < 0.55:  # a z-index of the caller's: default, small, negative, the extremes
            c["args"]["z_index"] = rng.choice([0, 1, 5, -1, -7, 2**31 - 1, -(2**31) + 1, rng.randint(-1000, 1000)])
        if rng.random() < 0.3:
            c["args"]["compress"] = rng.choice([0, 1, 4, 9])
    elif style == "iterm2":
        c["term"] = rng.choice(["wezterm", "wezterm", "konsole", "iterm2"])
        if rng.random() < 0.8:
            c["args"]["method"] = rng.choice(["lines", "whole", "LINES", "Whole"])
        if rng.random() < 0.35:
            c["args"]["mix"] = rng.random() < 0.8
        if rng.random() < 0.3:
            c["args"]["compress"] = rng.choice([0, 1, 4, 9])
    return c


ENV_KINDS = ["absent", "equal", "larger", "smaller", "columns-only", "lines-only", "garbage", "zero"]


def env_of(kind, W, H, rng=None):
    """COLUMNS / LINES of the process environment relative to the real W x H window"""
    up = (rng.randint(1, 40), rng.randint(1, 30)) if rng else (7, 5)
    if kind == "absent":
        return {"COLUMNS": None, "LINES": None}
    if kind == "equal":
        return {"COLUMNS": str(W), "LINES": str(H)}
    if kind == "larger":
        return {"COLUMNS": str(W + up[0]), "LINES": str(H + up[1])}
    if kind == "smaller":
        return {"COLUMNS": str(max(1, W - 2)), "LINES": str(max(1, H - 2))}
    if kind == "columns-only":
        return {"COLUMNS": str(W + up[0]), "LINES": None}
    if kind == "lines-only":
        return {"COLUMNS": None, "LINES": str(H + up[1])}
    if kind == "garbage":
        return {"COLUMNS": "wide", "LINES": ""}
    return {"COLUMNS": "0", "LINES": "-3"}


def with_real_term(c, kind, rng=None):
    W, H = c["term_size"]
    c = dict(c)
    c["real_term"] = {"window": [W, H], "env": env_of(kind, W, H, rng), "kind": kind}
    return c


def gen_real(rng):
    c = gen_new(rng) if rng.random() < 0.5 else gen_old(rng)
    return with_real_term(c, rng.choice(ENV_KINDS[1:4] * 3 + ENV_KINDS), rng)


def real_term_grid(quick):
    """sizes around the REAL window under every relation of the environment variables to it: both
    APIs, still and animated, padded / rendered width and height at window - 1, window, window + 1"""
    cs = []
    kinds = ["larger", "smaller", "absent", "equal"] if quick else ENV_KINDS
    for kind in kinds:
        deltas = (0, 1) if quick and kind in ("absent", "equal") else (-1, 0, 1)
        for frames in (1, 2):
            for axis in "wh":
                for delta in deltas:
                    tw, th = 6, 4
                    pad = ({"kind": "exact", "l": 0, "t": 0, "r": 0, "b": th + delta - 1} if axis == "h"
                           else {"kind": "exact", "l": 0, "t": 0, "r": tw + delta - 2, "b": 0})
                    cs.append(with_real_term(
                        {"api": "new", "term_size": [tw, th], "size": [2, 1], "frames": frames, "frame_kind": "text",
                         "seed": frames, "padding": pad, "fill": "space", "animate": True, "loops": 1, "cache": False,
                         "check_size": True, "allow_scroll": False, "tty": (delta + frames) % 2 == 0, "grid": True}, kind))
                    tw, th = 8, 5
                    size = [2, th + delta] if axis == "h" else [tw + delta, 1]
                    cs.append(with_real_term(
                        {"api": "old", "style": "block", "term_size": [tw, th], "img": {"n_frames": frames, "size": [2, 2], "seed": frames},
                         "cells": [2, 1], "force_size": size, "pad": [1, 1], "ha": 0, "va": 0, "animate": True, "repeat": 1,
                         "cached": False, "scroll": False, "check_size": True, "tty": (delta + frames) % 2 == 1,
                         "args": {}, "grid": True}, kind))
        # relative padding is resolved against the same size; pad_width / pad_height validation
        cs.append(with_real_term(
            {"api": "new", "term_size": [9, 7], "size": [3, 2], "frames": 2, "frame_kind": "text", "seed": 4,
             "padding": {"kind": "aligned", "W": 0, "H": -2, "ha": 1, "va": 1}, "fill": "star", "loops": 1, "tty": True}, kind))
        cs.append(with_real_term(
            {"api": "old", "style": "block", "term_size": [10, 8], "img": {"n_frames": 2, "size": [4, 4], "seed": 1},
             "cells": [4, 2], "pad": [0, -1], "ha": 2, "va": 2, "repeat": 1, "tty": True, "args": {}}, kind))
        cs.append(with_real_term(
            {"api": "old", "style": "block", "term_size": [10, 8], "img": {"n_frames": 2, "size": [4, 4], "seed": 1},
             "cells": [4, 2], "pad": [11, 9], "ha": 0, "va": 0, "repeat": 1, "check_size": False, "scroll": True,
             "tty": False, "args": {}}, kind))
    return cs


def gen_cut(rng):
    """an accepted animation and an interruption point"""
    if rng.random() < 0.5:
        c = gen_new(rng)
        c["frames"] = rng.choice([2, 2, 3, 4])
        c["size"] = [rng.randint(1, 5), rng.randint(1, 4)]
        c["padding"] = gen_padding(rng, c["size"][0], c["size"][1], *c["term_size"], exceed=0.0)
        c["animate"] = True
    else:
        c = gen_old(rng)
        c["img"]["n_frames"] = rng.choice([2, 2, 3, 4])
        c["animate"] = True
        c.pop("force_size", None)
        W, H = c["pad"]
        c["pad"] = [min(W, c["term_size"][0]), min(H, c["term_size"][1])]
    c["tty"] = rng.random() < 0.8
    it = {"sel": rng.randrange(64)}
    r = rng.random()
    if r < 0.2:
        it["between"] = True
    elif r < 0.3:
        it["j"] = 0
    elif r < 0.4:
        it["frac"] = [1, 1]
    elif r < 0.5:
        it["j"] = rng.randint(1, 12)   # inside the first escape sequences / the first line
    else:
        den = rng.choice([2, 3, 5, 7, 11, 97])
        it["frac"] = [rng.randint(1, den - 1), den]
    c["interrupt"] = it
    return c


def cut_corpus(quick):
    """every kind of interruption point, both APIs, every style's handler: the first frame (cut
    inside a graphics payload, inside the key list, inside a CSI, at 0 and at the end), the cursor
    moves, the clearing write, later frames, between frames"""
    cs = []
    ex = {"kind": "exact", "l": 1, "t": 1, "r": 0, "b": 2}
    fracs = [{"j": 0}, {"frac": [1, 2]}, {"frac": [1, 1]}] if quick else \
        [{"j": 0}, {"j": 1}, {"j": 3}, {"frac": [1, 4]}, {"frac": [1, 2]}, {"frac": [5, 7]}, {"frac": [1, 1]}]
    for kind, clear in (("block", ""), ("text", "ech"), ("gfx", "")):
        nw = 2 + 2 * (3 if clear else 2)
        for k in range(nw):
            for f in (fracs if kind == "block" or not quick else fracs[1:2]):
                cs.append({"api": "new", "term_size": [9, 7], "size": [3, 2], "frames": 3, "frame_kind": kind, "seed": 1,
                           "padding": ex, "fill": "star", "animate": True, "loops": 1, "cache": False, "tty": k % 3 != 2,
                           "hide_cursor": k % 4 != 3, "clear": clear, "interrupt": dict(sel=k, **f)})
        for n in (0, 1, 2):
            cs.append({"api": "new", "term_size": [9, 7], "size": [3, 2], "frames": 3, "frame_kind": kind, "seed": 1,
                       "padding": ex, "fill": "star", "animate": True, "loops": 1, "tty": True, "clear": clear,
                       "interrupt": {"sel": n, "between": True}})
    blk = {"n_frames": 3, "size": [4, 4], "seed": 1}
    olds = [("block", {}, {}), ("kitty", {"kitty_version": [0, 30, 0]}, {"method": "lines"}),
            ("kitty", {"kitty_version": [0, 25, 0]}, {"method": "whole"}),
            ("iterm2", {"term": "konsole"}, {"method": "lines"}), ("iterm2", {"term": "wezterm"}, {"method": "whole"})]
    for style, extra, args in olds:
        nw = 2 + 2 * (3 if extra.get("kitty_version") == [0, 25, 0] else 2)
        for k in range(nw):
            for f in (fracs if k in (0, 2, 3) or not quick else fracs[1:2]):
                c = {"api": "old", "style": style, "term_size": [10, 8], "img": blk, "cells": [2, 2], "pad": [4, 3],
                     "ha": 1, "va": 0 if k % 2 else 1, "repeat": 1, "cached": False, "tty": k % 3 != 2, "args": dict(args),
                     "interrupt": dict(sel=k, **f)}
                c.update(extra)
                cs.append(c)
        for n in (0, 1):
            c = {"api": "old", "style": style, "term_size": [10, 8], "img": blk, "cells": [2, 2], "pad": [4, 3],
                 "ha": 1, "va": 1, "repeat": 1, "tty": True, "args": dict(args), "interrupt": {"sel": n, "between": True}}
            c.update(extra)
            cs.append(c)
    return cs


def corpus():
    cs = []
    ex = {"kind": "exact", "l": 1, "t": 1, "r": 0, "b": 2}
    for n, loops in ((1, 1), (2, 1), (3, 2), (4, 3)):
        for tty in (True, False):
            cs.append({"api": "new", "term_size": [9, 7], "size": [3, 2], "frames": n, "frame_kind": "text", "seed": 1,
                       "padding": ex, "fill": "star", "animate": True, "loops": loops, "cache": loops != 2,
                       "tty": tty, "clear": "ech" if n == 3 else ""})
    # bottom-heavy padding, one-line render, full-height box, full-width box
    cs.append({"api": "new", "term_size": [9, 7], "size": [3, 1], "frames": 2, "frame_kind": "block", "seed": 2,
               "padding": {"kind": "exact", "l": 0, "t": 0, "r": 0, "b": 3}, "fill": "space", "loops": 1, "tty": True})
    cs.append({"api": "new", "term_size": [9, 7], "size": [9, 7], "frames": 2, "frame_kind": "gfx", "seed": 3,
               "padding": {"kind": "aligned", "W": 0, "H": 0, "ha": 1, "va": 1}, "fill": "space", "loops": 1, "tty": True})
    cs.append({"api": "new", "term_size": [9, 7], "size": [3, 2], "frames": 2, "frame_kind": "text", "seed": 4,
               "padding": {"kind": "aligned", "W": 0, "H": -2, "ha": 1, "va": 1}, "fill": "empty", "loops": 1, "tty": True})
    # rejected: padded width, padded height (animation ignores allow_scroll), still with allow_scroll accepted
    cs.append({"api": "new", "term_size": [9, 7], "size": [3, 2], "frames": 2, "frame_kind": "text", "seed": 5,
               "padding": {"kind": "aligned", "W": 10, "H": 1, "ha": 0, "va": 0}, "fill": "space", "tty": True})
    cs.append({"api": "new", "term_size": [9, 7], "size": [3, 2], "frames": 2, "frame_kind": "text", "seed": 6,
               "padding": {"kind": "exact", "l": 0, "t": 3, "r": 0, "b": 3}, "fill": "space", "allow_scroll": True, "tty": True})
    cs.append({"api": "new", "term_size": [9, 7], "size": [3, 2], "frames": 1, "frame_kind": "text", "seed": 7,
               "padding": {"kind": "exact", "l": 0, "t": 3, "r": 0, "b": 3}, "fill": "space", "allow_scroll": True, "tty": True})
    cs.append({"api": "new", "term_size": [9, 7], "size": [3, 2], "frames": 1, "frame_kind": "text", "seed": 8,
               "padding": {"kind": "exact", "l": 4, "t": 0, "r": 4, "b": 0}, "fill": "space", "check_size": False, "tty": False})
    # old API: the F5 shapes first (one-line box; multi-line box; wezterm pre-erase with vertical padding)
    blk = {"n_frames": 3, "size": [4, 4], "seed": 1}
    cs.append({"api": "old", "style": "block", "term_size": [10, 8], "img": blk, "cells": [2, 1], "pad": [2, 1],
               "ha": 1, "va": 1, "repeat": 1, "tty": True, "args": {}})
    cs.append({"api": "old", "style": "block", "term_size": [10, 8], "img": blk, "cells": [4, 2], "pad": [6, 4],
               "ha": 1, "va": 1, "repeat": 2, "cached": False, "tty": True, "args": {}})
    cs.append({"api": "old", "style": "iterm2", "term": "wezterm", "term_size": [10, 8], "img": blk, "cells": [2, 1],
               "pad": [4, 3], "ha": 2, "va": 2, "repeat": 1, "tty": True, "args": {"method": "lines"}})
    cs.append({"api": "old", "style": "iterm2", "term": "wezterm", "term_size": [10, 8], "img": blk, "cells": [2, 2],
               "pad": [2, 2], "ha": 0, "va": 0, "repeat": 1, "tty": False, "args": {"method": "whole"}})
    cs.append({"api": "old", "style": "kitty", "kitty_version": [0, 25, 0], "term_size": [10, 8], "img": blk, "cells": [2, 2],
               "pad": [4, 3], "ha": 1, "va": 0, "repeat": 2, "cached": True, "tty": True, "args": {"method": "whole"}})
    cs.append({"api": "old", "style": "kitty", "kitty_version": [0, 30, 0], "term_size": [10, 8], "img": blk, "cells": [2, 2],
               "pad": [2, 2], "ha": 1, "va": 0, "repeat": 1, "tty": True, "args": {"method": "lines"}})
    # the caller's z_index must not reach the frames of a kitty animation (the clearing of
    # kitty <= 0.25.0 deletes the animation z-index only); versions on both sides of 0.25.0
    for ver in ([0, 25, 0], [0, 20, 1], [0, 25, 1], [0, 35, 2]):
        for args in ({"z_index": 5}, {"z_index": -1, "mix": True}, {"z_index": 2**31 - 1, "method": "whole"},
                     {"z_index": -(2**31) + 1, "method": "lines", "compress": 0}):
            cs.append({"api": "old", "style": "kitty", "kitty_version": ver, "term_size": [10, 8], "img": blk,
                       "cells": [2, 2], "pad": [4, 3], "ha": 1, "va": 1, "repeat": 2, "cached": ver[1] != 25,
                       "tty": True, "args": dict(args)})
    cs.append({"api": "old", "style": "kitty", "kitty_version": [0, 25, 0], "term_size": [10, 8],
               "img": {"n_frames": 1, "size": [4, 4], "seed": 3}, "cells": [2, 2], "pad": [4, 3], "ha": 1, "va": 1,
               "tty": True, "args": {"z_index": 5}})
    for term in ("wezterm", "konsole", "iterm2"):
        cs.append({"api": "old", "style": "iterm2", "term": term, "term_size": [10, 8], "img": blk, "cells": [2, 2],
                   "pad": [4, 3], "ha": 1, "va": 1, "repeat": 2, "tty": True,
                   "args": {"method": "whole", "mix": term != "wezterm", "compress": 9}})
    one = {"n_frames": 1, "size": [4, 4], "seed": 2}
    cs.append({"api": "old", "style": "block", "term_size": [10, 8], "img": one, "cells": [4, 2], "pad": [6, 4],
               "ha": 0, "va": 2, "tty": True, "args": {}})
    cs.append({"api": "old", "style": "block", "term_size": [10, 8], "img": one, "cells": [4, 2], "pad": [11, 4],
               "ha": 0, "va": 2, "tty": True, "args": {}})
    cs.append({"api": "old", "style": "block", "term_size": [10, 8], "img": blk, "cells": [4, 2], "pad": [4, 9],
               "ha": 0, "va": 2, "tty": True, "args": {}})
    cs.append({"api": "old", "style": "block", "term_size": [10, 8], "img": one, "cells": [4, 2], "force_size": [4, 9],
               "pad": [4, 2], "ha": 0, "va": 2, "scroll": True, "tty": False, "args": {}})
    cs.append({"api": "old", "style": "block", "term_size": [10, 8], "img": blk, "cells": [4, 2], "force_size": [4, 9],
               "pad": [4, 2], "ha": 0, "va": 2, "scroll": True, "tty": False, "args": {}})
    cs += size_rule_grid()
    return cs


def size_rule_grid():
    """The size rules are decision tables: every row of them is exercised on every run.
    New API: {non-animated, animated renderable} x animate x check_size x allow_scroll x
    padded height / padded width in {terminal - 1, terminal, terminal + 1}.
    Old API: {still, animated image} x animate x check_size x scroll x rendered height /
    rendered width likewise (sizes forced the test-suite's way), pad_height / pad_width at
    and above the terminal size."""
    cs = []
    tw, th = 6, 4
    for frames in (1, 2):
        for animate in (True, False):
            for check_size in (True, False):
                for allow_scroll in (True, False):
                    for axis, delta in [("h", -1), ("h", 0), ("h", 1), ("w", -1), ("w", 0), ("w", 1)]:
                        pad = ({"kind": "exact", "l": 0, "t": 0, "r": 0, "b": th + delta - 1} if axis == "h"
                               else {"kind": "exact", "l": 0, "t": 0, "r": tw + delta - 2, "b": 0})
                        cs.append({"api": "new", "term_size": [tw, th], "size": [2, 1], "frames": frames,
                                   "frame_kind": "text", "seed": frames, "padding": pad, "fill": "space",
                                   "animate": animate, "loops": 1, "cache": False, "check_size": check_size,
                                   "allow_scroll": allow_scroll, "tty": False, "grid": True})
    tw, th = 8, 5
    for n in (1, 2):
        img = {"n_frames": n, "size": [2, 2], "seed": n}
        for animate in (True, False):
            for check_size in (True, False):
                for scroll in (True, False):
                    for axis, delta in [("h", -1), ("h", 0), ("h", 1), ("w", -1), ("w", 0), ("w", 1)]:
                        size = [2, th + delta] if axis == "h" else [tw + delta, 1]
                        cs.append({"api": "old", "style": "block", "term_size": [tw, th], "img": img, "cells": [2, 1],
                                   "force_size": size, "pad": [1, 1], "ha": 0, "va": 0, "animate": animate,
                                   "repeat": 1, "cached": False, "scroll": scroll, "check_size": check_size,
                                   "tty": False, "args": {}, "grid": True})
            # padding size validation: pad_width always, pad_height for animations only
            for pad in ([tw, 1], [tw + 1, 1], [1, th], [1, th + 1]):
                cs.append({"api": "old", "style": "block", "term_size": [tw, th], "img": img, "cells": [2, 1],
                           "pad": pad, "ha": 0, "va": 0, "animate": animate, "repeat": 1, "cached": False,
                           "check_size": False, "scroll": True, "tty": False, "args": {}, "grid": True})
    return cs


# ------------------------------------------------------------------ encoding


def toks(s):
    return R.strip_payload(lexer.lex(s))


def frames_of(c, r):
    """(animation flag, frame token lists as the model is given them)"""
    if c["api"] == "new":
        anim = bool(c.get("animate", True)) and c["frames"] > 1
        base = [toks(f) for f in r["frames"]]
        if anim:
            return anim, base * c.get("loops", 1)
        return anim, base[:1]
    anim = bool(c.get("animate", True)) and c["img"]["n_frames"] > 1
    rec = [toks(f) for f in r.get("frames", [])]
    if not rec:
        return anim, []
    if anim:
        n = c["img"]["n_frames"]
        return anim, rec[:n] * c.get("repeat", 1)
    return anim, rec[:1]


def is_wez(c):
    return c.get("style") == "iterm2" and c.get("term") == "wezterm" and not c.get("args", {}).get("mix", False)


def env_term(c):
    rt = c["real_term"]
    W, H = rt["window"]

    def var(v):
        try:
            return f"(Some {zz(int(v))})"
        except (TypeError, ValueError):
            return "None"
    so = f"(Some ({W}, {H}))" if c.get("tty", True) else "None"
    return (f"{{| e_window := Some ({W}, {H}); e_columns := {var(rt['env'].get('COLUMNS'))}; "
            f"e_lines := {var(rt['env'].get('LINES'))}; e_stdout := {so} |}}")


def cut_point(c, r):
    """(Coq term of the interruption point, tokens delivered before the exception, tokens
    written after it, description)"""
    cut = r["cut"]
    out = r["out"]
    d = cut["delivered"]
    tp, tq = toks(out[:d]), toks(out[d:])
    new = c["api"] == "new"
    if cut["between"]:
        n = cut["sleep"]
        pt = f"PNew (IBetween {n - 1})" if new else f"POld (OBetween {n})"
        return pt, tp, tq, f"between frames (sleep call {n})"
    part = toks(cut["part"])
    ck = "None"
    if part and part[-1][0] == "cut":
        ck = "(Some " + {"csi": "CutCsi", "osc": "CutOsc", "apc": "CutApc"}[part[-1][1]] + ")"
        part = part[:-1]
    j = len(part)
    k = cut["k"]
    if new:
        has_clear = bool(r.get("clear"))
        per = 3 if has_clear else 2
        if k == 0:
            name, pt = "first frame", f"IFirst {j} {ck}"
        elif k == 1:
            name, pt = "cursor move after the first frame", f"ITop1 {j} {ck}"
        else:
            m, rr = divmod(k - 2, per)
            which = (["IClear", "IFrame", "ITop"] if has_clear else ["IFrame", "ITop"])[rr]
            name, pt = f"{which} of later frame {m}", f"{which} {m} {j} {ck}"
        pt = f"PNew ({pt})"
    else:
        has_clear = c["style"] == "kitty" and tuple(c.get("kitty_version", (0, 30, 0))) <= (0, 25, 0)
        per = 3 if has_clear else 2
        if k < 2:
            m, which = 0, ["OFrame", "OTop"][k]
        else:
            q, rr = divmod(k - 2, per)
            m, which = q + 1, (["OClear", "OFrame", "OTop"] if has_clear else ["OFrame", "OTop"])[rr]
        name, pt = f"{which} of frame {m}", f"POld ({which} {m} {j} {ck})"
    return pt, tp, tq, f"write {k} ({name}) cut after {cut['j']} of {cut['len']} characters = {j} tokens, cut kind {ck}"


def icase_term(c, r):
    pt, tp, tq, _ = cut_point(c, r)
    hnd = HANDLER["new" if c["api"] == "new" else c["style"]]
    return (f"{{| i_c := {case_term(c, r, obs=tp + tq)}; i_pt := {pt}; i_np := {len(tp)}%nat; i_hnd := {hnd} |}}")


def case_term(c, r, obs=None, env=False):
    tw, th = (0, 0) if env else c["term_size"]
    anim, frames = frames_of(c, r)
    if c["api"] == "new":
        p = c["padding"]
        if p["kind"] == "aligned":
            kind = f"DAligned {zz(p['W'])} {zz(p['H'])} {p['ha']}%nat {p['va']}%nat"
        else:
            kind = f"DExact {p['l']} {p['t']} {p['r']} {p['b']}"
        w, h = c["size"]
        hide = c.get("hide_cursor", True) and c.get("tty", True)
        scroll = c.get("allow_scroll", False)
        fill = FILL_T[c.get("fill", "space")]
        clear = toks(r.get("clear", ""))
        dyn = oldk = wez = False
    else:
        W, H = c["pad"]
        kind = f"DOld {zz(W)} {zz(H)} {c['ha']}%nat {c['va']}%nat"
        w, h = r["size"]
        hide = c.get("tty", True)
        scroll = c.get("scroll", False)
        fill, clear = "None", []
        dyn = c.get("cells") is None and not c.get("force_size")
        oldk = c["style"] == "kitty" and tuple(c.get("kitty_version", (0, 30, 0))) <= (0, 25, 0)
        wez = is_wez(c) and anim
    rh = c["term_size"][1]
    rows = sorted({0, rh // 2, rh - 1})
    return ("{| " + "; ".join([
        f"d_kind := {kind}", f"d_tw := {tw}", f"d_th := {th}", f"d_cs := {b(c.get('check_size', True))}",
        f"d_scroll := {b(scroll)}", f"d_anim := {b(anim)}", f"d_hide := {b(hide)}", f"d_dyn := {b(dyn)}",
        f"d_fill := {fill}", f"d_w := {w}", f"d_h := {h}", f"d_clear := {lexer.coq_toks(clear)}",
        f"d_oldk := {b(oldk)}", f"d_wez := {b(wez)}", f"d_kitty := {b(c.get('style') == 'kitty')}",
        "d_frames := " + core.coq_list(frames, lexer.coq_toks),
        f"d_obs := {lexer.coq_toks(toks(r['out']) if obs is None else obs)}", f"d_raised := {b(r['raised'] == 1)}",
        "d_rows := " + core.coq_list(rows)]) + " |}")


def describe(c):
    return describe0(c) + describe_r4(c)


def describe_r4(c):
    s = ""
    if c.get("real_term"):
        rt = c["real_term"]
        s += f" REAL terminal window={rt['window']} environment={rt['env']}"
    if c.get("interrupt"):
        s += f" interrupt={c['interrupt']}"
    return s


def describe0(c):
    if c["api"] == "new":
        return (f"new API: size={c['size']} frames={c['frames']}({c['frame_kind']}) loops={c.get('loops', 1)} cache={c.get('cache')} "
                f"animate={c.get('animate', True)} padding={c['padding']} fill={c.get('fill')} term={c['term_size']} "
                f"check_size={c.get('check_size', True)} allow_scroll={c.get('allow_scroll', False)} "
                f"hide_cursor={c.get('hide_cursor', True)} tty={c.get('tty', True)} clear={c.get('clear', '')!r}")
    return (f"old API: {c['style']} cells={c.get('cells')} force_size={c.get('force_size')} frames={c['img']['n_frames']} "
            f"repeat={c.get('repeat')} cached={c.get('cached')} animate={c.get('animate', True)} pad={c['pad']} "
            f"align=({c['ha']},{c['va']}) term={c['term_size']} name={c.get('term', '')!r} kitty={c.get('kitty_version')} "
            f"args={c.get('args')} scroll={c.get('scroll', False)} check_size={c.get('check_size', True)} tty={c.get('tty', True)}")


def explain(c, r):
    if r.get("cut"):
        term = f"iexplain ({icase_term(c, r)})"
    elif c.get("real_term"):
        term = f"explain (env_case ({env_term(c)}) ({case_term(c, r, env=True)}))"
    else:
        term = f"explain ({case_term(c, r)})"
    text = HEADER + f"Set Printing Width 100000.\nEval vm_compute in ({term}).\n"
    rc, out = core.coq_eval_file(f"c06_explain_{id(c)}", text)
    vals = core.parse_evals(out)
    return vals[0][:900] if vals else out[-300:]


def failure_class(c, r):
    """Stable signature of the class of a failing input."""
    if c["api"] == "new":
        anim = bool(c.get("animate", True)) and c["frames"] > 1
    else:
        anim = bool(c.get("animate", True)) and c["img"]["n_frames"] > 1
    if c["api"] == "new":
        p = c["padding"]
        return ["new", "anim" if anim else "still", c["frame_kind"], p["kind"], c.get("fill"), bool(c.get("tty", True))]
    W, H = c["pad"]
    h = (r.get("size") or [0, 0])[1]
    th = c["term_size"][1]
    lines = max(H if H > 0 else max(th + H, 1), h)
    cls = ["old", "anim" if anim else "still", "one-line-box" if lines == 1 else "multi-line-box",
           "wezterm-pre-erase" + ("-vpad" if lines > h else "") if (is_wez(c) and anim) else "no-pre-erase"]
    if c["style"] == "kitty":
        cls.append("kitty<=0.25.0" if tuple(c.get("kitty_version", (0, 30, 0))) <= (0, 25, 0) else "kitty>0.25.0")
        cls.append("z_index given" if c.get("args", {}).get("z_index", 0) != 0 else "default z_index")
    return cls


def run(ctx):
    rng = ctx.rng
    tty_cases = []
    if ctx.replay:
        cases = [ctx.replay["replay"]["case"]]
        if cases[0].get("term_io"):
            tty_cases, cases = cases, []
    else:
        n = 100 if ctx.quick else 2500
        cases = corpus() + real_term_grid(ctx.quick) + cut_corpus(ctx.quick)
        for _ in range(n):
            cases.append(gen_new(rng) if rng.random() < 0.5 else gen_old(rng))
        for _ in range(24 if ctx.quick else 700):
            cases.append(gen_real(rng))
        for _ in range(40 if ctx.quick else 1500):
            cases.append(gen_cut(rng))
        # draws that talk to the terminal (fresh process per case, the harness answers the queries)
        tty_cases = TTY.corpus(ctx.quick) + [TTY.gen(rng, sys.modules[__name__]) for _ in range(14 if ctx.quick else 700)]
    import time
    tty_res = {}

    def tty_family():
        try:
            tty_res.update(TTY.run(sys.modules[__name__], tty_cases, ctx.quick))
        except Exception:
            import traceback
            tty_res["errors"] = ["tty family crashed: " + traceback.format_exc()[-1500:]]

    tty_thread = threading.Thread(target=tty_family)
    tty_thread.start()
    t_start = time.time()
    impl = core.run_impl_parallel("impl_c06.py", cases)
    t_impl = time.time() - t_start
    groups = {"plain": ([], []), "env": ([], []), "cut": ([], [])}   # kind -> (terms, owners)
    failures, mismatches, errors = [], [], []
    hist = {"api": {}, "kind": {}, "style": {}, "tty": {}, "frames": {}, "loops": {}, "raised": 0, "accepted": 0, "cache": {}, "style_args": {},
            "kitty": {}, "size_rule_grid": 0, "real_terminal": {}, "real_terminal_raised": 0, "real_terminal_accepted": 0,
            "interrupted": {}, "interrupt_cut_kind": {}, "interrupt_not_applicable": 0}
    distinct = set()
    for i, (c, r) in enumerate(zip(cases, impl)):
        hist["api"][c["api"]] = hist["api"].get(c["api"], 0) + 1
        hist["size_rule_grid"] += bool(c.get("grid"))
        if "error" in r:
            failures.append({"signature": core.sig(["raise", failure_class(c, {"size": [0, 0]}), bool(c.get("interrupt")), bool(c.get("real_term"))]),
                             "what": f"draw() raised {r['error'][:300]} — {describe(c)}", "replay": {"case": c}})
            continue
        try:
            anim, frames = frames_of(c, r)
            if r.get("cut"):
                pt, _, _, _ = cut_point(c, r)
                groups["cut"][0].append(f"ACut ({icase_term(c, r)})")
                groups["cut"][1].append(i)
                pk = pt.split("(")[1].split()[0].rstrip(")") + (" " + c.get("style", c.get("frame_kind")))
                hist["interrupted"][pk] = hist["interrupted"].get(pk, 0) + 1
                ck = "none" if r["cut"]["between"] else ("CutCsi" if "CutCsi" in pt else "CutApc" if "CutApc" in pt else "CutOsc" if "CutOsc" in pt else "token boundary")
                hist["interrupt_cut_kind"][ck] = hist["interrupt_cut_kind"].get(ck, 0) + 1
            elif c.get("real_term"):
                groups["env"][0].append(f"AEnv ({env_term(c)}) ({case_term(c, r, env=True)})")
                groups["env"][1].append(i)
                k = c["real_term"].get("kind", "?")
                hist["real_terminal"][k] = hist["real_terminal"].get(k, 0) + 1
                hist["real_terminal_raised"] += r["raised"] == 1
                hist["real_terminal_accepted"] += r["raised"] == 0
            else:
                hist["interrupt_not_applicable"] += bool(c.get("interrupt"))
                groups["plain"][0].append(f"APlain ({case_term(c, r)})")
                groups["plain"][1].append(i)
        except lexer.LexError as e:
            failures.append({"signature": core.sig(["lex", str(e)[:60]]), "what": f"unlexable output: {e} — {describe(c)}",
                             "replay": {"case": c}})
            continue
        kind = ("anim" if anim else "still")
        hist["kind"][kind] = hist["kind"].get(kind, 0) + 1
        st = c.get("style", c.get("frame_kind"))
        hist["style"][st] = hist["style"].get(st, 0) + 1
        hist["tty"][str(c.get("tty", True))] = hist["tty"].get(str(c.get("tty", True)), 0) + 1
        hist["frames"][len(frames)] = hist["frames"].get(len(frames), 0) + 1
        lp = c.get("loops", c.get("repeat", 1)) if anim else 1
        hist["loops"][lp] = hist["loops"].get(lp, 0) + 1
        ck = str(c.get("cache", c.get("cached", "default")))
        hist["cache"][ck] = hist["cache"].get(ck, 0) + 1
        for k, v in c.get("args", {}).items():
            key = f"{k}={'non-default' if k == 'z_index' and v != 0 else v}"
            hist["style_args"][key] = hist["style_args"].get(key, 0) + 1
        if c.get("style") == "kitty":
            kk = ("<=0.25.0" if tuple(c.get("kitty_version", (0, 30, 0))) <= (0, 25, 0) else ">0.25.0") + (" anim" if anim else " still")
            hist["kitty"][kk] = hist["kitty"].get(kk, 0) + 1
        hist["raised"] += r["raised"] == 1
        hist["accepted"] += r["raised"] == 0
        if r["raised"] == 0 and anim and len(frames) >= 2:
            distinct.add(core.sig([c.get("padding", c.get("pad")), c.get("size", c.get("cells")), st, c["term_size"],
                                   len(frames), c.get("tty", True), c.get("args"), c.get("term"), c.get("kitty_version"),
                                   (c.get("real_term") or {}).get("env"), c.get("interrupt")]))
    # one pool of shards for the three kinds of cases (interleaved: the shards cost about the same)
    terms, owner, gkind = [], [], []
    for gname, (ts, ow) in groups.items():
        terms += ts
        owner += ow
        gkind += [gname] * len(ts)
    order = sorted(range(len(terms)), key=lambda x: (x * 7919) % max(1, len(terms)))
    terms, owner, gkind = [terms[x] for x in order], [owner[x] for x in order], [gkind[x] for x in order]
    t_coq = 0.0
    if terms:
        t_coq0 = time.time()
        bad, errs = core.coq_shards("c06", HEADER, terms, "anycase", "abad cases", shard=16 if ctx.quick else 40)
        t_coq += time.time() - t_coq0
        errors += errs
        for idx, code in bad:
            i = owner[idx]
            gname = gkind[idx]
            c, r = cases[i], impl[i]
            if code & 2:
                why = explain(c, r) if len(failures) < 4 else ""
                if gname == "cut":
                    pt, _, _, where = cut_point(c, r)
                    failures.append({
                        "signature": core.sig(["cut-final", failure_class(c, r), pt.split("(")[1].split()[0].rstrip(")")]),
                        "what": ("an animation ended by KeyboardInterrupt leaves the terminal in a state that violates the property: "
                                 f"{where}; ((box), raised, (first token difference with the model, lengths), per start row (row, clauses "
                                 "[col 0, attributes reset, cursor visible, not inside a sequence / chunked transmission, nothing outside the "
                                 "region touched, cursor row = line below the region + displacement at the interrupt, interrupt inside the "
                                 f"region, scrolling] — between frames the 9 clauses of the uninterrupted predicate —, row at the interrupt, final row)) = {why}) — {describe(c)}"),
                        "replay": {"case": c, "cut": {k: v for k, v in r["cut"].items() if k != "part"}, "output": r.get("out", "")[:3000]}})
                    continue
                extra = ""
                sigl = ["final-state", failure_class(c, r)]
                if gname == "env":
                    rt = c["real_term"]
                    sigl.append("real-terminal " + rt.get("kind", "?"))
                    extra = (f"on a REAL terminal whose window is {rt['window'][0]}x{rt['window'][1]} with {rt['env']} in the environment "
                             f"(the library's get_terminal_size() returned {r.get('seen')}): ")
                failures.append({
                    "signature": core.sig(sigl),
                    "what": (extra + "the output of draw() violates the property ((box, raised, rule holds, (first token difference with the "
                             f"model, lengths), per start row the clauses [row, col, sgr, visible, clean, scroll, inside-box, content, no-stale-placements]) = {why}) — {describe(c)}"),
                    "replay": {"case": c, "seen_terminal_size": r.get("seen"), "output": r.get("out", "")[:3000]}})
            else:
                mismatches.append({"case": c, "code": code, "explain": explain(c, r) if len(mismatches) < 3 else ""})
    tty_thread.join()
    failures += tty_res.get("failures", [])
    mismatches += tty_res.get("mismatches", [])
    errors += tty_res.get("errors", [])
    hist["terminal_answers_queries"] = tty_res.get("hist", {})
    distinct |= tty_res.get("distinct", set())
    return {
        "corr_name": "Draw.draw_stream / Draw.old_draw_stream, in the environment's terminal size (DrawEnv.get_terminal_size), DrawCut.anim_cut / old_anim_cut for animations ended by KeyboardInterrupt, and DrawQuery.screen of the draw's run with a terminal that answers its queries (models) == bytes written by Renderable.draw / BaseImage.draw on a pty or StringIO / bytes received by the master of the pty the draw runs on",
        "evaluations": len(cases) + len(tty_cases),
        "distinct_nontrivial": len(distinct),
        "rule": "DRAWS THAT TALK TO THE TERMINAL (fresh process per case, un-stubbed library, cold caches, stdin/stdout/stderr + active terminal on a pty found with ECHO on (mostly) or off, "
                "the harness answers the draw's queries from terminal profiles xterm / kitty / VTE (BEL terminators, no XTVERSION) / wezterm / konsole / DA1-only / silent + C12's generated well-formed profiles, "
                "each reply written in the WINDOW between the transmission of the request (tcdrain returned) and the library's next termios call, during the READ (after the next tcsetattr), SPLIT over both, or "
                "IMMEDIATELY when the request is seen; window pixel size unknown (cell-size query) or known): corpus of old-API Block / Kitty <=0.25 and >0.25 / ITerm2 konsole and wezterm, still and animated, "
                "new-API renderables whose render asks colours / name / cell size with echo_input True and False, standard output on the terminal or REDIRECTED to a pipe (the terminal's screen must then receive nothing), "
                "+ random draws of both APIs; the master-side stream with the byte-exact requests taken out is lexed fail-closed and judged by DrawQueryTie.qcheck; "
                "REAL-TERMINAL cases (the library's own get_terminal_size() on a pty whose window is set with TIOCSWINSZ, COLUMNS / LINES absent / equal / larger / smaller "
                "/ only one / garbage / zero): grid of both APIs x {still, animated} x padded or rendered width / height at window-1, window, window+1 under each relation, "
                "relative padding and pad_width / pad_height validation, + random draws of both APIs; ANIMATIONS ENDED BY KeyboardInterrupt: corpus of every write of a "
                "3-frame animation (first frame, cursor moves, clearing, later frames) cut at 0 / the middle (inside SGR / CSI sequences, kitty key lists and payloads, iterm2 "
                "payloads) / the end, and between frames (sleep), for text / SGR-block / erase-and-skip renderables (new API) and Block, Kitty > 0.25 LINES, Kitty <= 0.25 WHOLE, "
                "ITerm2 konsole LINES, ITerm2 wezterm WHOLE images (old API), + random animations with random interruption points; then the corpus (exhaustive size-rule decision tables: new API {non-animated, animated renderable} x animate x check_size x "
                "allow_scroll x padded height / width in {terminal-1, terminal, terminal+1} (96 cases); old API {still, animated image} x animate x "
                "check_size x scroll x rendered height / width likewise + pad_width / pad_height at and above the terminal size (112 cases); "
                "frame counts 1..4 x loops 1..3 x cache on/off x tty/non-tty with an exact bottom-heavy padding; one-line render, "
                "full-screen box, relative padding with empty fill; rejected width / height / allow_scroll on an animation; old API: one-line "
                "box, multi-line box, wezterm pre-erase with and without vertical padding, kitty <= 0.25 clearing, kitty animations with a caller-given z_index "
                "on 4 versions x 4 argument sets, iterm2 whole/mix/compress on 3 terminals, still images, rejected "
                "pad_width / pad_height / forced sizes) + random: new API renderables with text / SGR block / erase-and-skip frames 1..5 x 1..4 "
                "cells, 1..4 frames, loops 1..3, cache True/False/int, ExactPadding and AlignedPadding (absolute, zero, relative, exceeding), "
                "fills ' ' '*' '', check_size / allow_scroll / hide_cursor / animate flags, clearing override; old API Block / Kitty (LINES, "
                "WHOLE, versions on both sides of 0.25.0, style arguments z_index (default, small, negative, both extremes), mix, compress) / "
                "ITerm2 (LINES, WHOLE, wezterm / konsole / iterm2, mix, compress) images from synthetic GIFs of 1..4 "
                "frames, repeat 1..3, cached True/False/int, pad sizes around the image size / zero / relative / exceeding, 9 alignments in both "
                "spellings, dynamic and forced sizes; terminals 7..14 x 5..10; every accepted case that fits the screen is executed from start rows "
                "0, H/2 and H-1. Non-trivial: an accepted animation of >= 2 drawn frames; distinct by (padding, size, style, terminal, frames, tty, args).",
        "samples": [describe(c) for c in cases[:2] + cases[16:18] + cases[-2:]],
        "histogram": hist,
        "mismatches": mismatches,
        "failures": failures,
        "errors": errors,
        "assumptions": ["every frame's render output is a line-structured render meeting the render contract (LinesRect; proved for all render styles in C01/C05's development) and keeps the downward discipline (proved for all render styles, C06_styles_downward)",
                        "_clear_frame_ overrides keep their documented contract (ClearOK)",
                        "the padded box fits the screen (otherwise only the token equality and the size rule are checked)",
                        "start state: clean protocol state, default attributes, cursor at the left margin (lm = 0)",
                        "terminal conventions of lib/Term.v and lib/TermScroll.v (images hanging below the window are kept and scroll into view)",
                        "real-terminal cases: the active terminal is the pty the driver opened (utils._tty_fd of a private copy of $VERIF_REPO's utils.py whose get_terminal_size is bound in every module that imported it by name); cell size, colours and terminal name stay the test-suite's stubs",
                        "interrupted animations: the interrupt is a KeyboardInterrupt raised by the k-th non-empty stream write of the animation after j characters were delivered, or by a sleep between two frames (positions between two bytecodes of other code are C07's asyncfault dimension); the instrumented renderable's _handle_interrupted_draw_ writes CSI 0 m (HndOK); the final row is judged on Term.exec's virtual rows (a clamped cursor-down at the bottom margin of a real screen is not modelled: the scrolling clause is demanded only when the cursor was found on its resting row after a complete first frame)",
                        "draws that talk to the terminal: the terminal answers a request after it received it and before the read that waits for it returns (the library's query timeout is 100 s in these runs and never reached; a silent terminal is never written to); every reply sequence reaches the line discipline in one piece; the query requests (OSC 10 / 11 ?, XTVERSION, DA1, XTWINOPS 14 / 16, recognised byte for byte) draw nothing; the order of termios calls / write / read inside query_terminal is mirrored by hand in DrawQuery.query_terminal",
                        "the new API's documented residue (cursor not hidden, a cursor-move write cut inside its CSI, no cursor-down following) may leave an open CSI (C07's new_ctl_cut_residue); never an open string"],
        "trusted": ["harness/lexer.py", "pty line discipline with OPOST off delivers the written bytes unchanged",
                    "the kernel's tty line discipline (ECHO / ECHOCTL of a pty) is the terminal-side echo the model's DrawQuery.echo_text describes"],
        "extra": {"seconds_impl": round(t_impl, 1), "seconds_coq_eval": round(t_coq, 1),
                  "seconds_tty_family_impl": tty_res.get("seconds_impl"), "seconds_tty_family_coq_eval": tty_res.get("seconds_coq")},
    }
