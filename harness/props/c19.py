"""C19 — format specifiers are accepted and interpreted exactly as documented.

Proof side (coq/props/C19.v): for every string of code points, the implementation's
acceptance condition (regexes translated from the source by tx/tx_regex.py + the model of
_get_style_format_spec) and the documented grammar have the same language, by a checked
bisimulation certificate; the interpretation of parsed fields agrees with the documented
meaning.

Correspondence (this file + impl/impl_c19.py + coq/model/FmtSpecTie.v):
  1. exhaustive: every string over the class representatives up to a length bound goes
     through format(image, spec) on BlockImage / KittyImage / ITerm2Image; the set of
     accepted strings (as class words) and the per-length numbers of ValueError /
     StyleError are compared, inside Coq, with what the model and the documented grammar
     yield; no rejected specifier may touch the image; every accepted one is then checked
     like a case of 2;
  2. per case (corpus, the accepted strings of 1, random sentences and near-sentences,
     several terminal sizes): outcome class, the arguments that reached _format_render /
     _render_image, and equality of format()'s string with what draw() prints for the
     documented-equivalent parameters — against model and documentation, inside Coq;
  3. a BFS for a shortest word distinguishing model and documented grammar (the replay
     when an equivalence theorem no longer checks), confirmed on the real format();
  4. environments (impl/impl_c19env.py + coq/model/FmtEnv.v, FmtEnvTie.v): the property speaks
     of format() in whatever process calls it.  The same specifiers (explicit padding
     sizes below / at / above the terminal size, absent and zero ones, every alignment,
     sentences and near-sentences) go through format(image, spec), ImageIterator(.., spec)
     and str(image) in CHILD PROCESSES whose standard streams are every chosen combination
     of pipes and one pseudo-terminal (window size = the terminal size of the case); the
     geometry MEASURED on the returned string, the outcome class and equality with the
     explicit-parameter route are judged inside Coq against the model in that environment
     (FmtEnv.impl_format) and against the documented meaning (FmtEnv.geom_ok);
  5. denotation ON THE OUTPUT (impl/impl_c19den.py + coq/model/FmtDen.v, FmtDenTie.v): what an
     accepted specifier denotes is judged on what the returned string SHOWS, against the
     documentation, in the surroundings the documentation mentions: (a) the transparency field on
     a terminal whose background colour is known / undetermined, images with opaque, partially
     and fully transparent pixels: the pixels the block text displays (decoded with the shared
     lexer) and, for every style, equality of the output with that of the specifiers the
     documentation makes equivalent there (`##` = `#<terminal background>` | `#000000`, hex case,
     trailing zeros of a threshold); (b) the style `method` field on ANIMATED file sources
     (APNG / WebP / GIF, from_file / PIL image with a file name, read-from-file policy, fitting
     and down-scaled sizes, set_render_method) at several seek positions: every transmitted
     picture is decoded: frames held, frame shown; equality with the frame of
     ImageIterator(image, 1, spec).
  6. WHICH error (impl/impl_c19.py records the exact exception class + the kind of its message;
     coq/model/FmtErr.v, FmtErrTie.v): specifiers that are wrong in MORE THAN ONE WAY — a fault of
     the general form x a style part that is not a sentence (foreign leading / trailing portion,
     fields out of order, a field of another style) x a field value outside its documented range
     (z-index at and beyond +-2**31, ASCII and non-ASCII digits) — and every case of part 2: the
     class is judged inside Coq against the documented precedence (FmtErr.spec_error) and class +
     message kind against the call-chain model (FmtErr.impl_error).
"""
from __future__ import annotations

import json
import re

import core

LEVEL = "proof"
EXTRA_TARGETS = ["model/FmtSpecTie.vo", "model/FmtEnvTie.vo", "model/FmtDenTie.vo", "model/FmtDenPixTie.vo",
                 "model/FmtErrTie.vo"]
STYLES = ["block", "kitty", "iterm2"]
COQ_STYLE = {"block": "Block", "kitty": "Kitty", "iterm2": "ITerm2"}
HEADER = ("From Coq Require Import List NArith ZArith.\nImport ListNotations.\n"
          "From TI Require Import lib.Re model.FmtSpec model.FmtSpecTie model.FmtEnv model.FmtEnvTie model.FmtDen model.FmtDenTie model.FmtDenPix model.FmtDenPixTie model.FmtErr model.FmtErrTie.\n"
          "Open Scope nat_scope.\n")
TERMS = [[80, 30], [100, 50], [12, 5], [3, 3]]

# --------------------------------------------------------------------- generated data


def read_gen():
    txt = (core.COQ / "gen" / "Regexes.v").read_text()
    m = re.search(r"Definition class_reps : list \(list N\) :=\s*\[(.*?)\]\s*\.\s", txt, flags=re.S)
    reps = [[int(x) for x in grp.split(";") if x.strip()] for grp in re.findall(r"\[([^\[\]]*)\]", m.group(1))]
    ncls = int(re.search(r"Definition ncls : nat := (\d+)", txt).group(1))
    assert len(reps) == ncls
    table = [(int(a), int(b), int(c)) for a, b, c in
             re.findall(r"\((\d+), (\d+), (\d+)%nat\)", txt.split("Definition class_table")[1].split("].")[0])]
    return reps, "translation_refused : bool := true" in txt, table


# Characters that belong to no field of the grammar but that a regular-expression engine, int(),
# float() or str.strip() treat specially (line ends for `$`, white space; non-ASCII
# decimal digits already form a class of their own with two representatives): each is added to the representatives of ITS class of the generated table (normally the
# "other" class), so that the exhaustive part has them at every position, the last included.
EXTRA_REPS = ["\n", "\r", "\t", " "]


def with_extra_reps(reps, table):
    reps = [list(r) for r in reps]
    for ch in EXTRA_REPS:
        k = next((c for lo, hi, c in table if lo <= ord(ch) <= hi), None)
        if k is not None and ord(ch) not in reps[k]:
            reps[k].append(ord(ch))
    return reps


# --------------------------------------------------------------------- Coq terms


def nlist(xs, scope="N"):
    if not xs:
        return "(@nil %s)" % scope
    return "[" + "; ".join(f"({x})" if x < 0 else str(x) for x in xs) + f"]%{scope}"


def case_term(style, spec, term, o):
    return ("{| c_sty := %s; c_spec := %s; c_cols := %d%%Z; c_lines := %d%%Z; c_kind := %d; c_fmt := %s; "
            "c_alpha := %s; c_sargs := %s; c_draw := %s; c_draw_eq := %d |}") % (
        COQ_STYLE[style], nlist([ord(c) for c in spec]), term[0], term[1], o["k"],
        nlist(o.get("fmt", []), "Z"), nlist(o.get("alpha", []), "Z"), nlist(o.get("sargs", []), "Z"),
        nlist(o.get("draw", []), "Z"), o.get("deq", 0))


def coq_eval(name, body, timeout=900):
    rc, out = core.coq_eval_file(f"{name}_{__import__('os').getpid()}", HEADER + "Set Printing Width 1000000.\nSet Printing Depth 1000000.\n" + body, timeout=timeout)
    if rc != 0:
        return None, out[-1500:]
    return core.parse_evals(out), None


def parse_term(s):
    """A Coq-printed term made of tuples, lists and numbers -> nested Python lists."""
    toks = re.findall(r"[()\[\],;]|-?\d+", re.sub(r"%\w+", "", s))
    pos = 0

    def item():
        nonlocal pos
        t = toks[pos]
        if t in "([":
            close = ")" if t == "(" else "]"
            pos += 1
            xs = []
            while toks[pos] != close:
                if toks[pos] in ",;":
                    pos += 1
                    continue
                xs.append(item())
            pos += 1
            return xs
        pos += 1
        return int(t)

    return item()


# --------------------------------------------------------------------- implementation


def run_cases(triples):
    """triples: (style, spec, term).  Returns the observations, in order, + driver-level anomalies."""
    groups = {}
    for i, (st, sp, tm) in enumerate(triples):
        groups.setdefault((st, tuple(tm)), []).append(i)
    jobs, owners = [], []
    for (st, tm), idx in groups.items():
        for k in range(0, len(idx), 150):
            part = idx[k:k + 150]
            jobs.append({"kind": "cases", "style": st, "term": list(tm), "specs": [triples[i][1] for i in part]})
            owners.append(part)
    res = core.run_impl_parallel("impl_c19.py", jobs, chunk=max(1, (len(jobs) + core.NCPU - 1) // core.NCPU))
    obs = [None] * len(triples)
    anomalies = []
    for part, r, job in zip(owners, res, jobs):
        for i, o in zip(part, r["obs"]):
            obs[i] = o
            if o.get("anomaly") or o["k"] == 9:
                anomalies.append((triples[i], o.get("anomaly") or ("undocumented exception " + o.get("exc", ""))))
        for fx in r["final"]:
            anomalies.append(((job["style"], "(whole batch)", job["term"]), fx))
    return obs, anomalies


def check_cases(triples, tag="c19"):
    """Run on the implementation and judge in Coq.  Returns (codes, obs, anomalies, errors)."""
    if not triples:
        return [], [], [], []
    obs, anomalies = run_cases(triples)
    terms = [case_term(st, sp, tm, o) for (st, sp, tm), o in zip(triples, obs)]
    bad, errors = core.coq_shards(tag, HEADER, terms, "ccase", "bad cases", shard=250)
    codes = [0] * len(triples)
    for i, c in bad:
        codes[i] = c
    return codes, obs, anomalies, errors


# --------------------------------------------------------------------- generators

CORPUS = [
    "", "<", "|", ">", "1", "0", "00", "007", "80", "81", "200", ".1", ".0", ".^", ".-", "._", ".^1", "<1", "|1.-1",
    "<1.-", "#", "##", "#123456", "#23af5b", "#23AF5B", "#.4", "#.0", "#.343545453453", "#.999", "1.1#", "1.1##",
    "<.^#ffffff", "<80.^30##", ">3.2#.5", "0.0", "5.0#", "#.00000000000000000001", "#.5000000000000001",
    # documented as invalid
    "1<", "-1.|1", "<1.1^", ".", "1.", "<.", ">1.", "-", "<^", ".#", ">1.#.23", "#0", "#.", "#2445", "#.23fa45",
    "#fffffff", "#a45gh4", "###", " ", "+", "20+", ".^+", "#+", "\n", "1\n", "<1.2#\n",
    # the neighbourhood of a bare dot (F3)
    ".##", "1.##", "<3.##", ".#ffffff", ".#.5", ".+L", "1.+L", ".#+L", ".##+L", ".+z1", ".+m1", ".+x",
    # style part
    "+L", "+W", "+A", "+z0", "+z1", "+z-1", "+z-0", "+z007", "+z2147483647", "+z-2147483647", "+z2147483648",
    "+z-2147483648", "+z99999999999999999999", "+m0", "+m1", "+m2", "+c0", "+c4", "+c9", "+c10", "+Wz1m1c9",
    "+Lm1", "+Lc9", "+Am0c4", "+z1L", "+m1z1", "+c4m1", "+LL", "+Lz", "+z", "+z-", "+m", "+c", "+ L", "+L ", "+x",
    "+L\n", "+Lz1\n", "+z٣", "+z-٣٤", "٣", ".٣", "#.٣", "+m١", "+c٣",
    "<10.^5#.25+Wz-3m1c0", ">7._3#00ff7F+Lm0c9", "|0.0##+Az0",
]


def gen_sentence(rng, style):
    """A sentence of the documented grammar (mostly), boundary-seeded."""
    s = ""
    if rng.random() < 0.5:
        s += rng.choice("<|>")
    if rng.random() < 0.6:
        s += rng.choice(["0", "00", "1", "2", "3", "7", "12", "79", "80", "81", "100", "007", "99999",
                         str(rng.randrange(0, 130)), str(rng.randrange(0, 10 ** rng.randint(1, 6)))])
    if rng.random() < 0.55:
        s += "."
        r = rng.random()
        num = rng.choice(["0", "1", "2", "3", "5", "28", "30", "31", "004", str(rng.randrange(0, 60))])
        if r < 0.35:
            s += rng.choice("^-_")
        elif r < 0.7:
            s += rng.choice("^-_") + num
        else:
            s += num
    if rng.random() < 0.55:
        s += "#"
        r = rng.random()
        if r < 0.3:
            s += "." + rng.choice(["0", "5", "25", "999", "1568627450980392", "0001",
                                   "".join(rng.choice("0123456789") for _ in range(rng.randint(1, 18)))])
        elif r < 0.55:
            s += "".join(rng.choice("0123456789abcdefABCDEF") for _ in range(6))
        elif r < 0.75:
            s += "#"
    if style != "block" and rng.random() < 0.65 or style == "block" and rng.random() < 0.08:
        t = ""
        if rng.random() < 0.5:
            t += rng.choice("LW" if style == "kitty" else "LWA")
        if style == "kitty" and rng.random() < 0.5:
            t += "z" + rng.choice(["0", "1", "-1", "-0", "007", "2147483647", "-2147483647", "2147483648",
                                   "-2147483648", "2147483646", "4294967296", "٣", "-١٠",
                                   str(rng.randrange(-2 ** 33, 2 ** 33)), str(rng.randrange(-50, 50))])
        if rng.random() < 0.5:
            t += "m" + rng.choice("01")
        if rng.random() < 0.5:
            t += "c" + rng.choice("0123456789")
        if t:
            s += "+" + t
    return s


def too_big(spec, limit=4_000_000):
    """Would the padded box this specifier asks for exceed `limit` cells?  (width digits after the
    optional alignment, height digits after '.' and its optional alignment; absent = 80 / 30)"""
    m = re.match(r"[<|>]?(\d*)(?:\.[-^_]?(\d*))?", spec)
    w = int(m.group(1)) if m and m.group(1) else 80
    h = int(m.group(2)) if m and m.group(2) else 30
    return max(w, 80) * max(h, 30) > limit


def gen_near(rng, s, alphabet):
    """One edit away from s."""
    op = rng.choice(["ins", "del", "sub", "swap"]) if s else "ins"
    i = rng.randrange(len(s) + (op == "ins")) if s or op == "ins" else 0
    ch = rng.choice(alphabet)
    if op == "ins":
        return s[:i] + ch + s[i:]
    if op == "del":
        return s[:i] + s[i + 1:]
    if op == "sub":
        return s[:i] + ch + s[i + 1:]
    if len(s) < 2:
        return s + ch
    i = rng.randrange(len(s) - 1)
    return s[:i] + s[i + 1] + s[i] + s[i + 2:]


# --------------------------------------------------------------------- exhaustive part


def enum_jobs(style, alphabet, length, njobs, detail=True):
    if length <= 2:
        return [{"kind": "enum", "style": style, "alphabet": alphabet, "length": length, "prefixes": [""], "detail": detail}]
    prefixes = [a + b for a in alphabet for b in alphabet]
    njobs = min(njobs, len(prefixes))
    return [{"kind": "enum", "style": style, "alphabet": alphabet, "length": length,
             "prefixes": prefixes[k::njobs], "detail": detail} for k in range(njobs)]


def exhaustive(ctx, reps, out, table=()):
    """Fills out (dict) with failures/mismatches/errors/histogram; returns accepted cases."""
    first = [chr(r[0]) for r in reps]
    reps_b = with_extra_reps(reps, table)
    both = [chr(c) for r in reps_b for c in r]
    cls_of = {chr(c): k for k, r in enumerate(reps_b) for c in r}
    out["extra"]["exhaustive_alphabet"] = {
        "short strings": [f"U+{ord(c):04X}" for c in both], "longer strings": [f"U+{ord(c):04X}" for c in first]}
    if ctx.quick:
        L_both, L_single = 4, 5
    else:
        L_both, L_single = 5, 7
    out["extra"]["exhaustive_bound"] = (
        f"all strings of length <= {L_both} over {len(both)} characters (two representatives of every "
        f"multi-member class, plus line feed, carriage return, tab and space in their classes) "
        f"and of length {L_both + 1}..{L_single} over {len(first)} characters (one per class), "
        f"per style; accepted strings judged individually: "
        + ("all of length <= 3, one per class word of length 4, one per three class words of length 5"
           if ctx.quick else "all"))
    jobs, meta = [], []
    for st in STYLES:
        for n in range(0, L_single + 1):
            alpha = both if n <= L_both else first
            per = 4 if n <= 3 else (16 if n <= 5 else (64 if n == 6 else 256))
            for j in enum_jobs(st, alpha, n, per):
                jobs.append(j)
                meta.append((st, n))
    # interleave so that every worker gets a mix of cheap and expensive jobs
    order = sorted(range(len(jobs)), key=lambda i: (i * 7919) % len(jobs))
    jobs2 = [jobs[i] for i in order]
    res2 = core.run_impl_parallel("impl_c19.py", jobs2, chunk=max(1, (len(jobs2) + 2 * core.NCPU - 1) // (2 * core.NCPU)),
                                  timeout=7200)
    res = [None] * len(jobs)
    for i, r in zip(order, res2):
        res[i] = r
    counts = {(st, n): [0, 0, 0] for st in STYLES for n in range(L_single + 1)}
    accepted = {st: [] for st in STYLES}
    total = 0
    for (st, n), r in zip(meta, res):
        a, ve, se = r["counts"]
        c = counts[(st, n)]
        c[0] += a
        c[1] += se
        c[2] += ve
        total += a + ve + se
        accepted[st] += r["accepted"]
        for spec, what in r["anomalies"]:
            out["failures"].append({
                "signature": core.sig({"spec": spec, "anomaly": what.split(":")[0]}),
                "what": f"{st}: format(image, {spec!r}): {what}",
                "replay": {"style": st, "spec": spec, "term": [80, 30], "anomaly": what}})
    out["evaluations"] += total
    out["histogram"]["enumerated_by_style_and_length [accepted, StyleError, ValueError]"] = {
        f"{st}:{n}": counts[(st, n)] for st in STYLES for n in range(L_single + 1)}
    w_both = [len(r) for r in reps_b]
    w_single = [1] * len(reps)
    acc_cases = []
    body = ""
    for st in STYLES:
        words = {}
        for spec, o in accepted[st]:
            w = tuple(cls_of[ch] for ch in spec)
            words.setdefault(w, []).append((spec, o))
        # which accepted strings are also judged individually (interpretation, draw equivalence)
        for k, w in enumerate(sorted(words)):
            if not ctx.quick or len(w) <= 3:
                pick = words[w]
            elif len(w) == 4 or k % 3 == 0:
                pick = [min(words[w], key=lambda so: so[0])]
            else:
                pick = []
            acc_cases += [(st, spec, [80, 30], o) for spec, o in pick]
        words = {w: [s for s, _ in so] for w, so in words.items()}
        # every concretisation of a class word behaves alike
        for w, specs in words.items():
            expect = 1
            for c in w:
                expect *= (w_both if len(w) <= L_both else w_single)[c]
            if len(specs) != expect:
                out["mismatches"].append({"what": "members of one character class behave differently",
                                          "style": st, "class_word": list(w), "accepted": sorted(specs)[:6],
                                          "expected_count": expect})
        obs = sorted(words)
        body += (f"Eval vm_compute in (enum_check {COQ_STYLE[st]} {L_single} "
                 f"[{'; '.join(nlist(list(w), 'nat') for w in obs)}]).\n")
        for wts, lo, hi in ((w_both, 0, L_both), (w_single, L_both + 1, L_single)):
            ob = "; ".join(f"({n}, {nlist(counts[(st, n)])})" for n in range(lo, hi + 1))
            body += f"Eval vm_compute in (count_check {COQ_STYLE[st]} {L_single} {nlist(wts)} [{ob}]).\n"
    vals, err = coq_eval("c19enum", body, timeout=3000)
    if err or len(vals) != 9:
        out["errors"].append("enumeration check failed in Coq: " + (err or f"{len(vals)} values"))
        return acc_cases
    confirm = []
    for k, st in enumerate(STYLES):
        v = parse_term(vals[3 * k])
        code = v[0]
        if code:
            (extra, missing), (extra_m, missing_m) = v[1], v[2]
            for w in extra + missing:
                confirm.append((st, "".join(first[c] for c in w), [80, 30]))
            if code & 1:
                out["mismatches"].append({"what": "accepted set differs from the implementation model",
                                          "style": st, "accepted_not_model": extra_m, "model_not_accepted": missing_m})
            if code & 2 and not (extra or missing):
                out["errors"].append(f"{st}: enum_check code {code} without a difference list")
        for j in (1, 2):
            v = parse_term(vals[3 * k + j])
            info = {"style": st, "code": v[0], "model_counts": v[1], "doc_counts": v[2],
                    "observed [accepted, StyleError, ValueError]": {n: counts[(st, n)] for n in range(L_single + 1)}}
            if v[0] & 1:
                info["what"] = "per-length outcome counts differ from the implementation model"
                out["mismatches"].append(info)
            if v[0] & 2:
                out["extra"].setdefault("outcome_counts_differ_from_documented_grammar", []).append(info)
    out["_confirm"] += confirm
    return acc_cases



# --------------------------------------------------------------------- which error (part 6)

Z_EDGE = [2 ** 31 - 1, 2 ** 31, -(2 ** 31) + 1, -(2 ** 31), 2 ** 32, -(2 ** 32), 10 ** 12, 99999999999999999999]
ARABIC = str.maketrans("0123456789", "٠١٢٣٤٥٦٧٨٩")
GENERAL_OK = ["", "<10.^3#", "#ffffff", ">._2##", "|0.0#.5"]
GENERAL_BAD = ["1<", ".", "3.", "#0", "#.", "<<", "^", " "]
LEAD = {"kitty": ["x", " ", "A", "m1", "c3", "z", "z-", "-", "9", "٣"],
        "iterm2": ["x", " ", "z1", "m1c2", "c3", "9", "z4294967296"],
        "block": ["x"]}
TRAIL = {"kitty": ["x", " ", "L", "0", "z1", "m", "\r"], "iterm2": ["x", " ", "A", "0", "z1", "c"], "block": ["x"]}
CLS_CODE = {"builtins.ValueError": 1, "term_image.exceptions.StyleError": 2}


def z_texts(v):
    t = str(v)
    return [t, t.translate(ARABIC)]


def err_corpus(style, quick):
    """(spec, label) — every combination class of two (or three) faults of different categories."""
    res = []
    gens_ok = GENERAL_OK[:2] if quick else GENERAL_OK
    gens_bad = GENERAL_BAD[:2] if quick else GENERAL_BAD
    leads = LEAD[style][:4] if quick else LEAD[style]
    trails = TRAIL[style][:2] if quick else TRAIL[style]
    if style == "kitty":
        zs = [t for v in (Z_EDGE[:6] if quick else Z_EDGE) for t in (z_texts(v)[:1] if quick and abs(v) != 2 ** 31 else z_texts(v))]
        for g in gens_ok + gens_bad:
            gl = "general-ok" if g in GENERAL_OK else "general-fault"
            for zt in zs:
                zv = int(zt)
                zl = "z-in-range" if -(2 ** 31) < zv < 2 ** 31 else "z-out-of-range"
                for meth in ("", "W"):
                    for tail in ("", "m1c9"):
                        if quick and (bool(meth) != bool(tail) or (meth and g in GENERAL_BAD)):
                            continue
                        core_ = meth + "z" + zt + tail
                        res.append((g + "+" + core_, f"{gl}/{zl}"))
                        for ld in leads:
                            res.append((g + "+" + ld + core_, f"{gl}/foreign-leading/{zl}"))
                        for tr in trails:
                            res.append((g + "+" + core_ + tr, f"{gl}/foreign-trailing/{zl}"))
                        if not quick or not (meth or tail):
                            res.append((g + "+" + leads[0] + core_ + trails[0], f"{gl}/foreign-both/{zl}"))
                            res.append((g + "+" + "m1" + meth + "z" + zt, f"{gl}/fields-out-of-order/{zl}"))
    else:
        body = {"iterm2": ["A", "Lm1", "c9", "Wm0c0"], "block": ["L", "z1"]}[style]
        for g in gens_ok + gens_bad:
            gl = "general-ok" if g in GENERAL_OK else "general-fault"
            for b in body:
                res.append((g + "+" + b, f"{gl}/style-ok" if style == "iterm2" else f"{gl}/no-style-grammar"))
                for ld in leads:
                    res.append((g + "+" + ld + b, f"{gl}/foreign-leading"))
                for tr in trails:
                    res.append((g + "+" + b + tr, f"{gl}/foreign-trailing"))
    return res


def err_random(rng, style, n):
    res = []
    for _ in range(n):
        g = rng.choice(GENERAL_OK + GENERAL_OK + GENERAL_BAD) if rng.random() < 0.7 else gen_sentence(rng, "block")
        if too_big(g):
            g = ""
        t = ""
        faults = []
        if rng.random() < 0.6:
            t += rng.choice(LEAD[style])
            faults.append("foreign-leading")
        if rng.random() < 0.5:
            t += rng.choice("LW" if style == "kitty" else "LWA")
        if style == "kitty" and rng.random() < 0.85:
            v = rng.choice(Z_EDGE + [rng.choice([-1, 1]) * (2 ** 31 + rng.randrange(-2, 3)), rng.randrange(-2 ** 40, 2 ** 40),
                                     rng.randrange(-9, 10)])
            t += "z" + rng.choice(z_texts(v))
            faults.append("z-in-range" if -(2 ** 31) < v < 2 ** 31 else "z-out-of-range")
        if rng.random() < 0.4:
            t += "m" + rng.choice("01")
        if rng.random() < 0.4:
            t += "c" + rng.choice("0123456789")
        if rng.random() < 0.4:
            t += rng.choice(TRAIL[style])
            faults.append("foreign-trailing")
        if not t:
            t = "L"
        res.append((g + "+" + t, "random:" + "/".join(faults)))
    return res


def ecase_term(style, spec, o):
    cls = 0 if o["k"] == 0 else CLS_CODE.get(o.get("cls"), 9)
    return "{| e_sty := %s; e_spec := %s; e_cls := %d; e_msg := %d |}" % (
        COQ_STYLE[style], nlist([ord(c) for c in spec]), cls, 0 if o["k"] == 0 else o.get("msgk", 9))


def check_err(pairs, obs=None, tag="c19x"):
    """pairs: (style, spec).  Returns (codes, obs, anomalies, errors)."""
    if not pairs:
        return [], [], [], []
    anomalies = []
    if obs is None:
        obs, anomalies = run_cases([(st, sp, [80, 30]) for st, sp in pairs])
    terms = [ecase_term(st, sp, o) for (st, sp), o in zip(pairs, obs)]
    bad, errors = core.coq_shards(tag, HEADER, terms, "ecase", "ebad cases", shard=400)
    codes = [0] * len(pairs)
    for i, c in bad:
        codes[i] = c
    return codes, obs, anomalies, errors


def err_failure(style, spec, o, code):
    got = o.get("cls", "no exception (accepted)") if o["k"] else "no exception (accepted)"
    return {
        "signature": core.sig({"spec": spec}),
        "what": (f"format({COQ_STYLE[style]}Image, {spec!r}) raises {got}"
                 f"{' (' + o.get('msg', '') + ')' if o['k'] else ''}: not the documented error for this specifier "
                 f"(precedence: general form -> ValueError; style part not a sentence of the style's grammar -> StyleError "
                 f"whatever the field values; field of a sentence out of range -> ValueError) (check code {code})"),
        "replay": {"kind": "err", "style": style, "spec": spec, "term": [80, 30], "observed": o, "code": code},
    }


def shrink_err(style, spec):
    cur = spec
    for _ in range(14):
        cands = list(dict.fromkeys(cur[:i] + cur[i + 1:] for i in range(len(cur))))
        if not cands:
            break
        codes, _, _, errs = check_err([(style, c) for c in cands], tag="c19xs")
        nxt = next((c for c, k in zip(cands, codes) if k >= 2), None)
        if nxt is None or errs:
            break
        cur = nxt
    return cur


def err_part(ctx, out, judged=()):
    """judged: (style, spec, obs) already observed by part 2 — judged here as well."""
    rng = ctx.rng
    if ctx.replay:
        rp = ctx.replay["replay"]
        pairs, labels = [(rp["style"], rp["spec"])], ["replay"]
    else:
        pairs, labels = [], []
        for st in STYLES:
            for sp, lb in err_corpus(st, ctx.quick) + err_random(rng, st, (40 if ctx.quick else 1200) if st != "block" else 10):
                pairs.append((st, sp))
                labels.append(lb)
    codes, obs, anomalies, errs = check_err(pairs)
    out["errors"] += errs
    out["evaluations"] += len(pairs)
    for (tr, what) in anomalies:
        st, sp, tm = tr
        out["failures"].append({"signature": core.sig({"spec": sp, "anomaly": what.split(":")[0]}),
                                "what": f"{st}: format(image, {sp!r}): {what}",
                                "replay": {"style": st, "spec": sp, "term": tm, "anomaly": what}})
    jp = [(st, sp) for st, sp, _ in judged]
    jcodes, jobs_, _, jerrs = check_err(jp, obs=[o for _, _, o in judged], tag="c19xj")
    out["errors"] += jerrs
    hist, classes = {}, {}
    for lb, o in zip(labels, obs):
        key = lb + " -> " + ("accepted" if o["k"] == 0 else o.get("cls", "?").rsplit(".", 1)[-1])
        hist[key] = hist.get(key, 0) + 1
    out["histogram"]["which_error_cases_by_faults_and_outcome"] = dict(sorted(hist.items()))
    for o in list(obs) + list(jobs_):
        if o["k"]:
            nm = f"{o.get('cls')} / message kind {o.get('msgk')}"
            classes[nm] = classes.get(nm, 0) + 1
    out["histogram"]["exception_classes_seen (exact class, message kind 1 invalid-spec 2 invalid-style 3 value)"] = classes
    failing = []
    for (st, sp), o, c in list(zip(pairs, obs, codes)) + list(zip(jp, jobs_, jcodes)):
        if c >= 2:
            failing.append((st, sp, o, c))
        elif c == 1:
            out["mismatches"].append({"what": "raised error differs from the call-chain model (FmtErr.impl_error) only",
                                      "style": st, "spec": sp, "observed": {k: o.get(k) for k in ("k", "cls", "msgk", "msg")}})
    failing.sort(key=lambda f: (len(f[1]), f[1]))
    seen = set()
    have = {f["signature"] for f in out["failures"]}
    for st, sp, o, c in failing:
        if len(seen) >= 3:
            break
        small = sp if ctx.replay else shrink_err(st, sp)
        if small in seen:
            continue
        seen.add(small)
        if small != sp:
            cs, ob, _, _ = check_err([(st, small)], tag="c19xr")
            o, c = ob[0], cs[0]
        f = err_failure(st, small, o, c)
        if f["signature"] not in have:
            out["failures"].append(f)
    out["extra"]["which_error_failing_seen"] = len(failing)
    if not ctx.replay:
        out.setdefault("_env_samples", [])
        out["_env_samples"] += [f"which-error {st}:{sp!r} [{lb}]" for (st, sp), lb in list(zip(pairs, labels))[5:400:97]]
    return {("err", st, sp) for st, sp in pairs}


# --------------------------------------------------------------------- main


def failure_of(style, spec, term, o, code):
    kinds = {0: "accepted", 1: "ValueError", 2: "StyleError", 9: "another exception"}
    return {
        "signature": core.sig({"spec": spec}),
        "what": (f"format({COQ_STYLE[style]}Image, {spec!r}) [terminal {term[0]}x{term[1]}] -> {kinds.get(o['k'])}"
                 f"{'' if o['k'] else ' ' + json.dumps({k: o.get(k) for k in ('fmt', 'alpha', 'sargs', 'draw', 'deq')})}"
                 f": contradicts the documented grammar / meaning (check code {code})"),
        "replay": {"style": style, "spec": spec, "term": term, "observed": o, "code": code},
    }


def shrink(style, spec, term):
    """Greedy deletion of characters while the real format() still contradicts the documentation."""
    cur = spec
    for _ in range(12):
        cands = list(dict.fromkeys(cur[:i] + cur[i + 1:] for i in range(len(cur))))
        if not cands:
            break
        codes, obs, _, errs = check_cases([(style, c, term) for c in cands], tag="c19s")
        nxt = next((c for c, k in zip(cands, codes) if k >= 2), None)
        if nxt is None or errs:
            break
        cur = nxt
    return cur


# --------------------------------------------------------------------- environments

ENVS_QUICK = [[0, 0, 0], [1, 1, 1], [1, 0, 1], [0, 1, 0]]        # [stdin, stdout, stderr] on the terminal?
ENVS_ALL = [[i, o, e] for i in (0, 1) for o in (0, 1) for e in (0, 1)]
ENV_TERMS = [[80, 30], [100, 50], [12, 5], [3, 3], [200, 60], [40, 10]]
ROUTE_NAMES = {0: "format(image, spec)", 1: "next(ImageIterator(image, 1, spec))", 2: "str(image)"}
ENV_TAILS = {
    "block": ["", "", "#", "##", "#.5", "#00ff7F"],
    "kitty": ["", "", "#", "+L", "+W", "#.25+Wz-3m1c0", "##+z5", "+m1c9"],
    "iterm2": ["", "", "#", "+L", "+W", "+A", "#.25+Wm1c0", "##+Am0", "+m1c9"],
}


def env_name(bits):
    if not any(bits):
        return "every standard stream on a pipe"
    if all(bits):
        return "stdin, stdout and stderr on a terminal"
    on = [n for n, b in zip(("stdin", "stdout", "stderr"), bits) if b]
    off = [n for n, b in zip(("stdin", "stdout", "stderr"), bits) if not b]
    return f"{' and '.join(on)} on a terminal, {' and '.join(off)} on a pipe"


def env_specs(rng, style, term, n_random):
    """Specifiers whose explicit padding sizes sit below, at and above the terminal size `term`
    (and absent / zero ones), every alignment pair, plus random sentences and near-sentences."""
    tc, tl = term
    widths = ["", "0", "00", "1", "2", "3", str(max(tc - 1, 1)), str(tc), str(tc + 1), "0" + str(tc + 1),
              str(tc + 20), str(2 * tc + 1), str(rng.randrange(1, 3 * tc + 2))]
    heights = [None, "0", "1", "2", str(max(tl - 3, 1)), str(max(tl - 2, 1)), str(max(tl - 1, 1)), str(tl),
               str(tl + 1), "00" + str(tl + 2), str(tl + 7), str(rng.randrange(1, 2 * tl + 2))]
    tails = ENV_TAILS[style]

    def vpart(h):
        if h is None:
            return rng.choice(["", "", ".^", ".-", "._"])
        return "." + rng.choice(["", "^", "-", "_"]) + h

    specs = []
    for w in widths:
        specs.append(rng.choice(["", "<", "|", ">"]) + w + vpart(rng.choice(heights)) + rng.choice(tails))
    for h in heights:
        specs.append(rng.choice(["", "<", "|", ">"]) + rng.choice(widths) + vpart(h) + rng.choice(tails))
    for ha in "<|>":
        for va in "^-_":
            specs.append(f"{ha}{tc + rng.choice([1, 2, 3, 4])}.{va}{tl + rng.choice([1, 2, 3])}")
    alphabet = list("<|>0189.^-_#af+LWAzmc \n\r\t")
    for i in range(n_random):
        sp = gen_sentence(rng, style)
        if i % 2:
            sp = gen_near(rng, sp, alphabet)
        specs.append(sp)
    specs = [sp for sp in dict.fromkeys(specs) if not too_big(sp, 400_000)]
    return specs


def gcase_term(style, spec, term, env, route, o):
    b = ("false", "true")
    return ("{| q_sty := %s; q_spec := %s; q_cols := %d%%Z; q_lines := %d%%Z; q_in := %s; q_out := %s; q_err := %s; "
            "q_route := %d; q_rc := %d%%Z; q_rl := %d%%Z; q_kind := %d; q_geom := %s; q_x := %s; q_same := %d |}") % (
        COQ_STYLE[style], nlist([ord(c) for c in spec]), term[0], term[1], b[env[0]], b[env[1]], b[env[2]],
        route, o["rs"][0], o["rs"][1], o["k"], nlist(o.get("geom", []), "Z"), nlist(o.get("x", []), "Z"),
        o.get("same", 0))


def check_env(jobs, tag="c19e"):
    """jobs: [{"style", "term", "env", "specs"}].  Jobs with the same environment and terminal size
    share one child process.  Every observation is judged in Coq.
    Returns (cases [(job, spec, route, observation)], codes, errors, anomalies)."""
    if not jobs:
        return [], [], [], []
    groups = {}
    for j in jobs:
        groups.setdefault((tuple(j["term"]), tuple(j["env"])), []).append(j)
    djobs = [{"term": list(t), "env": list(e), "batches": [{"style": j["style"], "specs": j["specs"]} for j in js]}
             for (t, e), js in groups.items()]
    res = core.run_impl_parallel("impl_c19env.py", djobs, chunk=max(1, (len(djobs) + core.NCPU - 1) // core.NCPU),
                                 timeout=3000)
    cases, errors, anomalies = [], [], []
    for dj, js, r in zip(djobs, groups.values(), res):
        if "error" in r:
            errors.append(f"environment driver, terminal {dj['term']} streams {dj['env']}: {r['error'][-1200:]}")
            continue
        want = {"isatty": dj["env"], "os_isatty": dj["env"], "active": int(any(dj["env"])), "size": dj["term"]}
        if r["seen"] != want:
            errors.append(f"environment not established: wanted {want}, the child saw {r['seen']}")
            continue
        for job, b in zip(js, r["batches"]):
            for spec, o in zip(job["specs"], b["obs"]):
                cases.append((job, spec, 0, o["f"]))
                cases.append((job, spec, 1, o["i"]))
                if o["f"].get("fx"):
                    anomalies.append((job, spec, "state touched by a rejected specifier: " + ", ".join(o["f"]["fx"])))
                for key in "fi":
                    if o[key]["k"] == 9:
                        anomalies.append((job, spec, "undocumented exception " + o[key].get("exc", "")))
            cases.append((job, "", 2, b["str"]))
            for fx in b["final"]:
                anomalies.append((job, "(whole batch)", fx))
    terms = [gcase_term(j["style"], sp, j["term"], j["env"], rt, o) for j, sp, rt, o in cases]
    bad, errs = core.coq_shards(tag, HEADER, terms, "gcase", "gbad cases", shard=300)
    codes = [0] * len(cases)
    for i, c in bad:
        codes[i] = c
    return cases, codes, errors + errs, anomalies


def env_failure(job, spec, route, o, code, elsewhere=""):
    st, term, env = job["style"], job["term"], job["env"]
    return {
        "signature": core.sig({"spec": spec, "route": route, "tty": env}),
        "what": (f"{ROUTE_NAMES[route]} with spec {spec!r} on {COQ_STYLE[st]}Image, {env_name(env)}, terminal "
                 f"{term[0]}x{term[1]}: outcome {o['k']} (0 = a string), measured [lines, width, top, left] = {o.get('geom')} "
                 f"for a {o['rs'][0]}x{o['rs'][1]} render, documented explicit parameters [h, pad_width, v, pad_height] = "
                 f"{o.get('x')}, same string as the explicit-parameter route: {o.get('same')} — contradicts the documented "
                 f"meaning (check code {code}){elsewhere}"),
        "replay": {"kind": "env", "style": st, "spec": spec, "term": term, "env": env, "route": route,
                   "observed": o, "code": code},
    }


def shrink_env(job, spec, route):
    """Greedy deletion of characters while the same route in the same environment still contradicts
    the documentation."""
    cur = spec
    for _ in range(10):
        cands = list(dict.fromkeys([cur[:i] + cur[i + 1:] for i in range(len(cur))]
                                   + [cur[:i] + cur[i + 2:] for i in range(len(cur) - 1)]))
        if not cands:
            break
        cases, codes, errs, _ = check_env([dict(job, specs=cands)], tag="c19es")
        if errs:
            break
        nxt = next((sp for (_, sp, rt, _), k in zip(cases, codes) if rt == route and k >= 2), None)
        if nxt is None:
            break
        cur = nxt
    return cur


def env_part(ctx, out):
    rng = ctx.rng
    if ctx.replay:
        rp = ctx.replay["replay"]
        jobs = [{"style": rp["style"], "term": rp["term"], "env": rp["env"], "specs": [rp["spec"]]}]
        only_route = rp.get("route")
    else:
        only_route = None
        envs = ENVS_QUICK if ctx.quick else ENVS_ALL
        jobs = []
        for st in STYLES:
            if ctx.quick:
                terms = [ENV_TERMS[0], rng.choice(ENV_TERMS[1:])]
            else:
                terms = ENV_TERMS + [[rng.randrange(4, 160), rng.randrange(3, 70)] for _ in range(2)]
            for term in terms:
                specs = env_specs(rng, st, term, 8 if ctx.quick else 60)
                for env in envs:     # the SAME specifiers in every environment
                    jobs.append({"style": st, "term": term, "env": env, "specs": specs})
    cases, codes, errs, anomalies = check_env(jobs)
    out["_env_samples"] = [f"{j['style']}:{sp!r} [{env_name(j['env'])}; terminal {j['term'][0]}x{j['term'][1]}; {ROUTE_NAMES[rt]}]"
                           for j, sp, rt, _ in cases[len(cases) // 2:len(cases) // 2 + 3]]
    out["errors"] += errs
    out["evaluations"] += len(cases)
    for job, spec, what in anomalies:
        out["failures"].append({"signature": core.sig({"spec": spec, "anomaly": what.split(":")[0], "tty": job["env"]}),
                                "what": f"{job['style']}, {env_name(job['env'])}: spec {spec!r}: {what}",
                                "replay": {"kind": "env", "style": job["style"], "spec": spec, "term": job["term"],
                                           "env": job["env"], "route": 0, "anomaly": what}})
    hist_env, hist_rel = {}, {"explicit width > terminal width": 0, "explicit width = terminal width": 0,
                              "explicit width < terminal width": 0, "width absent or zero": 0,
                              "explicit height > terminal height": 0, "explicit height <= terminal height": 0,
                              "height absent or zero": 0, "rejected": 0}
    by_key = {}
    for (job, spec, rt, o), c in zip(cases, codes):
        e = "".join(map(str, job["env"]))
        hist_env[f"in/out/err={e}"] = hist_env.get(f"in/out/err={e}", 0) + 1
        by_key.setdefault((job["style"], tuple(job["term"]), spec, rt), {})[e] = c
        if rt == 0 and o["k"] == 0 and o.get("x"):
            m = re.match(r"[<|>]?(\d*)(?:\.[-^_]?(\d*))?", spec)
            w, h = (int(m.group(1)) if m.group(1) else 0), (int(m.group(2)) if m.group(2) else 0)
            tc, tl = job["term"]
            hist_rel["width absent or zero" if w == 0 else "explicit width > terminal width" if w > tc else
                     "explicit width = terminal width" if w == tc else "explicit width < terminal width"] += 1
            hist_rel["height absent or zero" if h == 0 else "explicit height > terminal height" if h > tl else
                     "explicit height <= terminal height"] += 1
        elif rt == 0 and o["k"] != 0:
            hist_rel["rejected"] += 1
    out["histogram"]["environment_cases_by_streams_on_terminal"] = hist_env
    out["histogram"]["environment_format_cases_by_size_relation"] = hist_rel
    out["histogram"]["environment_terminal_sizes"] = sorted({f"{j['term'][0]}x{j['term'][1]}" for j in jobs})
    failing = []
    for (job, spec, rt, o), c in zip(cases, codes):
        if only_route is not None and rt != only_route:
            continue
        if c >= 2:
            failing.append((job, spec, rt, o, c))
        elif c == 1:
            out["mismatches"].append({"what": "environment case differs from the implementation model only",
                                      "style": job["style"], "spec": spec, "term": job["term"], "env": job["env"],
                                      "route": rt, "observed": o})
    out["extra"]["environment_failing_cases_seen"] = len(failing)
    # shortest specifier first; the environment closest to "everything on a pipe" last, so that a
    # failure that needs a terminal is reported with one
    failing.sort(key=lambda f: (len(f[1]), f[1], f[2], -sum(f[0]["env"]), f[0]["term"]))
    seen = set()
    for job, spec, rt, o, c in failing:
        if len(seen) >= 3:
            break
        small = spec
        if not ctx.replay and len(spec) > 2:
            small = shrink_env(job, spec, rt)
        if (small, rt) in seen:
            continue
        seen.add((small, rt))
        if small != spec:
            cs, ks, _, _ = check_env([dict(job, specs=[small])], tag="c19er")
            hit = next(((x[3], k) for x, k in zip(cs, ks) if x[2] == rt), None)
            if hit:
                o, c = hit
        others = by_key.get((job["style"], tuple(job["term"]), spec, rt), {})
        ok_in = sorted(e for e, k in others.items() if k == 0)
        note = (f"; the specifier {spec!r} it was shrunk from agrees with the documentation in the environments "
                f"in/out/err = {ok_in}" if ok_in else "")
        out["failures"].append(env_failure(job, small, rt, o, c, note))
    return {(j["style"], sp, "".join(map(str, j["env"])), tuple(j["term"]), rt) for j, sp, rt, _ in cases}


# --------------------------------------------------------------------- denotation on the output

DEN_ALPHAS = [0, 1, 20, 39, 41, 64, 90, 127, 128, 129, 200, 254, 255]
COQ_BOOL = ("false", "true")


def hex6(rgb):
    return "%02x%02x%02x" % tuple(rgb)


# thresholds whose product with 255 has a fractional part below / at / above one half
THR_EXACT = ["5", "9", "999", "325043", "1", "3", "7", "2", "4", "75", "999999", "0039", "1568", "15"]


def thr8_exact(ds):
    """round-half-even of 0.ds * 255 in exact arithmetic (mirrors FmtDenPix.thr8)."""
    from fractions import Fraction
    x = Fraction(int(ds or "0"), 10 ** len(ds)) * 255
    q, r = divmod(x.numerator, x.denominator)
    if 2 * r < x.denominator:
        return q
    if 2 * r > x.denominator:
        return q + 1
    return q if q % 2 == 0 else q + 1


def thr_safe(ds):
    """The double product float('.ds') * 255 rounds like the exact one (it could differ only if
    the exact product were within ~1e-13 of k + 1/2 without being it; at most 12 digits keep every
    non-tie at least 5e-13 away) — checked, not assumed: Python's own round() must agree."""
    return 0 < len(ds) <= 12 and round(float("." + ds) * 255) == thr8_exact(ds)


def alpha_tails(rng, bg):
    """(tail, [tails the documentation makes equivalent on a terminal with background bg])"""
    eff = hex6(bg) if bg is not None else "000000"
    rnd = "".join(rng.choice("0123456789abcdefABCDEF") for _ in range(6))
    thr = rng.choice(["5", "25", "0", "999", "1", "75", str(rng.randrange(0, 1000))])
    if not thr_safe(thr):
        thr = "25"
    return [
        ("##", ["#" + eff, "#" + eff.upper()]),
        ("#" + eff, ["##"]),
        ("#" + rnd, ["#" + rnd.swapcase()]),
        ("#ffffff", ["#FFFFFF"] + (["##"] if eff == "ffffff" else [])),
        ("#." + thr, ["#." + thr + "0", "#." + thr + "000"]),
        ("#", []),
        ("", []),
    ]


def gen_pixels(rng, style):
    w = rng.choice([1, 2, 3])
    rows = rng.choice([2, 2, 4])
    px = []
    for _ in range(w * rows):
        r = rng.random()
        a = rng.choice([90, 127, 128, 200]) if r < 0.4 else rng.choice(DEN_ALPHAS)
        px.append([rng.choice([0, 50, 200, 255, rng.randrange(256)]), rng.choice([0, 100, 255, rng.randrange(256)]),
                   rng.choice([0, 50, 255, rng.randrange(256)]), a])
    px[rng.randrange(len(px))] = [200, 100, 50, 128]      # always one clearly translucent, saturated pixel
    return w, px


def den_alpha_jobs(ctx):
    rng = ctx.rng
    jobs = []
    heads = ["1.1", "<1.^1", ">1._1", "|1.-1"]
    stails = {"block": [""], "kitty": ["", "+W", "+L", "+Wz1c9"], "iterm2": ["", "+W", "+L", "+Wm1c0"]}
    reps = 1 if ctx.quick else 12
    for st in STYLES:
        for _ in range(reps):
            for bg in (None, [rng.randrange(256) for _ in range(3)], rng.choice([[0, 0, 0], [255, 255, 255]])):
                for tail, eq_tails in alpha_tails(rng, bg):
                    w, px = gen_pixels(rng, st)
                    head, stl = rng.choice(heads), rng.choice(stails[st])
                    jobs.append({"kind": "alpha", "style": st, "bg": bg, "w": w, "pixels": px,
                                 "spec": head + tail + stl, "eqs": [head + t + stl for t in eq_tails]})
    # the exact 8-bit threshold (block text): alpha levels around floor / ceiling of threshold * 255
    thrs = [t for t in THR_EXACT if thr_safe(t)]
    extra = 3 if ctx.quick else 120
    for _ in range(extra):
        t = "".join(rng.choice("0123456789") for _ in range(rng.choice([1, 2, 3, 6])))
        k = rng.randrange(1, 255)
        t2 = rng.choice([t, "%06d" % ((2 * k + 1) * 1000000 // 510 + rng.choice([0, 1]))])   # just below / above k + 1/2
        if thr_safe(t2):
            thrs.append(t2)
    for t in thrs:
        fl = int(t) * 255 // 10 ** len(t)
        levels = [a for a in (fl - 1, fl, fl + 1, fl + 2) if 0 <= a <= 255]
        px = [[rng.choice([255, 200, rng.randrange(256)]), rng.choice([0, 100, rng.randrange(256)]),
               rng.choice([0, 50, rng.randrange(256)]), a] for a in levels]
        while len(px) < 4:
            px.append(list(px[-1]))
        rng.shuffle(px)
        bg = rng.choice([None, None, [rng.randrange(256) for _ in range(3)]])
        head = rng.choice(heads)
        jobs.append({"kind": "alpha", "style": "block", "bg": bg, "w": 2, "pixels": px,
                     "spec": head + "#." + t, "eqs": [head + "#." + t + "0"], "exact": True})
    return jobs


def acase_term(job, r):
    def nl(s):
        return nlist([ord(c) for c in s])
    eqs = "[" + "; ".join(nl(s) for s in job["eqs"]) + "]" if job["eqs"] else "(@nil (list N))"
    bg = "None" if job["bg"] is None else "(Some %d%%Z)" % int(hex6(job["bg"]), 16)
    shown = r.get("px") or []
    pairs = []
    for p, o in zip(job["pixels"], shown):
        pairs.append("({| p_r := %d; p_g := %d; p_b := %d; p_a := %d |}, %s)" % (
            p[0], p[1], p[2], p[3], "None" if o is None else "Some (%d, %d, %d)%%Z" % tuple(o)))
    px = "[" + "; ".join(pairs) + "]" if pairs else "(@nil (px * shown))"
    return ("{| a_sty := %s; a_spec := %s; a_eqs := %s; a_bg := %s; a_kind := %d; a_px := %s; a_same := %s |}" % (
        COQ_STYLE[job["style"]], nl(job["spec"]), eqs, bg, r["k"], px, nlist(r.get("same", []), "Z")))


def check_alpha(jobs, tag="c19da"):
    if not jobs:
        return [], [], []
    res = core.run_impl_parallel("impl_c19den.py", jobs, chunk=max(1, (len(jobs) + core.NCPU - 1) // core.NCPU))
    errors = []
    for j, r in zip(jobs, res):
        if "error" in r or r.get("err"):
            errors.append(f"denotation driver: {j['style']} {j['spec']!r}: {(r.get('error') or r.get('err'))[-800:]}")
            r.setdefault("k", 9)
    terms = [acase_term(j, r) for j, r in zip(jobs, res)]
    bad, errs = core.coq_shards(tag, HEADER, terms, "acase", "xbad cases", shard=120)
    codes = [0] * len(jobs)
    for i, c in bad:
        codes[i] = c
    return res, codes, errors + errs


def describe_bg(bg):
    return "undetermined" if bg is None else "#" + hex6(bg)


def alpha_failure(job, r, code):
    return {
        "signature": core.sig({"den": "alpha", "spec": job["spec"], "bg": job["bg"] is not None}),
        "what": (f"format({COQ_STYLE[job['style']]}Image, {job['spec']!r}) on a terminal whose background colour is "
                 f"{describe_bg(job['bg'])}, image {job['w']} pixels wide with pixels (r,g,b,a) {job['pixels']}: the text "
                 f"displays {r.get('px')} (null = terminal background shows); same output as the documented-equivalent "
                 f"specifiers {job['eqs']}: {r.get('same')} — contradicts the documented transparency treatment "
                 f"('#' bgcolor = the terminal's default background colour, or black if undetermined; a threshold t: "
                 f"pixels of alpha level a are opaque iff a >= the nearest integer to 255 t, e.g. "
                 f"{thr_note(job['spec'])}; check code {code})"),
        "replay": {"kind": "den-alpha", "job": job, "observed": r, "code": code},
    }


def thr_note(spec):
    m = re.search(r"#\.(\d+)", spec)
    if not m:
        return "default threshold 40/255"
    return f"'.{m.group(1)}' * 255 = {int(m.group(1)) * 255 / 10 ** len(m.group(1)):.6g} -> level {thr8_exact(m.group(1))}"


def shrink_alpha(job):
    """One source pixel (over itself), no style part, while the documentation is still contradicted."""
    cands = []
    for p in list(dict.fromkeys(map(tuple, job["pixels"]))):
        cands.append(dict(job, w=1, pixels=[list(p), list(p)]))
    res, codes, errs = check_alpha(cands, tag="c19das")
    if errs:
        return None
    hits = [(j, r, c) for j, r, c in zip(cands, res, codes) if 2 <= c < 4]
    m = re.search(r"#\.(\d+)", job["spec"])
    centre = thr8_exact(m.group(1)) if m else 128
    hits.sort(key=lambda x: abs(x[0]["pixels"][0][3] - centre))
    return hits[0] if hits else None


FRAME_CORPUS = [
    # style, fmt, src, size, width, set_method, rff, spec
    ("iterm2", "apng", "file", [6, 6], 4, None, None, "1.1+W"),
    ("iterm2", "webp", "file", [6, 6], 4, None, None, "1.1#.5+Wc9"),
    ("iterm2", "apng", "file", [6, 6], 4, "whole", None, "<20.^6#"),
    ("iterm2", "webp", "pil-file", [5, 4], 3, None, None, "+W"),
    ("iterm2", "apng", "file", [6, 6], 4, None, None, "1.1+A"),
    ("iterm2", "apng", "file", [6, 6], 4, "anim", None, "1.1"),
    ("iterm2", "apng", "file", [6, 6], 4, None, None, "1.1+L"),
    ("iterm2", "gif", "file", [6, 6], 4, None, None, "1.1+W"),
    ("iterm2", "apng", "file", [6, 6], 4, None, False, "1.1+Wm1"),
    ("iterm2", "apng", "file", [60, 60], 2, None, None, "1.1+W"),
    ("kitty", "apng", "file", [6, 6], 3, None, None, "1.1+W"),
    ("kitty", "webp", "file", [6, 6], 3, None, None, "1.1+Lc9"),
]


def den_frame_jobs(ctx):
    rng = ctx.rng
    rows = list(FRAME_CORPUS)
    for _ in range(6 if ctx.quick else 150):
        st = rng.choice(["iterm2", "iterm2", "iterm2", "kitty"])
        fmt = rng.choice(["apng", "webp", "gif"])
        src = "file" if fmt == "apng" or rng.random() < 0.6 else "pil-file"
        size = rng.choice([[6, 6], [4, 8], [10, 3], [60, 60], [1, 1]])
        meths = ["lines", "whole"] + (["anim"] if st == "iterm2" else [])
        spec = rng.choice(["", "1.1", "<9.^4", ">3"]) + rng.choice(["", "", "#", "##", "#.5", "#102030"])
        sp = rng.choice(["", "W", "W", "L", "A" if st == "iterm2" else "W"]) + rng.choice(["", "m1", "z3" if st == "kitty" else ""]) \
            + rng.choice(["", "c0", "c9"])
        if st == "kitty" and "z" in sp and "m" in sp:     # field order: z before m
            sp = sp.replace("m1", "")
        if sp:
            spec += "+" + sp
        rows.append((st, fmt, src, size, rng.choice([1, 2, 4]), rng.choice([None, None] + meths),
                     rng.choice([None, None, False, True]), spec))
    jobs = []
    for st, fmt, src, size, width, sm, rff, spec in rows:
        n = rng.choice([2, 3, 4, 5])
        seeks = list(range(n))
        rng.shuffle(seeks)
        seeks = seeks[:3]
        if 0 in seeks and seeks[0] == 0 and len(seeks) > 1:
            seeks = seeks[1:] + [0]
        if src == "pil-file":
            seeks.sort()
        jobs.append({"kind": "frames", "style": st, "fmt": fmt, "n": n, "size": size, "width": width, "src": src,
                     "set_method": sm, "rff": rff, "spec": spec, "seeks": seeks})
    return jobs


def fcase_term(job, facts, route, o, pos):
    main = job["spec"].split("+")[0]
    alpha_float = "#" not in main or "#." in main
    modeok = facts["mode"] in ("1", "L", "RGB", "HSV", "CMYK") or (alpha_float and facts["mode"] not in ("P", "PA"))
    src = ("{| s_animated := %s; s_readable := %s; s_fits := %s; s_modeok := %s; s_rff := %s |}" % tuple(
        COQ_BOOL[int(bool(x))] for x in (facts["animated"], facts["readable"], facts["fits"], modeok, facts["rff"])))
    trans = "[" + "; ".join("(%s, %s)" % (core.z(a), core.z(b)) for a, b in o.get("trans", [])) + "]" \
        if o.get("trans") else "(@nil (Z * Z))"
    return ("{| f_sty := %s; f_spec := %s; f_cur := %d; f_src := %s; f_nframes := %d; f_pos := %d; f_lines := %d; "
            "f_route := %d; f_kind := %d; f_trans := %s; f_iter_same := %s |}" % (
                COQ_STYLE[job["style"]], nlist([ord(c) for c in job["spec"]]), facts["method"], src, facts["n_frames"],
                pos, facts["rendered"][1], route, o["k"], trans, core.z(o.get("iter_same", -1))))


def check_frames(jobs, tag="c19df"):
    """Returns (cases [(job, route, position, observation)], codes, errors)."""
    if not jobs:
        return [], [], []
    res = core.run_impl_parallel("impl_c19den.py", jobs, chunk=max(1, (len(jobs) + core.NCPU - 1) // core.NCPU))
    cases, terms, errors = [], [], []
    for j, r in zip(jobs, res):
        if "error" in r:
            errors.append(f"denotation driver (frames): {j}: {r['error'][-800:]}")
            continue
        for o in r["obs"]:
            cases.append((j, 0, o["pos"], o))
            terms.append(fcase_term(j, r["facts"], 0, o, o["pos"]))
        for i, o in enumerate(r["iter"]):
            cases.append((j, 1, i, o))
            terms.append(fcase_term(j, r["facts"], 1, o, i))
    bad, errs = core.coq_shards(tag, HEADER, terms, "fcase", "fbad cases", shard=200)
    codes = [0] * len(cases)
    for i, c in bad:
        codes[i] = c
    return cases, codes, errors + errs


def frames_failure(job, route, pos, o, code):
    one = dict(job, seeks=[pos]) if route == 0 else job
    call = f"format(image, {job['spec']!r}) after image.seek({pos})" if route == 0 else \
        f"frame {pos} of ImageIterator(image, 1, {job['spec']!r})"
    return {
        "signature": core.sig({"den": "frames", "style": job["style"], "spec": job["spec"], "fmt": job["fmt"],
                               "src": job["src"], "route": route, "nonzero": pos != 0}),
        "what": (f"{COQ_STYLE[job['style']]}Image on a {job['n']}-frame {job['fmt'].upper()} file ({job['src']}, "
                 f"{job['size'][0]}x{job['size'][1]} pixels, width={job['width']}, set_render_method={job['set_method']}, "
                 f"read_from_file={job['rff']}): {call}: outcome {o['k']}, transmitted pictures [frames held, frame shown] = "
                 f"{o.get('trans')}, equal to the iterator's frame: {o.get('iter_same')} {o.get('exc', '')} — contradicts the "
                 f"documented style arguments (L / W: current frame only; A: native animation; check code {code})"),
        "replay": {"kind": "den-frames", "job": one, "route": route, "pos": pos, "observed": o, "code": code},
    }


GFX_CORPUS = [
    # style, src, mode, size, width, set_method, rff, spec
    ("iterm2", "file", "RGBA", [4, 4], 4, "whole", None, "1.1#00ff00"),
    ("iterm2", "file", "RGBA", [4, 4], 4, None, None, "1.1##+W"),
    ("iterm2", "file", "LA", [4, 4], 4, None, True, "<9.^4#123456+W"),
    ("iterm2", "file", "RGBA", [4, 4], 4, None, None, "1.1+W"),
    ("iterm2", "file", "RGBA", [4, 4], 4, None, None, "1.1#.5+W"),
    ("iterm2", "file", "RGBA", [4, 4], 4, None, None, "1.1#+W"),
    ("iterm2", "file", "RGB", [4, 4], 4, None, None, "1.1#00ff00+W"),
    ("iterm2", "file", "P", [4, 4], 4, None, None, "1.1+W"),
    ("iterm2", "file", "P", [4, 4], 4, None, None, "1.1##+W"),
    ("iterm2", "file", "RGBA", [60, 60], 2, None, None, "1.1#00ff00+W"),
    ("iterm2", "file", "RGBA", [4, 4], 4, None, False, "1.1#00ff00+W"),
    ("iterm2", "file", "RGBA", [4, 4], 4, None, None, "1.1#00ff00+L"),
    ("iterm2", "pil-file", "RGBA", [4, 4], 4, None, None, "1.1#00ff00+W"),
    ("iterm2", "pil-file", "LA", [4, 4], 4, "whole", None, "##"),
    ("iterm2", "pil", "RGBA", [4, 4], 4, None, None, "1.1#00ff00+W"),
    ("iterm2", "file", "RGBA", [4, 4], 4, "anim", None, "1.1##"),
    ("iterm2", "file", "RGBA", [4, 4], 4, None, None, "1.1#abcdef+A"),
    ("iterm2", "file", "L", [4, 4], 4, None, None, "1.1#+W"),
    ("kitty", "file", "RGBA", [4, 4], 3, None, None, "1.1#00ff00+W"),
    ("kitty", "file", "LA", [4, 4], 3, None, None, "1.1##+L"),
    ("kitty", "pil", "P", [4, 4], 3, None, None, "1.1#"),
    ("kitty", "file", "RGBA", [60, 60], 2, None, None, "1.1"),
]
MODE_CLASS = {"opaque": "MOpaque", "alpha": "MAlpha", "pal": "MPal"}


def den_gfx_jobs(ctx):
    rng = ctx.rng
    rows = list(GFX_CORPUS)
    for _ in range(14 if ctx.quick else 400):
        st = rng.choice(["iterm2", "iterm2", "iterm2", "kitty"])
        src = rng.choice(["file", "file", "file", "pil-file", "pil"])
        mode = rng.choice(["RGBA", "RGBA", "LA", "P", "RGB", "L"])
        size = rng.choice([[4, 4], [4, 4], [2, 6], [60, 60], [1, 1], [30, 40]])
        meths = ["lines", "whole"] + (["anim"] if st == "iterm2" else [])
        rnd = "".join(rng.choice("0123456789abcdefABCDEF") for _ in range(6))
        spec = rng.choice(["", "1.1", "<9.^4", ">3"]) + rng.choice(["", "#", "##", "##", "#.5", "#." + str(rng.randrange(1000)),
                                                                 "#" + rnd, "#" + rnd, "#00ff00"])
        sp = rng.choice(["", "W", "W", "W", "L", "A" if st == "iterm2" else "W"]) \
            + rng.choice(["", "", "m1", "z3" if st == "kitty" else ""]) + rng.choice(["", "c0", "c9"])
        if st == "kitty" and "z" in sp and "m" in sp:
            sp = sp.replace("m1", "")
        if sp:
            spec += "+" + sp
        rows.append((st, src, mode, size, rng.choice([1, 2, 4]), rng.choice([None, None, "whole"] + meths),
                     rng.choice([None, None, True, False]), spec))
    jobs = []
    for st, src, mode, size, width, sm, rff, spec in rows:
        a = 255 if mode in ("RGB", "L") else rng.choice([0, 0, 64, 90, 128, 128, 200, 255])
        v = rng.choice([200, 255, 30, rng.randrange(256)])
        pixel = [v, v, v, a] if mode in ("L", "LA") else [v, rng.choice([100, 0, rng.randrange(256)]), rng.choice([50, 255, rng.randrange(256)]), a]
        bg = rng.choice([None, [rng.randrange(256) for _ in range(3)]])
        jobs.append({"kind": "gfx", "style": st, "bg": bg, "src": src, "mode": mode, "pixel": pixel, "size": size,
                     "width": width, "set_method": sm, "rff": rff, "spec": spec})
    # a palette image whose only entry is FULLY transparent (an index, not an alpha table), transparency disabled /
    # bgcolor / default: found on the unchanged tree in round 8 (pending_fixes/C19_disabled_transparency_colour_key)
    for st, sp in (("iterm2", "1.1#+W"), ("iterm2", "1.1#+L"), ("iterm2", "1.1##+W"), ("iterm2", "1.1+W"), ("kitty", "1.1#+W")):
        jobs.append({"kind": "gfx", "style": st, "bg": None, "src": "file", "mode": "P", "pixel": [140, 174, 196, 0],
                     "size": [4, 4], "width": 2, "set_method": None, "rff": None, "spec": sp})
    return jobs


def tcase_term(job, r):
    f = r["facts"]
    src = ("{| g_mode := %s; g_animated := %s; g_readable := %s; g_fits := %s; g_rff := %s |}" % (
        (MODE_CLASS[f["modeclass"]],) + tuple(COQ_BOOL[int(bool(f[k]))] for k in ("animated", "readable", "fits", "rff"))))
    sp = "{| p_r := %d; p_g := %d; p_b := %d; p_a := %d |}" % tuple(f["srcpx"])
    pairs = ["(%s, (%d, %d, %d, %d)%%Z)" % ((sp,) + tuple(t)) for t in r.get("tpx", [])]
    px = "[" + "; ".join(pairs) + "]" if pairs else "(@nil (px * tpx))"
    bg = "None" if job["bg"] is None else "(Some %d%%Z)" % int(hex6(job["bg"]), 16)
    return ("{| t_sty := %s; t_spec := %s; t_bg := %s; t_cur := %d; t_src := %s; t_kind := %d; t_px := %s; t_verb := %s |}" % (
        COQ_STYLE[job["style"]], nlist([ord(c) for c in job["spec"]]), bg, f["method"], src, r["k"], px, core.z(r.get("verb", -1))))


def check_gfx(jobs, tag="c19dg"):
    if not jobs:
        return [], [], []
    res = core.run_impl_parallel("impl_c19den.py", jobs, chunk=max(1, (len(jobs) + core.NCPU - 1) // core.NCPU))
    errors, terms, keep = [], [], []
    for j, r in zip(jobs, res):
        if "error" in r:
            errors.append(f"denotation driver (gfx): {j}: {r['error'][-800:]}")
            continue
        keep.append((j, r))
        terms.append(tcase_term(j, r))
    bad, errs = core.coq_shards(tag, HEADER, terms, "tcase", "tbad cases", shard=200)
    codes = [0] * len(keep)
    for i, c in bad:
        codes[i] = c
    return keep, codes, errors + errs


def gfx_failure(job, r, code):
    f = r["facts"]
    return {
        "signature": core.sig({"den": "gfx", "style": job["style"], "spec": job["spec"], "src": job["src"], "mode": job["mode"],
                               "rff": f["rff"], "fits": f["fits"]}),
        "what": (f"format({COQ_STYLE[job['style']]}Image, {job['spec']!r}) on a still {job['mode']} PNG ({job['src']}, "
                 f"{job['size'][0]}x{job['size'][1]} pixels all {f['srcpx']} as RGBA, width={job['width']}, "
                 f"set_render_method={job['set_method']}, read_from_file={f['rff']}"
                 f"{' (library default)' if job['rff'] is None else ''}, original fits the render size: {f['fits']}) on a terminal "
                 f"whose background colour is {describe_bg(job['bg'])}: outcome {r['k']}, the transmitted picture(s) hold the "
                 f"pixels (r,g,b,a) {r.get('tpx')}, payload is the source file verbatim: {r.get('verb')} {r.get('exc', '')} — "
                 f"contradicts the documented transparency treatment for graphics-based styles (bgcolor: every pixel opaque, "
                 f"blended over the colour; '#': alpha ignored; threshold / default: alpha as-is; check code {code})"),
        "replay": {"kind": "den-gfx", "job": job, "observed": r, "code": code},
    }


def den_jobs(ctx):
    """The cases of part 5 (all randomness is drawn here, in the main thread)."""
    rp = ctx.replay["replay"] if ctx.replay else None
    if rp and rp.get("kind") == "den-gfx":
        return [], [], [rp["job"]]
    if not rp:
        a, f = den_alpha_jobs(ctx), den_frame_jobs(ctx)
        return a, f, den_gfx_jobs(ctx)
    ajobs = [rp["job"]] if rp and rp.get("kind") == "den-alpha" else ([] if rp else den_alpha_jobs(ctx))
    fjobs = [rp["job"]] if rp and rp.get("kind") == "den-frames" else ([] if rp else den_frame_jobs(ctx))
    return ajobs, fjobs, []


def den_part(ctx, out, jobs=None):
    """Part 5.  Returns the set of distinct cases judged."""
    rp = ctx.replay["replay"] if ctx.replay else None
    ajobs, fjobs, gjobs = jobs if jobs is not None else den_jobs(ctx)
    distinct = set()
    # (a) transparency
    res, codes, errs = check_alpha(ajobs)
    out["errors"] += errs
    out["evaluations"] += len(ajobs)
    hist = {}
    failing = []
    for j, r, c in zip(ajobs, res, codes):
        key = (f"{j['style']}, background {'known' if j['bg'] is not None else 'undetermined'}, "
               f"{'##' if '##' in j['spec'] else 'hex' if re.search('#[0-9a-fA-F]{6}', j['spec']) else 'threshold' if '#.' in j['spec'] else 'disabled' if '#' in j['spec'] else 'default'}")
        hist[key] = hist.get(key, 0) + 1
        distinct.add(("a", j["style"], j["spec"], json.dumps(j["bg"]), json.dumps(j["pixels"])))
        if c >= 4:
            out["errors"].append(f"ill-formed denotation case (code {c}): {j}")
        elif c >= 2:
            failing.append((j, r, c))
        elif c == 1:
            out["mismatches"].append({"what": "transparency denotation differs from the implementation model only",
                                      "job": j, "observed": r})
    out["histogram"]["denotation_transparency_cases"] = hist
    failing.sort(key=lambda x: (len(x[0]["spec"]), len(x[0]["pixels"]), x[0]["style"] != "block"))
    seen = set()
    for j, r, c in failing:
        if len(seen) >= 2:
            break
        if not ctx.replay and j["style"] == "block":
            small = shrink_alpha(j)
            if small:
                j, r, c = small
        k = (j["spec"], j["bg"] is None)
        if k in seen:
            continue
        seen.add(k)
        out["failures"].append(alpha_failure(j, r, c))
    # (b) frames
    cases, codes, errs = check_frames(fjobs)
    out["errors"] += errs
    out["evaluations"] += len(cases)
    hist = {}
    failing = []
    for (j, route, pos, o), c in zip(cases, codes):
        if rp and (route != rp.get("route") or pos != rp.get("pos")):
            continue
        key = f"{j['style']} {j['fmt']} {j['src']}, {'format' if route == 0 else 'iterator frame'}, position {'0' if pos == 0 else '>0'}"
        hist[key] = hist.get(key, 0) + 1
        distinct.add(("f", j["style"], j["spec"], j["fmt"], j["src"], json.dumps(j["size"]), j["width"], j["set_method"], j["rff"], route, pos))
        if c >= 4:
            out["errors"].append(f"ill-formed frames case (code {c}): {j}")
        elif c >= 2:
            failing.append((j, route, pos, o, c))
        elif c == 1:
            out["mismatches"].append({"what": "frames carried differ from the implementation model only",
                                      "job": j, "route": route, "position": pos, "observed": o})
    out["histogram"]["denotation_frames_cases"] = hist
    # simplest first: short specifier, small source; a non-zero position shows a WRONG frame
    failing.sort(key=lambda x: (len(x[0]["spec"]), x[0]["size"][0] * x[0]["size"][1], x[1], x[2] == 0, x[2]))
    seen = set()
    for j, route, pos, o, c in failing:
        k = (j["style"], j["spec"], route)
        if k in seen or len(seen) >= 2:
            continue
        seen.add(k)
        out["failures"].append(frames_failure(j, route, pos, o, c))
    out["extra"]["denotation_failing_cases_seen"] = len(failing)
    # (c) the picture a graphics-based style transmits
    keep, codes, errs = check_gfx(gjobs)
    out["errors"] += errs
    out["evaluations"] += len(keep)
    hist = {}
    failing = []
    for (j, r), c in zip(keep, codes):
        f = r["facts"]
        t = ('bgcolor' if re.search('#(#|[0-9a-fA-F]{6})', j['spec']) else 'threshold' if '#.' in j['spec']
             else 'disabled' if '#' in j['spec'] else 'default')
        key = (f"{j['style']} {j['src']} {j['mode']}, read_from_file {'on' if f['rff'] else 'off'}, method "
               f"{ {1: 'L', 2: 'W', 3: 'A'}.get(f['method']) if '+' not in j['spec'] else 'by spec'}, "
               f"{'fits' if f['fits'] else 'down-scaled'}, {t}, sent verbatim: {r.get('verb')}")
        hist[key] = hist.get(key, 0) + 1
        distinct.add(("g", json.dumps(j, sort_keys=True)))
        if c >= 4:
            out["errors"].append(f"ill-formed transmitted-picture case (code {c}): {j} {r}")
        elif c >= 2:
            failing.append((j, r, c))
        elif c == 1:
            out["mismatches"].append({"what": "transmitted pixels differ from the implementation model only",
                                      "job": j, "observed": r})
    out["histogram"]["denotation_transmitted_picture_cases"] = hist
    failing.sort(key=lambda x: (len(x[0]["spec"]), x[0]["size"][0] * x[0]["size"][1], x[0]["src"] != "file", x[0]["set_method"] is not None))
    seen = set()
    for j, r, c in failing:
        k = (j["style"], j["spec"])
        if k in seen or len(seen) >= 2:
            continue
        seen.add(k)
        out["failures"].append(gfx_failure(j, r, c))
    out["extra"]["denotation_transmitted_failing_cases_seen"] = len(failing)
    return distinct


def run(ctx):
    rng = ctx.rng
    out = {"failures": [], "mismatches": [], "errors": [], "histogram": {}, "extra": {}, "evaluations": 0, "_confirm": []}
    try:
        reps, refused, table = read_gen()
    except Exception as e:
        return {"errors": [f"cannot read coq/gen/Regexes.v: {e}"], "corr_name": "C19", "evaluations": 0,
                "distinct_nontrivial": 0, "rule": "", "samples": [], "histogram": {}, "mismatches": [], "failures": []}
    first = [chr(r[0]) for r in reps]
    both = [chr(c) for r in reps for c in r]

    env_replay = bool(ctx.replay) and ctx.replay["replay"].get("kind") == "env"
    den_replay = bool(ctx.replay) and str(ctx.replay["replay"].get("kind", "")).startswith("den-")
    err_replay = bool(ctx.replay) and ctx.replay["replay"].get("kind") == "err"
    if env_replay or den_replay or err_replay:
        triples, acc_cases, samples = [], [], []
    elif ctx.replay:
        rp = ctx.replay["replay"]
        triples = [(rp["style"], rp["spec"], rp.get("term", [80, 30]))]
        acc_cases, samples = [], []
    else:
        # 0. the generated table is usable, and a shortest distinguishing word if any
        vals, err = coq_eval("c19w", "Eval vm_compute in tie_ok.\n" + "".join(
            f"Eval vm_compute in (witness {COQ_STYLE[s]}).\n" for s in STYLES) + "Eval vm_compute in witness_main.\n")
        if err or len(vals) != 5:
            out["errors"].append("witness search failed in Coq: " + (err or str(vals)))
            vals = ["true", "None", "None", "None", "None"]
        if vals[0] != "true":
            out["errors"].append("tie_ok = false: the generated class table does not refine a character set "
                                 "(a `ranges` definition of FmtSpec.v unknown to tx_regex.py?)")
        witnesses = {}
        for st, v in zip(STYLES + ["main"], vals[1:]):
            if v.startswith("Some"):
                w = [int(x) for x in re.findall(r"\d+", v)]
                witnesses[st] = "".join(first[c] for c in w)
        out["extra"]["shortest_distinguishing_words"] = witnesses
        for st, s in witnesses.items():
            for st2 in (STYLES if st == "main" else [st]):
                out["_confirm"].append((st2, s, [80, 30]))
        # 1. exhaustive
        acc_cases = exhaustive(ctx, reps, out, table)
        # 2. cases
        triples = []
        cat = {}
        for st in STYLES:
            for sp in CORPUS:
                triples.append((st, sp, [80, 30]))
                cat["corpus"] = cat.get("corpus", 0) + 1
        n = 200 if ctx.quick else 3000
        edit_alpha = both + list("08 xZ\r\t")
        for st in STYLES:
            for i in range(n):
                term = TERMS[0] if i % 2 == 0 else rng.choice(TERMS)
                s = gen_sentence(rng, st)
                r = rng.random()
                if r < 0.45:
                    kind = "sentence"
                elif r < 0.9:
                    s, kind = gen_near(rng, s, edit_alpha), "near-sentence"
                else:
                    s, kind = gen_near(rng, gen_near(rng, s, edit_alpha), edit_alpha), "two-edits"
                if too_big(s):
                    # a padded render is pad_width x pad_height characters: '9999999.999' would be
                    # a 10 GB string (the driver was OOM-killed on seed 21) — keep the box moderate
                    s, kind = gen_sentence(rng, st), "sentence"
                    if too_big(s):
                        s = ""
                triples.append((st, s, term))
                cat[kind] = cat.get(kind, 0) + 1
        out["histogram"]["cases_by_kind"] = cat
        samples = [repr(t[1]) for t in triples[len(CORPUS) * 3:len(CORPUS) * 3 + 6]]

    # judge: confirmations of differences found above first, then the cases, then the
    # accepted strings of the enumeration (their observation is already there)
    confirm = list(dict.fromkeys((a, b, tuple(c)) for a, b, c in out.pop("_confirm")))
    confirm = [(a, b, list(c)) for a, b, c in confirm]
    all_triples = confirm + triples
    codes, obs, anomalies, errs = check_cases(all_triples)
    out["errors"] += errs
    out["evaluations"] += len(all_triples)
    if acc_cases and not errs:
        terms = [case_term(st, sp, tm, o) for st, sp, tm, o in acc_cases]
        bad, errs2 = core.coq_shards("c19a", HEADER, terms, "ccase", "bad cases", shard=250)
        out["errors"] += errs2
        acodes = [0] * len(acc_cases)
        for i, c in bad:
            acodes[i] = c
    else:
        acodes = []
    for (tr, what) in anomalies:
        st, sp, tm = tr
        out["failures"].append({"signature": core.sig({"spec": sp, "anomaly": what.split(":")[0]}),
                                "what": f"{st}: format(image, {sp!r}): {what}",
                                "replay": {"style": st, "spec": sp, "term": tm, "anomaly": what}})
    kinds = {"accepted": 0, "ValueError": 0, "StyleError": 0}
    failing = []
    for (st, sp, tm), o, c in list(zip(all_triples, obs, codes)) + [((a, b, t), o, c) for (a, b, t, o), c in zip(acc_cases, acodes)]:
        kinds[{0: "accepted", 1: "ValueError", 2: "StyleError"}.get(o["k"], "ValueError")] += 1
        if c >= 2:
            failing.append((st, sp, tm, o, c))
        elif c == 1:
            out["mismatches"].append({"what": "observation differs from the implementation model only",
                                      "style": st, "spec": sp, "term": tm, "observed": o})
    out["histogram"]["judged_cases_by_outcome"] = kinds
    out["histogram"]["terminal_sizes"] = {f"{t[0]}x{t[1]}": sum(1 for x in all_triples if x[2] == t) for t in TERMS}
    # shortest first; one failure per distinct minimal specifier
    failing.sort(key=lambda f: (len(f[1]), f[1]))
    seen = set()
    for st, sp, tm, o, c in failing:
        if len(seen) >= 3:
            break
        small = sp
        if not ctx.replay and len(sp) > 3 and len(seen) < 3:
            small = shrink(st, sp, tm)
        if small in seen:
            continue
        seen.add(small)
        if small != sp:
            cs, ob, _, _ = check_cases([(st, small, tm)], tag="c19r")
            o, c = ob[0], cs[0]
        out["failures"].append(failure_of(st, small, tm, o, c))
    out["extra"]["failing_specifiers_seen"] = len(failing)
    # 6. which error a rejected specifier raises (two-fault specifiers + every case judged above)
    err_distinct = set()
    if err_replay or not ctx.replay:
        err_distinct = err_part(ctx, out, [] if ctx.replay or errs else
                                [(st, sp, o) for (st, sp, _), o in zip(all_triples, obs) if o is not None])
    # 4. the same interpretation in every process environment
    # 5. denotation on the output (transparency under a known / undetermined terminal background;
    #    frames carried for animated file sources) — judged concurrently with part 4
    den_thread, den_out, den_res = None, None, []
    if den_replay or not ctx.replay:
        import threading
        jobs5 = den_jobs(ctx)
        den_out = {"failures": [], "mismatches": [], "errors": [], "histogram": {}, "extra": {}, "evaluations": 0}

        def run_den():
            try:
                den_res.append(den_part(ctx, den_out, jobs5))
            except Exception as e:  # noqa: BLE001
                import traceback
                den_out["errors"].append("denotation part failed: " + traceback.format_exc()[-1200:])
        den_thread = threading.Thread(target=run_den)
        den_thread.start()
    env_distinct = env_part(ctx, out) if (env_replay or not ctx.replay) else set()
    if den_thread is not None:
        den_thread.join()
        for k in ("failures", "mismatches", "errors"):
            out[k] += den_out[k]
        out["histogram"].update(den_out["histogram"])
        out["extra"].update(den_out["extra"])
        out["evaluations"] += den_out["evaluations"]
        env_distinct = env_distinct | (den_res[0] if den_res else set())
    env_distinct = env_distinct | err_distinct
    if out["extra"].get("outcome_counts_differ_from_documented_grammar") and not out["failures"]:
        out["errors"].append("the numbers of accepted / StyleError / ValueError strings differ from the documented "
                             "grammar's but no individual failing specifier was confirmed")

    if refused:
        # the implementation model is a stub (tx_regex.py refused the source; reported by the
        # driver as a broken obligation): only the judgement against the documentation counts
        out["extra"]["implementation_model"] = "stub: translator refused the source; model mismatches ignored"
        out["mismatches"] = []
    distinct = {(st, sp) for st, sp, _ in all_triples} | {(st, sp) for st, sp, _, _ in acc_cases}
    return {
        "corr_name": "format(image, spec) on BlockImage/KittyImage/ITerm2Image == FmtSpec model == documented grammar and meaning",
        "evaluations": out["evaluations"],
        "distinct_nontrivial": len(distinct) + len(env_distinct),
        "rule": ("exhaustive: " + out["extra"].get("exhaustive_bound", "(replay)") + "; accepted sets compared as class words and "
                 "ValueError/StyleError counts per length compared inside Coq with the model and with the documented grammar; "
                 "no rejected specifier may reach the renderer or change an attribute.  Cases: corpus of boundary specifiers, "
                 "every accepted string of the enumeration, random sentences / near-sentences (one or two edits), terminal "
                 "sizes 80x30, 100x50, 12x5, 3x3: outcome class, arguments reaching _format_render/_render_image, and "
                 "format() == draw() with the documented-equivalent parameters (draw() not applicable when the padding width "
                 "exceeds the terminal width).  Environments: the same specifiers (explicit padding sizes below / at / above "
                 "the terminal size, absent and zero, all alignment pairs, random sentences and near-sentences) through "
                 "format(), ImageIterator(format_spec=) and str() in child processes whose stdin/stdout/stderr are "
                 + ("4 combinations" if ctx.quick else "all 8 combinations") + " of pipe and pseudo-terminal (window size = the "
                 "case's terminal size; the library's own get_terminal_size() in force): outcome class, geometry measured on "
                 "the returned string, equality with the explicit-parameter route (_format_render(_render_image(..), "
                 "*_check_formatting(..))), judged inside Coq against FmtEnv.impl_format in that environment and against the "
                 "documented geometry.  Non-trivial (counted): distinct (style, specifier) pairs judged individually "
                 "inside Coq, i.e. sentences and near-sentences, plus distinct (style, specifier, environment, terminal size, "
                 "route) environment cases — the bulk of the enumeration (rejected strings) is not counted.  Denotation on the "
                 "output: every transparency field on a terminal whose background colour is undetermined / known, images with "
                 "opaque, partially and fully transparent pixels: the pixels the block text displays and, for all styles, equality "
                 "with the output of documented-equivalent specifiers; animated APNG / WebP / GIF file sources with iterm2 "
                 "L / W / A / no method and kitty L / W at several seek positions: frames held and frame shown by every "
                 "transmitted picture, equality with the frame of ImageIterator(image, 1, spec) — judged inside Coq "
                 "(FmtDenTie.fcheck, FmtDenPixTie.xcheck); counted: distinct (style, specifier, background, pixels) and (source, "
                 "specifier, route, position) cases.  Round 8: block pixels are judged by the EXACT threshold rule (alpha level >= "
                 "nearest integer to 255 t <=> opaque; thresholds with the fractional part of 255 t below / at / above one half, "
                 "pixels at floor-1 .. floor+2); still PNG sources (RGBA / LA / P / RGB / L; file, PIL image with file name, PIL "
                 "image in memory; fitting / down-scaled; method L / W / A; read_from_file library default / on / off) on iterm2 "
                 "and kitty: the transmitted pictures are decoded and their pixels judged against the source pixel "
                 "(FmtDenPixTie.tcheck); counted: distinct jobs.  Round 9, which error: specifiers wrong in more than one "
                 "way (general-form fault x foreign leading / trailing portion / fields out of order / field of another style "
                 "x z-index at and beyond +-2**31 in ASCII and Arabic-Indic digits; per style) and every case of part 2: the "
                 "EXACT exception class (module-qualified name) is judged inside Coq against FmtErr.spec_error and class + "
                 "message kind against FmtErr.impl_error (FmtErrTie.echeck); counted: distinct (style, specifier)."),
        "samples": samples + [f"{st}:{sp!r}" for st, sp, _, _ in acc_cases[:3]] + out.get("_env_samples", []),
        "histogram": out["histogram"],
        "mismatches": out["mismatches"],
        "failures": out["failures"],
        "errors": out["errors"],
        "assumptions": [
            "the regular-expression engine accepts exactly the language of the pattern (fullmatch) and, for the style "
            "field patterns (shape checked by tx_regex.py), its match at a position is the longest one",
            "group 10 of _FORMAT_SPEC is the text after the first '+' (the specifier parses unambiguously); the scanner "
            "FmtSpec.parse yields the groups — validated on every accepted string of the enumeration and on the cases",
            "terminal size: at least 1 column and 3 lines (for 'absent = terminal width / terminal height minus two')",
            "environment theorems: the image's rendered size is at least 1x1; what a process can learn about its "
            "surroundings is modelled as (reported terminal size, which of stdin/stdout/stderr are terminals) — other "
            "inputs (environment variables, the terminal's identity) are exercised only as far as the child processes "
            "of the correspondence fix them (COLUMNS/LINES = the terminal size, queries disabled)",
            "z-index digits: the documentation says 'integer'; read as what int() accepts (Unicode decimal digits)",
            "which error: the documentation fixes the exception CLASS (ValueError for the general form and for out-of-range "
            "values, StyleError for a style part that is not a sentence: BaseImage._check_style_format_spec 'Raises' + 'Handle "
            "the portions in the order invalid, parent, current, so that validity can be determined before any further "
            "processing'); the wording of the messages and which of several out-of-range fields of ONE level is reported are "
            "not documented: the message kind is compared with the model of the code only; from a specifier only kitty's "
            "z-index can be out of range (compression is one digit 0-9, 'c10' is 'c1' + a foreign trailing '0')",
            "denotation on the output: Pillow's alpha compositing is the exact blend to within one unit per channel (two units "
            "for a transmitted picture that was resampled first); the terminal's background colour enters through "
            "the test-suite's stub of get_fg_bg_colors()",
            "exact threshold: the documentation's 'alpha value above the given threshold' is read as 'alpha level at or above the "
            "level nearest to 255 * threshold' (at an exact tie k + 1/2 either neighbour; the model: half-to-even); only "
            "thresholds whose double product rounds like the exact one are generated (at most 12 digits, re-checked with "
            "Python's round())",
            "a threshold '.ddd' denotes the double nearest to the decimal (checked to 2^-54); '#.99999999999999999999' "
            "is 1.0 as a double, which draw(alpha=) would refuse — not exercised, not counted as a violation",
        ],
        "trusted": [
            "tx_regex.py: CPython's re._parser + the translation of its parse tree to ranges (the class table it emits is "
            "re-checked in Coq)",
            "impl driver: instance-level wrappers of _format_render/_render_image; draw() output captured from sys.stdout",
            "denotation driver (impl_c19den.py): the shared lexer reads the block text (fg/bg SGR + half-block glyphs) and the "
            "graphics payloads; Pillow decodes the transmitted pictures; a frame is identified by the colour of its first pixel; "
            "round 8: Pillow writes the still PNG sources and reads back the source pixel (convert('RGBA')) and the transmitted "
            "pixels (corners and centre of every picture)",
            "environment driver (impl_c19env.py): pty.openpty + TIOCSWINSZ give the child a terminal of the stated size; "
            "the child reports isatty() of its streams, utils._tty_fd and get_terminal_size(), which the plugin compares "
            "with the requested environment (a difference is an infrastructure error); the measurement of the geometry "
            "locates the primary render (obtained through the explicit-parameter route) in the returned string",
        ],
        "extra": out["extra"],
    }
