"""C14 — terminal access is serialised across threads and processes.

Correspondence (deterministic scheduling): generated schedules over 2-4 root threads, a
child "process" (and sometimes a grandchild) and the scripted FIFO terminal are replayed on
the REAL `lock_tty` / `_process_start_wrapper` / `_process_run_wrapper` with traced lock
objects whose acquire/release park the calling real thread until a central scheduler
grants the step (impl/impl_c14.py), and on model/Locks.v inside Coq (model/LocksTie.v);
the (thread, event) traces are compared and the observed trace is judged on its own by the
specification's judge (model/LocksSpec.v: bodies never overlap, every reply goes to its
requester), which C14_trace_accepted proves to accept every trace of the model.
Thorough tier: ALL schedules of a small depth (every pick moving) for four thread systems.

CONFIGURATION (model/LocksCfg.v, model/LocksCfgTie.v): schedules also contain configuration
changes performed in some process at any point (term_image.disable_queries() / enable_queries(),
enable_win_size_swap() / disable_win_size_swap(), set_query_timeout(): before the first
Process.start(), between starts, while a start is in flight, in the children), every simulated
process has its own instance of the library module (start methods "spawn": fresh, "fork": copy of
the parent's module state), and the model replays the same items (the code's hand-over does not
look at the configuration: C14_config_mutex, C14_start_handover_ignores_configuration).

Also: a source-shape scan (every inline `with` over the terminal lock acquires it twice).

Supporting evidence only: real fork / spawn children, a grandchild and threads stamp
enter/exit times of a lock_tty-decorated probe into shared memory (run under a pty)."""
from __future__ import annotations

import json
import os
import pty
import subprocess
import tempfile

import core

LEVEL = "proof"
EXTRA_TARGETS = ["model/LocksTie.vo", "model/ExchangeTie.vo", "model/LocksCfgTie.vo", "model/LocksFoundTie.vo"]
CONF = 1000  # schedule items >= CONF: configuration changes, CONF + 8*process + 2*field + value
TERM = 0
SHARD = 24
HANG_SEEN = False

HEADER = ("From Coq Require Import List Arith Bool ZArith.\nImport ListNotations.\n"
          "From TI Require Import lib.Sched model.Locks model.LocksTie model.LocksCfg model.LocksCfgTie.\n"
          "Open Scope nat_scope.\n")


HEADER_X = ("From Coq Require Import List Arith Bool.\nImport ListNotations.\n"
            "From TI Require Import model.Exchange model.ExchangeTie.\nOpen Scope nat_scope.\n")

# ---- exchange scenarios: a REAL query function (first, uncached call; scripted FIFO terminal in
# the OS layer) in thread 1 (and 3), a synchronized reader that does not flush (read_tty_all) in
# thread 2, released at EVERY point of the query function's run (its park points are the lock
# operations: before / between / after the two reads in particular)
XFUNCS = {"name_version": "get_terminal_name_version()", "fg_bg": "get_fg_bg_colors()", "cell_size": "get_cell_size()",
          "query": "query_terminal(DA1)"}
XGETTERS = ["name_version", "fg_bg", "cell_size"]
XREADERS = {"xr": "read_tty_all()", "xs": "UrwidImageScreen.get_available_raw_input() [started screen]"}
X_A_STEPS = 26  # more than the lock operations of the longest query function


def x_cases(rng, quick):
    cases = []
    for f in XGETTERS:
        base = {"xchg": f, "threads": [[1, 0, [["xq", f]]], [2, 0, [["xr", "read_tty_all"]]]]}
        for k in range(X_A_STEPS + 1):
            cases.append(dict(base, sched=[1] * k + [2] * 6))
        for _ in range(4 if quick else 60):
            cases.append(dict(base, sched=[rng.choice([1, 1, 2]) for _ in range(rng.randint(8, 34))]))
    # urwid's event loop (thread B: the input reader of a STARTED UrwidImageScreen on the same
    # terminal) against a query of thread A, released at every lock operation of A — in
    # particular between the write of the request and the read of the reply
    for f, steps in (("query", 16), ("name_version", X_A_STEPS)):
        base = {"xchg": "screen:" + f, "threads": [[1, 0, [["xq", f]]], [2, 0, [["xs"]]]]}
        for k in range(steps + 1):
            cases.append(dict(base, sched=[1] * k + [2] * 6))
        for _ in range(3 if quick else 60):
            cases.append(dict(base, sched=[rng.choice([1, 1, 2]) for _ in range(rng.randint(6, 30))]))
    # two different queries racing with each other and with a reader
    for i in range(12 if quick else 200):
        f, g = rng.sample(XGETTERS, 2)
        rd = ["xs"] if i % 3 == 2 else ["xr", "read_tty_all"]
        cases.append({"xchg": f + "+" + g,
                      "threads": [[1, 0, [["xq", f]]], [2, 0, [rd]], [3, 0, [["xq", g]]]],
                      "sched": [rng.choice([1, 1, 2, 3, 3]) for _ in range(rng.randint(10, 50))]})
    return cases


XMAP = {1: lambda e: [1], 2: lambda e: [2], 10: lambda e: [3], 11: lambda e: [4, e[1]], 12: lambda e: [5, e[1]]}


def x_obs(log):
    return [[t, XMAP[e[0]](e) if e[0] in XMAP else [99]] for t, e in log]


def evaluate_x(cases, tag="c14q"):
    impl = core.run_impl_parallel("impl_c14.py", cases)
    errors = []
    for i, r in enumerate(impl):
        if r.get("error"):
            errors.append(f"exchange case {i}: driver: {r['error']}")
    good = [i for i, r in enumerate(impl) if "log" in r]
    terms = [core.coq_list(x_obs(impl[i]["log"]), lambda e: "(%d, %s)" % (e[0], nl(e[1]))) for i in good]
    out, errs = core.coq_shards(tag, HEADER_X, terms, "list (nat * list nat)", "xbad cases", shard=40)
    errors += errs
    codes = [0] * len(cases)
    for idx, code in out:
        codes[good[idx]] = code
    return codes, errors, impl


def describe_x(c, r=None):
    who = {1: "A", 2: "B", 3: "C"}
    t = " | ".join("%s: %s" % (who[th[0]], XFUNCS[th[2][0][1]] if th[2][0][0] == "xq" else XREADERS[th[2][0][0]])
                   for th in c["threads"])
    s = "threads " + t + " ; schedule " + " ".join(who[x] for x in c["sched"])
    if r and r.get("xres"):
        got = r["xres"].get("2")
        s += " ; B's reader returned %s" % (repr(bytes.fromhex(got)) if got is not None else None)
        s += " ; " + ", ".join("%s returned %s" % (who[int(k)], v) for k, v in sorted(r["xres"].items()) if k != "2")
    return s


def gen_call(rng):
    return ["call", rng.choice([0, 0, 0, 1, 1, 2]), int(rng.random() < 0.4)]


def gen_case(rng, depth=40):
    k = rng.randint(2, 4)
    threads = []
    starter = rng.randint(1, k)
    second_starter = rng.randint(1, k) if rng.random() < 0.15 else None
    for t in range(1, k + 1):
        prog = [gen_call(rng) for _ in range(rng.randint(0 if t == starter else 1, 2))]
        if t == starter:
            prog.insert(rng.randint(0, len(prog)), ["start", 10])
        if t == second_starter:
            prog.insert(rng.randint(0, len(prog)), ["start", 12])
        threads.append([t, 0, prog])
    child = [gen_call(rng) for _ in range(rng.randint(1, 2))]
    grand = rng.random() < 0.3
    if grand:
        child.insert(rng.randint(0, len(child)), ["start", 11])
    threads.append([10, 10, child])
    if rng.random() < 0.3:
        threads.append([13, 10, [gen_call(rng)]])  # a second thread inside the child process
    if grand:
        threads.append([11, 11, [gen_call(rng)]])
    if second_starter is not None:
        threads.append([12, 12, [gen_call(rng)]])
    ids = [t[0] for t in threads]
    # schedule: runs of one thread (to get deep into a call) mixed with single picks
    sched = []
    mode = rng.random()
    while len(sched) < depth:
        t = rng.choice(ids[:k] * 3 + ids[k:] + [TERM])
        run = 1 if mode < 0.4 else rng.choice([1, 1, 2, 3, 5])
        sched += [t] * run
    sched = sched[:rng.randint(depth // 2, depth)]
    # the library's configuration changes at any point, in any (simulated) process: before the first
    # start (often at the very beginning), between starts, while a start is in flight, in the children
    procs = sorted({t[1] for t in threads})
    style = rng.random()
    if style < 0.75:
        for _ in range(rng.choice([1, 1, 2, 3, 5])):
            sched.insert(rng.randint(0, len(sched)), conf_item(rng, procs))
    if style < 0.45:
        # a setting changed before anything else happens (boundary): mostly "queries disabled"
        sched.insert(0, CONF + 2 * rng.choice([0, 0, 0, 1, 2]) + rng.choice([0, 0, 0, 1]))
    return {"threads": threads, "sched": sched, "method": rng.choice(["spawn", "fork"])}


def conf_item(rng, procs):
    p = rng.choice([0, 0, 0] + procs)
    f = rng.choice([0, 0, 0, 0, 1, 1, 2])
    return CONF + 8 * p + 2 * f + rng.choice([0, 0, 1])


CONF_NAMES = {(0, 0): "disable_queries", (0, 1): "enable_queries", (1, 0): "disable_win_size_swap",
              (1, 1): "enable_win_size_swap", (2, 0): "set_query_timeout(default)", (2, 1): "set_query_timeout(0.25)"}


def item_str(x):
    if x < CONF:
        return str(x)
    m = x - CONF
    return "[P%d:%s]" % (m // 8, CONF_NAMES.get((m % 8 // 2, m % 2), "field%d=%d" % (m % 8 // 2, m % 2)))


# the race the second `with` item exists for: 2 reads T and waits, 1 swaps the lock and
# releases T, 2 gets the OLD lock, 3 takes the new one
RACE = {"threads": [[1, 0, [["start", 10]]], [2, 0, [["call", 0, 0]]], [3, 0, [["call", 0, 1]]],
                    [10, 10, [["call", 1, 1]]]],
        "sched": [1, 2, 1, 1, 2, 2, 3, 3, 3, 0, 3, 2, 1]}
CORPUS = [
    RACE,
    dict(RACE, sched=[1, 2, 1, 1, 1, 10, 2, 10, 3, 2, 10, 3, 0, 10, 3]),
    # re-entrant calls while others wait; terminal round trips
    {"threads": [[1, 0, [["call", 2, 1], ["start", 10]]], [2, 0, [["call", 1, 1]]], [10, 10, [["call", 2, 1]]]],
     "sched": [1, 2, 1, 2, 1, 1, 1, 1, 2, 1, 1, 0, 2, 1, 1, 1, 1, 1, 1, 1, 1, 2, 2, 2]},
    # child starts a grandchild; second thread in the child process
    {"threads": [[1, 0, [["start", 10], ["call", 0, 1]]], [2, 0, [["call", 0, 1], ["call", 1, 0]]],
                 [10, 10, [["call", 0, 1], ["start", 11]]], [13, 10, [["call", 1, 1]]], [11, 11, [["call", 0, 1]]]],
     "sched": [2, 2, 1, 1, 1, 1, 1, 10, 10, 13, 13, 2, 2, 0, 2, 2, 2, 2, 10, 10, 10, 0, 10, 10, 10, 10, 10, 10, 10, 10, 11, 11]},
    # two starts racing
    {"threads": [[1, 0, [["start", 10]]], [2, 0, [["start", 12]]], [3, 0, [["call", 0, 0]]],
                 [10, 10, [["call", 0, 0]]], [12, 12, [["call", 0, 1]]]],
     "sched": [1, 2, 3, 1, 2, 3, 1, 1, 2, 2, 1, 2, 3, 3, 10, 12, 10, 12]},
    # the schedule of C14_share_only_when_queries_enabled_refuted: queries are disabled, the child is
    # started, parent and child call a synchronized function at the same time (both start methods)
    {"threads": [[1, 0, [["start", 10], ["call", 0, 0]]], [10, 10, [["call", 0, 0]]]],
     "sched": [CONF, 1, 1, 1, 1, 1, 1, 1, 10, 10, 10], "method": "spawn"},
    {"threads": [[1, 0, [["start", 10], ["call", 0, 0]]], [10, 10, [["call", 0, 0]]]],
     "sched": [CONF, 1, 1, 1, 1, 1, 1, 1, 10, 10, 10], "method": "fork"},
    # queries disabled while the start is in flight, re-enabled after it; a second start afterwards;
    # the child changes its own configuration and starts a grandchild; queries on both sides
    {"threads": [[1, 0, [["start", 10], ["call", 0, 1]]], [2, 0, [["call", 1, 1], ["start", 12]]],
                 [10, 10, [["start", 11], ["call", 0, 1]]], [11, 11, [["call", 0, 1]]], [12, 12, [["call", 1, 0]]]],
     "sched": [1, 1, CONF, 1, 1, CONF + 1, CONF + 3, 2, 2, 2, 10, CONF + 80, 10, 10, 10, 2, 0, 2, 2, 2, 2, 2, CONF,
               2, 2, 2, 2, 10, 10, 11, 11, 12, 12, 1, 1, 0, 11, 11], "method": "fork"},
    # every setting changed before the first start, in a process that does not exist yet as well
    {"threads": [[1, 0, [["call", 0, 0], ["start", 10]]], [2, 0, [["call", 0, 1]]], [10, 10, [["call", 1, 1]]],
                 [13, 10, [["call", 0, 0]]]],
     "sched": [CONF, CONF + 3, CONF + 5, CONF + 80, 1, 1, 1, 2, 2, 1, 1, 1, 1, 1, 1, 1, 10, 13, 10, 13, 2, 2, 0, 2, 10, 13],
     "method": "spawn"},
]


def cmd_term(c):
    if c[0] == "call":
        return "CCall %d %s" % (c[1], "true" if c[2] else "false")
    return "CStart %d" % c[1]


def nl(l):
    return core.coq_list(l, str)


def case_term(c, r):
    return "{| qc_case := {| l_threads := %s; l_term := %d; l_sched := %s; l_obs := %s |}; qc_fork := %s |}" % (
        core.coq_list(c["threads"], lambda t: "(%d, %d, %s)" % (t[0], t[1], core.coq_list(t[2], cmd_term))),
        TERM, nl(r["sched"]), core.coq_list(r["log"], lambda e: "(%d, %s)" % (e[0], nl(e[1]))),
        "true" if c.get("method", "spawn") == "fork" else "false")


def evaluate(cases, tag="c14", want_racy=False):
    global HANG_SEEN
    if HANG_SEEN:  # the code under test blocks for real somewhere: do not wait long again
        cases = [dict(c, grant_timeout=2) for c in cases]
    impl = core.run_impl_parallel("impl_c14.py", cases)
    errors = []
    for i, r in enumerate(impl):
        if r.get("error"):
            errors.append(f"case {i}: driver: {r['error']}")
            if "did not park" in r["error"]:
                HANG_SEEN = True
    good = [i for i, r in enumerate(impl) if "log" in r]
    terms = [case_term(cases[i], impl[i]) for i in good]
    # one evaluation: bits 0-1 = check (1 differs from the model, 2 contradicts the
    # specification), bit 2 = the single-`with` variant would break the property here, bit 3 = the
    # variant that shares the lock only while queries are enabled would
    out, errs = core.coq_shards(tag, HEADER, terms, "qcase",
                                "badQ_variants cases" if want_racy else "badQ cases", shard=SHARD)
    errors += errs
    codes = [0] * len(cases)
    racy = [0, 0]
    for idx, code in out:
        codes[good[idx]] = code & 3
        racy[0] += bool(code & 4)
        racy[1] += bool(code & 8)
    return codes, errors, impl, racy


def shrink(case, budget_s):
    """delta debugging on the generated part of the schedule (chunks, then single picks); every
    round is one parallel evaluation; bounded by a time budget"""
    import time

    deadline = time.time() + budget_s
    cur = case
    n = max(1, len(cur["sched"]) // 2)
    while time.time() < deadline:
        s = cur["sched"]
        if not s:
            break
        cands = [dict(cur, sched=s[:k] + s[k + n:]) for k in range(0, len(s), n)]
        codes, errors, _, _ = evaluate(cands, tag="c14s")
        nxt = next((c for c, code in zip(cands, codes) if code >= 2), None)
        if nxt is not None:
            cur = nxt
            n = min(n, max(1, len(cur["sched"])))
        elif n == 1:
            break
        else:
            n = max(1, n // 2)
    return cur


def describe(c):
    def prog(p):
        return "; ".join("call(depth=%d%s)" % (x[1], ",query" if x[2] else "") if x[0] == "call" else "start(P%d)" % x[1] for x in p)
    return ("threads " + " | ".join("t%d@P%d: %s" % (t[0], t[1], prog(t[2])) for t in c["threads"])
            + " ; children start by " + c.get("method", "spawn")
            + " ; schedule " + " ".join(map(item_str, c["sched"])))


# exhaustive enumeration (thorough tier): ALL schedules of the given depth in which every
# pick moves (a blocked pick is a no-op), each completed round-robin.  The set of threads
# that can move after a prefix is reported by the driver (it is a fact about the real
# code under the scheduler, not taken from the model).
EXHAUSTIVE = [
    # 2 callers (one queries the terminal) + 1 starter + the child's thread
    ({"threads": [[1, 0, [["start", 10]]], [2, 0, [["call", 0, 0]]], [3, 0, [["call", 0, 1]]],
                  [10, 10, [["call", 0, 0]]]]}, 11),
    # re-entrant caller + caller + starter
    ({"threads": [[1, 0, [["start", 10]]], [2, 0, [["call", 1, 0]]], [3, 0, [["call", 0, 0]]],
                  [10, 10, [["call", 0, 1]]]]}, 9),
    # two racing starters + a caller
    ({"threads": [[1, 0, [["start", 10]]], [2, 0, [["start", 12]]], [3, 0, [["call", 0, 0]]],
                  [10, 10, [["call", 0, 0]]], [12, 12, [["call", 0, 0]]]]}, 9),
    # starter-and-caller + the child's thread + the configuration: queries disabled / re-enabled at
    # ANY point of the start and of the calls (each change at most once per schedule)
    ({"threads": [[1, 0, [["start", 10], ["call", 0, 0]]], [10, 10, [["call", 0, 0]]]],
      "conf_items": [CONF, CONF + 1], "method": "spawn"}, 12),
]


def enumerate_schedules(base, depth):
    level, runs = [[]], 0
    for _ in range(depth):
        cases = [dict(base, sched=p, completion_rounds=0) for p in level]
        impl = core.run_impl_parallel("impl_c14.py", cases)
        runs += len(cases)
        nxt = []
        for p, r in zip(level, impl):
            if r.get("error"):
                raise RuntimeError("driver: " + r["error"])
            nxt += [p + [tid] for tid in r["enabled"]]
        if not nxt:
            break
        level = nxt
    return [dict(base, sched=p) for p in level], runs


def with_sites():
    """Source shape: every `with` over the terminal lock outside _process_start_wrapper must
    acquire it twice (`with _tty_lock, _tty_lock:` or two nested withs) — the model's
    `single = false`; the one-acquisition form is the variant refuted in Coq."""
    import ast

    path = os.path.join(str(core.REPO), "src", "term_image", "utils.py")
    tree = ast.parse(open(path).read())
    sites = []

    def n_lock(w):
        return sum(1 for it in w.items if isinstance(it.context_expr, ast.Name) and it.context_expr.id == "_tty_lock")

    def visit(node, func, nested_in_lock_with):
        for ch in ast.iter_child_nodes(node):
            f = ch.name if isinstance(ch, (ast.FunctionDef, ast.AsyncFunctionDef)) else func
            inner = False
            if isinstance(ch, ast.With) and n_lock(ch):
                k = n_lock(ch)
                first = ch.body[0] if ch.body else None
                if isinstance(first, ast.With) and n_lock(first) and len(ch.body) == 1:
                    k += n_lock(first)
                    inner = True
                if not nested_in_lock_with:
                    sites.append({"function": f, "line": ch.lineno, "acquisitions": k})
            visit(ch, f, inner)

    visit(tree, None, False)
    return sites


def run_mp(method, calls=12, hold=0.001, control=False, timeout=150, disable=False):
    """real processes under a pty; returns (intervals or None, info)"""
    master, slave = pty.openpty()
    out = tempfile.NamedTemporaryFile(prefix="c14mp_", suffix=".json", delete=False)
    out.close()
    case = {"mp": {"method": method, "calls": calls, "hold": hold, "control": control, "disable_queries": disable}}
    info = {"method": method, "control": control, "queries_disabled_before_first_start": disable}
    try:
        p = subprocess.Popen([core.IMPL_PY, str(core.VERIF / "harness" / "impl" / "impl_c14.py"), "--mp",
                              json.dumps(case), out.name], stdin=slave, stdout=slave, stderr=slave,
                             env=core.impl_env(), cwd="/", start_new_session=True)
        try:
            rc = p.wait(timeout=timeout)
        except subprocess.TimeoutExpired:
            try:
                os.killpg(p.pid, 9)
            except OSError:
                p.kill()
            return None, dict(info, skipped="timeout")
        txt = open(out.name).read()
        if rc != 0 or not txt:
            tail = b""
            try:
                os.set_blocking(master, False)
                tail = os.read(master, 4000)
            except OSError:
                pass
            return None, dict(info, skipped=f"driver rc={rc}: {tail[-600:].decode(errors='replace')}")
        res = json.loads(txt)
        if "skipped" in res:
            return None, dict(info, skipped=res["skipped"])
        st = res["stamps"]
        iv = [(st[i], st[i + 1]) for i in range(0, len(st), 2)]
        iv = [(a, b) for a, b in iv if a and b]
        base = min(a for a, _ in iv) if iv else 0
        iv = sorted((a - base, b - base) for a, b in iv)
        info.update(intervals=len(iv), expected=5 * calls, alive=res["alive"], exit=res["exit"],
                    early_calls_during_start=res["early_calls"], lock_after=res["lock_type"],
                    span_ms=round((iv[-1][1] - iv[0][0]) / 1e6, 1) if iv else 0,
                    busy_ms=round(sum(b - a for a, b in iv) / 1e6, 1),
                    adjacent_overlaps=sum(1 for x, y in zip(iv, iv[1:]) if y[0] < x[1]))
        return iv, info
    finally:
        os.close(master)
        os.close(slave)
        try:
            os.unlink(out.name)
        except OSError:
            pass


# ---- how the active terminal was found at import time (model/LockImport.v, LocksFound.v): the
# library is imported in REAL processes whose standard streams are terminals / redirected and
# which have / do not have a controlling terminal; the route is generated data
HEADER_F = ("From Coq Require Import List Arith Bool.\nImport ListNotations.\n"
            "From TI Require Import model.LocksTie model.LockImport model.LocksFoundTie.\nOpen Scope nat_scope.\n")
STREAM_NAMES = ("stdout", "stdin", "stderr")
FOUND_CORPUS = [
    {"streams": [1, 1, 1], "ctty": 1, "method": "fork"},   # an interactive program
    {"streams": [0, 1, 0], "ctty": 1, "method": "spawn"},  # prog > out 2> err
    {"streams": [0, 0, 1], "ctty": 1, "method": "fork"},   # prog < in > out
    {"streams": [0, 0, 0], "ctty": 1, "method": "fork"},   # prog < in > out 2> err
    {"streams": [0, 0, 0], "ctty": 1, "method": "spawn"},
    {"streams": [0, 0, 0], "ctty": 0, "method": "fork"},   # a daemon / cron job
]


def found_cases(rng, quick):
    cases = [dict(c) for c in FOUND_CORPUS]
    every = [{"streams": [a, b, c], "ctty": t, "method": m} for a in (0, 1) for b in (0, 1) for c in (0, 1)
             for t in (0, 1) for m in ("fork", "spawn")]
    rest = [c for c in every if c not in cases]
    if quick:
        rng.shuffle(rest)
        rest = rest[:2]
    cases += rest
    return [dict(c, window=1.5 if quick else 3.0) for c in cases]


def found_route(c):
    """the specification of the environment (LockImport.find_terminal), for descriptions only"""
    for k, t in enumerate(c["streams"]):
        if t:
            return STREAM_NAMES[k]
    return "the controlling terminal (all standard streams redirected)" if c["ctty"] else "none"


def run_found(case, timeout=90):
    """-> result dict of impl_c14_found.py, or {"skipped": why}"""
    master, slave = pty.openpty()
    devnull = os.open(os.devnull, os.O_RDWR)
    out = tempfile.NamedTemporaryFile(prefix="c14f_", suffix=".json", delete=False)
    out.close()
    fds = [slave if t else devnull for t in case["streams"]]  # stdout, stdin, stderr
    try:
        p = subprocess.Popen([core.IMPL_PY, str(core.VERIF / "harness" / "impl" / "impl_c14_found.py"),
                              json.dumps(dict(case, ctty_fd=slave)), out.name],
                             stdin=fds[1], stdout=fds[0], stderr=fds[2], env=core.impl_env(), cwd="/",
                             start_new_session=True, pass_fds=(slave,))
        try:
            rc = p.wait(timeout=timeout)
        except subprocess.TimeoutExpired:
            try:
                os.killpg(p.pid, 9)
            except OSError:
                p.kill()
            p.wait()
            return {"skipped": "timeout"}
        txt = open(out.name).read()
        if rc != 0 or not txt:
            return {"skipped": f"driver rc={rc}"}
        return json.loads(txt)
    except Exception as e:
        return {"skipped": f"{type(e).__name__}: {e}"}
    finally:
        for fd in (master, slave, devnull):
            os.close(fd)
        try:
            os.unlink(out.name)
        except OSError:
            pass


def found_usable(c, r):
    """the driver ran, in the environment that was asked for, and the scenario (if any) completed"""
    if "skipped" in r or r.get("error"):
        return False
    if r["env"]["streams"] != c["streams"] or r["env"]["ctty"] != c["ctty"]:
        return False
    if r["tty"] and not (r.get("child_ready") and r.get("child_entered") and not r.get("killed")):
        return False
    return True


def found_term(c, r):
    b = lambda x: "true" if x else "false"  # noqa: E731
    return ("{| fc_env := {| e_streams := %s; e_ctty := %s |}; fc_fork := %s; fc_tty := %s; fc_start := %s; "
            "fc_run := %s; fc_obs := %s |}" % (
                core.coq_list(c["streams"], b), b(c["ctty"]), b(c["method"] == "fork"), b(r["tty"]), b(r["start"]),
                b(r["run"]), core.coq_list(r.get("trace", []), lambda e: "(%d, [%d])" % (e[0], e[1]))))


def describe_found(c, r=None):
    s = "import with %s terminals%s, %s controlling terminal (terminal to be found through: %s); child started by %s" % (
        ", ".join(n for n, t in zip(STREAM_NAMES, c["streams"]) if t) or "no standard stream",
        "" if all(c["streams"]) else " (%s redirected)" % ", ".join(n for n, t in zip(STREAM_NAMES, c["streams"]) if not t),
        "with a" if c["ctty"] else "without", found_route(c), c["method"])
    if r is not None and "tty" in r:
        s += " -> _tty_fd %s, Process.start %s, Process.run %s" % (
            "assigned" if r["tty"] else "== -1", "wrapped" if r["start"] else "NOT wrapped", "wrapped" if r["run"] else "NOT wrapped")
        if r.get("trace"):
            s += "; trace " + " ".join("%s:%s" % ("parent" if t == 1 else "child", "enter" if e == 3 else "exit")
                                       for t, e in r["trace"])
    return s


def mp_plan(ctx):
    """(start method, control run, term_image.disable_queries() before the first Process.start())"""
    plan = [("fork", False, False), ("spawn", False, False), ("spawn", True, False), ("spawn", False, True)]
    if not ctx.quick:
        plan += [("forkserver", False, False), ("fork", False, True), ("forkserver", False, True),
                 ("fork", False, False), ("spawn", False, False)]
    return plan


def run(ctx):
    rng = ctx.rng
    errors = []
    extra = {}
    exhaustive_info = []
    mp_future = None
    if ctx.replay and "case" not in ctx.replay.get("replay", {}):
        # a real-process overlap: the recorded intervals are judged again
        iv = [tuple(p) for p in ctx.replay["replay"].get("intervals", [])]
        terms = [core.coq_list(iv, lambda p: "(%s, %s)" % (core.z(p[0]), core.z(p[1])))]
        bad, errs = core.coq_shards("c14m", HEADER, terms, "list (Z * Z)", "stamps_bad cases", shard=10)
        fails = [{"signature": ctx.replay.get("signature", "mp-overlap"),
                  "what": "recorded enter/exit intervals of a lock_tty probe in real processes overlap",
                  "replay": ctx.replay["replay"]}] if bad else []
        return {"corr_name": "replay of recorded real-process intervals", "evaluations": 1, "distinct_nontrivial": 1,
                "rule": "replay", "samples": [str(iv[:4])], "histogram": {}, "mismatches": [], "failures": fails,
                "errors": errs, "assumptions": [], "trusted": []}
    if not ctx.replay:
        # supporting evidence, started first: real processes run while the schedules are replayed
        from concurrent.futures import ThreadPoolExecutor

        def one(mc):
            try:
                return run_mp(mc[0], calls=12 if ctx.quick else 40, control=mc[1], timeout=40 if ctx.quick else 150,
                              disable=mc[2])
            except Exception as e:  # evidence only: an infrastructure problem is never an alarm
                return None, {"method": mc[0], "control": mc[1], "queries_disabled_before_first_start": mc[2],
                              "skipped": f"{type(e).__name__}: {e}"}

        ex = ThreadPoolExecutor(max_workers=4)
        mp_future = [ex.submit(one, mc) for mc in mp_plan(ctx)]
    xcases = []
    fcases = []
    if ctx.replay and "streams" in ctx.replay["replay"]["case"]:
        fcases, cases = [ctx.replay["replay"]["case"]], []
    elif ctx.replay and "xchg" in ctx.replay["replay"]["case"]:
        xcases, cases = [ctx.replay["replay"]["case"]], []
    elif ctx.replay:
        cases = [ctx.replay["replay"]["case"]]
    else:
        xcases = x_cases(rng, ctx.quick)
        n = 260 if ctx.quick else 3000
        cases = [dict(c) for c in CORPUS] + [gen_case(rng, 40 if i % 5 else 16) for i in range(n)]
        if not ctx.quick:
            for base, depth in EXHAUSTIVE:
                try:
                    more, runs = enumerate_schedules(base, depth)
                except Exception as e:
                    errors.append(f"exhaustive enumeration: {type(e).__name__}: {e}")
                    continue
                exhaustive_info.append({"threads": describe(dict(base, sched=[])).split(" ; ")[0], "depth": depth,
                                        "schedules": len(more), "prefix_runs": runs})
                cases += more
    found_future = None
    if not ctx.replay:
        fcases = found_cases(rng, ctx.quick)
    if fcases:
        # real processes in prepared environments, running while the schedules are replayed
        from concurrent.futures import ThreadPoolExecutor as _TPE

        def one_found(c):
            r = run_found(c)
            if not found_usable(c, r):  # load / timeout: once more
                r = run_found(c)
            return r

        fex = _TPE(max_workers=4 if ctx.quick else 6)
        found_future = [fex.submit(one_found, c) for c in fcases]
    codes, errs, impl, racy = evaluate(cases, want_racy=not ctx.replay) if cases else ([], [], [], [0, 0])
    errors += errs
    mismatches, failures = [], []
    # ---- how the terminal was found: table row + parent/child scenario, judged in Coq
    fhist = {"cases": len(fcases), "terminal_found_through": {}, "start_method": {}, "skipped": 0, "hooks_installed": 0,
             "scenario_runs": 0, "would_race_if_hooks_only_for_std_stream": 0}
    fdistinct = set()
    if found_future is not None:
        fres = [f.result() for f in found_future]
        usable = [i for i, (c, r) in enumerate(zip(fcases, fres)) if found_usable(c, r)]
        fhist["skipped"] = len(fcases) - len(usable)
        fhist["skipped_why"] = sorted({str(fres[i].get("skipped") or fres[i].get("error") or "environment / scenario incomplete")
                                       for i in range(len(fcases)) if i not in usable})[:4]
        if fcases and not usable and any(w != "timeout" for w in fhist["skipped_why"]):  # a timeout is load, not a finding
            errors.append("terminal-found scenarios: no environment could be realised: " + "; ".join(fhist["skipped_why"]))
        for i in usable:
            c, r = fcases[i], fres[i]
            fhist["terminal_found_through"][found_route(c)] = fhist["terminal_found_through"].get(found_route(c), 0) + 1
            fhist["hooks_installed"] += bool(r["start"] and r["run"])
            if r.get("trace"):
                fhist["scenario_runs"] += 1
                fhist["start_method"][c["method"]] = fhist["start_method"].get(c["method"], 0) + 1
                fdistinct.add(core.sig(["found", c["streams"], c["ctty"], c["method"]]))
        if usable:
            out, errs = core.coq_shards("c14f", HEADER_F, [found_term(fcases[i], fres[i]) for i in usable], "fcase",
                                        "badF_variants cases", shard=40)
            errors += errs
            # fork before spawn, fewest terminals first: the simplest failing environment is reported
            for idx, code in sorted(out, key=lambda z: (fcases[usable[z[0]]]["method"] != "fork",
                                                        sum(fcases[usable[z[0]]]["streams"]), z[0])):
                c, r = fcases[usable[idx]], fres[usable[idx]]
                fhist["would_race_if_hooks_only_for_std_stream"] += bool(code & 4)
                code &= 3
                if code >= 2:
                    if sum(1 for f in failures if f["replay"].get("case", {}).get("streams") is not None) < 2:
                        failures.append({
                            "signature": core.sig(["found", c["streams"], c["ctty"], c["method"]]),
                            "what": "a parent process and the child it started with multiprocessing.Process were inside "
                                    "@lock_tty functions at the same time: " + describe_found(c, r),
                            "replay": {"case": c, "observed": r, "code": code},
                        })
                elif code == 1:
                    mismatches.append({"case": c, "code": 1, "observed": r,
                                       "what": "terminal found / hooks installed / scenario trace differ from the model: "
                                               + describe_found(c, r)})
    # ---- exchanges: every byte read belongs to the reader's own reply (judged in Coq)
    xhist = {"cases": len(xcases), "per_function": {}, "reader_had_to_wait": 0, "departs_from_discipline": 0,
             "reply_delivered_to_another_caller": 0}
    if xcases:
        xcodes, errs, ximpl = evaluate_x(xcases)
        errors += errs
        seen_fail = set()
        for c, r, code in sorted(zip(xcases, ximpl, xcodes), key=lambda z: len(z[0]["sched"])):
            xhist["per_function"][c["xchg"]] = xhist["per_function"].get(c["xchg"], 0) + 1
            xhist["reader_had_to_wait"] += bool(r.get("blocked_picks"))
            if code >= 2:
                xhist["reply_delivered_to_another_caller"] += 1
                if c["xchg"] not in seen_fail and len(seen_fail) < 3:
                    seen_fail.add(c["xchg"])
                    failures.append({
                        "signature": core.sig(["xchg", c["threads"], c["sched"]]),
                        "what": "a terminal reply was delivered to another caller / lost: bytes read from the terminal do "
                                "not belong to a reply to the reader's own request under the deterministic schedule: "
                                + describe_x(c, r),
                        "replay": {"case": c, "observed": r.get("log"), "results": r.get("xres"), "code": code},
                    })
            elif code == 1:
                xhist["departs_from_discipline"] += 1
                if xhist["departs_from_discipline"] <= 5:
                    mismatches.append({"case": c, "code": 1, "observed": r.get("log"),
                                       "what": "terminal I/O outside one hold of the terminal lock (discipline of "
                                               "C14_discipline_gives_own_reply) — harmless on this schedule"})
    hist = {"root_threads": {}, "sched_len": {}, "events": {}, "starts": 0, "swaps": 0, "old_lock_then_new": 0,
            "unfinished_after_completion": 0, "would_race_with_single_with": racy[0],
            "would_race_if_lock_shared_only_while_queries_enabled": racy[1],
            "start_method": {}, "conf_changes": {}, "cases_with_conf_change": 0,
            "first_start_with_queries_disabled": 0,
            "exhaustive": exhaustive_info, "exchange": xhist, "terminal_found": fhist}
    distinct = set()
    names = {1: "acquire", 2: "release", 3: "enter", 4: "exit", 5: "write", 6: "reply", 7: "swap", 8: "start"}
    for c, r in zip(cases, impl):
        k = sum(1 for t in c["threads"] if t[1] == 0)
        hist["root_threads"][k] = hist["root_threads"].get(k, 0) + 1
        L = len(c["sched"]) // 10 * 10
        hist["sched_len"][L] = hist["sched_len"].get(L, 0) + 1
        hist["start_method"][c.get("method", "spawn")] = hist["start_method"].get(c.get("method", "spawn"), 0) + 1
        confs = [x for x in c["sched"] if x >= CONF]
        hist["cases_with_conf_change"] += bool(confs)
        for x in confs:
            k = item_str(x)[1:-1].split(":")[1] + (" (root)" if (x - CONF) // 8 == 0 else " (child)")
            hist["conf_changes"][k] = hist["conf_changes"].get(k, 0) + 1
        if "log" not in r:
            continue
        for t, e in r["log"]:
            hist["events"][names[e[0]]] = hist["events"].get(names[e[0]], 0) + 1
        hist["starts"] += sum(1 for _, e in r["log"] if e[0] == 8)
        sc = r.get("starts_conf") or []
        hist["first_start_with_queries_disabled"] += bool(sc and not sc[0][1])
        hist["starts_with_queries_disabled"] = hist.get("starts_with_queries_disabled", 0) + sum(1 for x in sc if not x[1])
        hist["swaps"] += sum(1 for _, e in r["log"] if e[0] == 7)
        hist["unfinished_after_completion"] += bool(r["unfinished"])
        # a thread that took the old lock first and the new one second (the hand-over race)
        held = {}
        mixed = False
        for t, e in r["log"]:
            if e[0] == 1:
                held.setdefault(t, []).append(e[1])
                if len(held[t]) >= 2 and held[t][-2] == 0 and held[t][-1] == 1:
                    mixed = True
            elif e[0] == 2 and held.get(t):
                held[t].pop()
        hist["old_lock_then_new"] += mixed
        acq_threads = {t for t, e in r["log"] if e[0] == 1}
        if len(acq_threads) >= 2 and any(e[0] == 7 for _, e in r["log"]):
            distinct.add(core.sig([c["threads"], c["sched"]]))
    order = sorted(range(len(codes)), key=lambda i: (len(cases[i]["sched"]), i))  # shortest failing schedule first
    for i in order:
        code = codes[i]
        if not code:
            continue
        if code >= 2:
            if len(failures) >= 3:
                continue
            small = shrink(cases[i], 45 if ctx.quick else 180) if not failures and not ctx.replay else cases[i]
            codes2, _, impl2, _ = evaluate([small], tag="c14r")
            failures.append({
                "signature": core.sig([small["threads"], small["sched"]]),
                "what": "two synchronized functions ran concurrently / a reply went to the wrong caller under the "
                        "deterministic schedule: " + describe(small),
                "replay": {"case": small, "observed": impl2[0].get("log"), "code": codes2[0]},
            })
        else:
            mismatches.append({"case": cases[i], "code": code, "observed": impl[i].get("log")})
    # source shape of the other synchronized sites (they use the same two-item `with` inline)
    try:
        sites = with_sites()
        hist["with_sites"] = sites
        for st in sites:
            if st["function"] != "_process_start_wrapper" and st["acquisitions"] < 2:
                failures.append({
                    "signature": core.sig(["with-shape", st["function"]]),
                    "what": "utils.%s() takes the terminal lock with a single acquisition (`with _tty_lock:`): this is "
                            "the variant refuted by C14_second_acquire_needed_refuted — a caller that read the old "
                            "lock while Process.start() swaps it runs concurrently with the holder of the new lock"
                            % st["function"],
                    "replay": {"site": st, "case": RACE},
                })
    except Exception as e:
        errors.append(f"with-shape scan: {type(e).__name__}: {e}")
    assumptions = [
        "how the terminal was found: a standard stream is a terminal iff os.ttyname() + os.open() succeed on it, /dev/tty "
        "can be opened iff the process has a controlling terminal; os.open either returns a descriptor or raises OSError; "
        "Unix (OS_IS_UNIX)",
        "atomicity grain: one read of the module global or one lock operation per step; the scheduler interleaves "
        "threads of all processes arbitrarily",
        "configuration: a setting is a boolean field of the process's configuration that any thread of the process may "
        "change at any time; a child begins with a fresh (spawn / forkserver) or an inherited (fork) configuration; a "
        "platform with multiprocessing.synchronize (the `except ImportError` arm of the start wrapper is outside the property)",
        "Process.start() is never issued from inside a synchronized function (documented as unsupported); a process is "
        "started at most once (Process.start refuses a second start)",
        "RLock semantics (threading and multiprocessing): re-entrant (owner, count), acquire blocks while owned by "
        "another thread; OS semaphores, pickling of the lock to children and multiprocessing start-up are trusted",
        "the terminal answers requests in FIFO order",
        "exchange scenarios: the scripted terminal answers a complete request at once and in full (the reply is in "
        "the input queue before the writer continues), so a non-blocking drain finds the whole remainder",
    ]
    if mp_future is not None:
        outs = [f.result() for f in mp_future]
        runs, infos = [], []
        for (method, control, disabled), (iv, info) in zip(mp_plan(ctx), outs):
            infos.append(info)
            if iv and not control:  # the control run is expected to overlap (no hand-over)
                runs.append((method + (", queries disabled before the first start" if disabled else ""), iv))
        if runs:
            terms = [core.coq_list(iv, lambda p: "(%s, %s)" % (core.z(p[0]), core.z(p[1]))) for _, iv in runs]
            bad, errs = core.coq_shards("c14m", HEADER, terms, "list (Z * Z)", "stamps_bad cases", shard=10)
            errors += errs
            for idx, _ in bad:
                failures.append({"signature": core.sig(["mp-overlap", runs[idx][0]]),
                                 "what": f"real {runs[idx][0]} processes/threads: enter/exit intervals of a lock_tty probe overlap",
                                 "replay": {"intervals": runs[idx][1]}})
        extra["real_process_runs"] = infos
    return {
        "corr_name": "LocksCfg.macroI schedule replay (model with the library configuration, code's policy) == traced real "
                     "lock_tty/_process_start_wrapper/_process_run_wrapper under the deterministic scheduler, one module "
                     "instance per simulated process",
        "evaluations": len(cases) + len(xcases),
        "distinct_nontrivial": len(distinct) + xhist["reader_had_to_wait"] + len(fdistinct),
        "rule": "corpus (incl. the hand-over race and the schedule of C14_share_only_when_queries_enabled_refuted: queries "
                "disabled, child started, parent and child call at once) + (thorough tier) ALL schedules of depth 11 / 9 / 9 / 12 "
                "in which every pick moves, for four small thread systems (see histogram.exhaustive; the fourth offers "
                "disable_queries / enable_queries at ANY point of a start and two calls), each completed round-robin + random "
                "cases: CONFIGURATION changes as schedule items (75% of the cases: 1-5 of disable/enable_queries, "
                "enable/disable_win_size_swap, set_query_timeout in the root or a child process at random positions; 45%: a "
                "change before anything else, mostly disable_queries; see histogram.conf_changes, "
                "first_start_with_queries_disabled), children started by spawn (fresh module instance) or fork (copy of the "
                "parent's module state) at random; 2-4 root threads with 0-2 lock_tty calls each "
                "(re-entrancy depth 0-2, optional terminal round trip in the innermost body), one Process.start "
                "(15%: two racing starts), a child process thread (30%: a second thread in the child, 30%: a "
                "grandchild started by the child), the FIFO terminal as pseudo-thread 0; random schedule of depth "
                "<= 40 (runs and single picks), then round-robin to completion; the full schedule is replayed in "
                "Coq.  Non-trivial: >= 2 threads acquired a lock and the lock was swapped; distinct by case hash.  "
                "EXCHANGES: the real get_terminal_name_version / get_fg_bg_colors / get_cell_size (first, uncached call; "
                "scripted FIFO terminal on a pty, in the OS layer) in thread A, read_tty_all() in thread B released after "
                "exactly k = 0..26 lock operations of A (every point of A's run, in particular between its two reads), "
                "plus random interleavings and two different queries racing with the reader; the same with B = the input "
                "reader of a STARTED UrwidImageScreen on that terminal (urwid's event loop) against query_terminal(DA1) / "
                "get_terminal_name_version, released at every lock operation of A (between request write and reply read "
                "in particular); the observed terminal I/O "
                "(who wrote a request, who read how many bytes, who flushed) is judged in Coq: every byte read belongs "
                "to the reader's own reply, nothing is left (non-trivial: the reader had to wait).  "
                "HOW THE TERMINAL WAS FOUND: the library is imported in REAL processes (session leaders) whose standard "
                "streams are a pty / /dev/null in generated combinations and that have / do not have that pty as "
                "controlling terminal (corpus: all three terminals; only stdin; only stderr; all redirected with a "
                "controlling terminal, fork and spawn; all redirected without one; + 2 random of the 32 combinations "
                "streams x controlling terminal x start method in the quick tier, ALL 32 in the thorough tier); observed: "
                "_tty_fd assigned, Process.start / Process.run replaced, and (terminal found) the enter / exit log of the "
                "parent / child scenario with real processes (child started, parent inside a @lock_tty function while the "
                "child calls one, window 1.5 s / 3 s); judged in Coq (LocksFoundTie.checkF) against "
                "LockImport.find_terminal / inst_code, the model's trace of the scenario and the trace judge "
                "(non-trivial: the scenario ran; distinct by environment and start method).",
        "samples": [describe(c) for c in cases[:1] + cases[len(CORPUS):len(CORPUS) + 3]] + [describe_x(c) for c in xcases[18:19]]
                   + [describe_found(c) for c in fcases[3:4]],
        "histogram": hist,
        "mismatches": mismatches,
        "failures": failures,
        "errors": errors,
        "assumptions": assumptions,
        "trusted": [
            "terminal-found scenarios: impl_c14_found.py (pty + setsid + TIOCSCTTY to prepare the environment; event log in "
            "shared memory under the harness's own lock; a missed overlap is possible — finite window —, a false one is not); "
            "harness/tx/tx_locks.py's interpretation of the module initialisation (C14_source_hooks_installed_iff_terminal_found)",
            "deterministic scheduler + traced lock objects in impl_c14.py (replace utils._tty_lock, utils._rlock_type, "
            "utils.mp_RLock and the wrapped originals of Process.start/run; lock_tty and both wrappers are the real code)",
            "simulated processes: one instance of term_image/utils.py per process, executed from the library's source "
            "(spawn: fresh; fork: fresh + the parent's plain module state copied, thread locks as private copies, "
            "multiprocessing locks shared); the child's main thread goes through the real _process_run_wrapper when the "
            "stub of the original Process.start runs; configuration changes call the real term_image.enable_queries() / "
            "disable_queries() / ... re-bound to that instance",
            "harness/tx/tx_locks.py (C14_start_handover_ignores_configuration / _shape): its reading of the if/elif/else "
            "chain of _process_start_wrapper and of the first statement of _process_run_wrapper",
            "reads of the module global cannot be intercepted: the replay grain glues each read to the preceding step "
            "(Locks.macro); the theorems are proved at the finer grain",
            "real-process runs are supporting evidence only (timing-dependent coverage, deterministic verdict)",
            "exchange scenarios: utils.os / utils.termios are proxies that delegate to the real modules and log / answer "
            "the I/O on the pty that stands for the terminal; query_terminal, read_tty, write_tty and the three getters are "
            "the real code",
            "harness/tx/tx_locks.py (the translated obligation C14_all_terminal_io_under_lock): its reading of lexical "
            "regions in the library's source",
        ],
        "extra": extra,
    }
