"""C05 — padding and alignment place the render exactly, inside exactly the padded size.

Correspondence: real renders of every style padded by AlignedPadding / ExactPadding
(pad, get_padded_size, to_exact, resolve, Renderable.render's gate) and by the old image
API (_check_formatting + _format_render); the padded output is lexed and compared inside
Coq with Padding.pad on the lexed inner render, and the oracle (rectangle contract on the
padded box; fill glyph with default attributes / untouched outside the inner render; inner
cells identical to the inner render drawn at the alignment offset) is evaluated on the
implementation's own tokens at two start positions."""
from __future__ import annotations

import core
import lexer
import renderlib as R

LEVEL = "proof"
EXTRA_TARGETS = ["model/PadTie.vo"]
HEADER = ("From Coq Require Import List ZArith.\nImport ListNotations.\n"
          "From TI Require Import lib.Term lib.RectCheck model.Padding model.PadTie.\nOpen Scope Z_scope.\n")
FILL_T = {"space": "(Some GSpace)", "star": "(Some (GOther 42))", "empty": "None"}


def gen_render(rng):
    style = rng.choice(["block", "block", "kitty", "iterm2"])
    w, h = rng.randint(1, 6), rng.randint(1, 5)
    c = {"style": style, "cells": [w, h], "img": R.gen_image(rng, 6, kinds=("runs",), modes=["RGB", "RGBA"]),
         "alpha": rng.choice([None, 0.5]), "args": {}}
    if style != "block":
        c["args"]["method"] = rng.choice(["lines", "whole"])
        c["args"]["mix"] = rng.random() < 0.4
        if style == "iterm2":
            c["term"] = rng.choice(["konsole", "wezterm", "iterm2"])
        else:
            c["args"]["blend"] = rng.random() < 0.6
    return c


def gen_case(rng):
    render = gen_render(rng)
    w, h = render["cells"]
    tw, th = rng.randint(max(3, w), 14), rng.randint(max(3, h), 10)
    kind = rng.choice(["aligned", "aligned", "exact", "old"])
    c = {"render": render, "term_size": [tw, th], "fill": rng.choice(["space", "space", "star", "empty"]),
         "pres": rng.randrange(6)}
    if kind in ("aligned", "old"):
        def dim(x, t):
            r = rng.random()
            if r < 0.6:
                return max(1, x + rng.randint(-2, 3))
            if r < 0.75:
                return 0
            return -rng.randint(0, t + 1)
        c["padding"] = {"kind": kind, "W": dim(w, tw), "H": dim(h, th), "ha": rng.randrange(3), "va": rng.randrange(3)}
        if kind == "old":
            c["fill"] = "space"
            if rng.random() < 0.5:  # the same padding requested through a format specifier
                P = c["padding"]
                P["W"] = max(P["W"], 0)
                if P["H"] < 0:
                    P["H"] = rng.choice([-2, 0])
                c["via"] = "format"
    else:
        c["padding"] = {"kind": "exact", "l": rng.choice([0, 0, 1, 2, 3]), "t": rng.choice([0, 0, 1, 2]),
                        "r": rng.choice([0, 0, 1, 2, 3]), "b": rng.choice([0, 0, 1, 2])}
    if kind != "old" and rng.random() < 0.3:  # (old + format route is set above)
        c["via"] = "renderable"
    elif kind != "old" and rng.random() < 0.25:
        # an iterator frame: render size set on the iterator (different from the renderable's own)
        c["via"], c["own_size"], c["order"] = "iterator", [rng.randint(1, 6), rng.randint(1, 5)], rng.randrange(2)
    return c


def corpus():
    cs = []
    blk = {"style": "block", "cells": [4, 2], "img": {"mode": "RGB", "size": [4, 4], "seed": 1, "kind": "runs"},
           "alpha": None, "args": {}}
    kit = {"style": "kitty", "cells": [3, 2], "img": {"mode": "RGB", "size": [4, 4], "seed": 1, "kind": "runs"},
           "alpha": None, "args": {"method": "whole"}}
    # F4 shape: old API, pad width below the render width, height padded
    cs.append({"render": blk, "term_size": [80, 30], "fill": "space", "padding": {"kind": "old", "W": 2, "H": 4, "ha": 1, "va": 1}})
    for ha in range(3):
        for va in range(3):
            cs.append({"render": blk, "term_size": [9, 7], "fill": "star",
                       "padding": {"kind": "aligned", "W": 7, "H": 5, "ha": ha, "va": va}})
            cs.append({"render": kit, "term_size": [9, 7], "fill": "empty",
                       "padding": {"kind": "aligned", "W": 0, "H": -2, "ha": ha, "va": va}})
            cs.append({"render": blk, "term_size": [9, 7], "fill": "space",
                       "padding": {"kind": "old", "W": 0, "H": -2, "ha": ha, "va": va}})
    cs.append({"render": kit, "term_size": [9, 7], "fill": "space", "padding": {"kind": "exact", "l": 1, "t": 0, "r": 0, "b": 2}})
    # iterator frames: set_render_size() then set_padding() (and the reverse order)
    for order in (0, 1):
        for own in ([1, 1], [3, 3], [6, 5]):
            cs.append({"render": blk, "term_size": [9, 7], "fill": "star", "via": "iterator", "own_size": own, "order": order,
                       "padding": {"kind": "exact", "l": 1, "t": 1, "r": 1, "b": 1}})
            cs.append({"render": blk, "term_size": [9, 7], "fill": "space", "via": "iterator", "own_size": own, "order": order,
                       "padding": {"kind": "aligned", "W": 7, "H": 5, "ha": 0, "va": 2}})
    # format-spec route: explicit zero / absent width and height
    for W, H, pres in ((0, 0, 0), (0, 0, 1), (5, 0, 0), (0, -2, 1), (6, 4, 2), (0, 3, 0)):
        cs.append({"render": blk, "term_size": [9, 7], "fill": "space", "via": "format", "pres": pres,
                   "padding": {"kind": "old", "W": W, "H": H, "ha": pres % 3, "va": (pres + 1) % 3}})
    cs.append({"render": kit, "term_size": [9, 7], "fill": "space", "via": "format", "pres": 1,
               "padding": {"kind": "old", "W": 0, "H": 0, "ha": 2, "va": 0}})
    cs.append({"render": blk, "term_size": [9, 7], "fill": "space", "via": "renderable",
               "padding": {"kind": "aligned", "W": 4, "H": 2, "ha": 0, "va": 0}})
    return cs


def case_term(c, res):
    p = c["padding"]
    if p["kind"] == "aligned":
        k = f"PAligned {core.z(p['W']).replace('%Z','')} {core.z(p['H']).replace('%Z','')} {p['ha']}%nat {p['va']}%nat"
    elif p["kind"] == "old":
        k = f"POld {core.z(p['W']).replace('%Z','')} {core.z(p['H']).replace('%Z','')} {p['ha']}%nat {p['va']}%nat"
    else:
        k = f"PExact {p['l']} {p['t']} {p['r']} {p['b']}"
    inner = R.strip_payload(lexer.lex(res["inner"]))
    obs = R.strip_payload(lexer.lex(res["out"]))
    dims = res.get("dims")
    w, h = res["size"]
    tw, th = c["term_size"]
    return (f"{{| p_kind := {k}; p_fill := {FILL_T[c['fill']]}; p_tw := {tw}; p_th := {th}; p_w := {w}; p_h := {h}; "
            f"p_inner := {lexer.coq_toks(inner)}; p_obs := {lexer.coq_toks(obs)}; "
            f"p_obs_dims := {core.coq_list(dims or [])} |}}")


def describe(c):
    return f"padding={c['padding']} fill={c['fill']} term={c['term_size']} via={c.get('via', 'pad')} inner=({R.describe(c['render'])})"


def explain(c, res):
    text = HEADER + f"Set Printing Width 100000.\nEval vm_compute in (explain ({case_term(c, res)})).\n"
    rc, out = core.coq_eval_file(f"c05_explain_{id(c)}", text)
    vals = core.parse_evals(out)
    return vals[0] if vals else out[-300:]


def run(ctx):
    rng = ctx.rng
    if ctx.replay:
        cases = [ctx.replay["replay"]["case"]]
    else:
        n = 320 if ctx.quick else 6000
        cases = corpus() + [gen_case(rng) for _ in range(n)]
        cases += [{"kind": "exact-invalid", "dims": [rng.randint(-2, 3) for _ in range(4)]} for _ in range(40)]
    impl = core.run_impl_parallel("impl_c05.py", cases)
    terms, owner = [], []
    failures, mismatches, errors = [], [], []
    hist = {"kind": {}, "fill": {}, "style": {}, "via": {}, "relative": 0, "padded_h": 0, "padded_v": 0}
    distinct = set()
    for i, (c, r) in enumerate(zip(cases, impl)):
        if c.get("kind") == "exact-invalid":
            want = int(any(d < 0 for d in c["dims"]))
            hist["kind"]["exact-validation"] = hist["kind"].get("exact-validation", 0) + 1
            if r.get("raised") != want:
                failures.append({"signature": core.sig(["exact-validation", c["dims"]]),
                                 "what": f"ExactPadding{tuple(c['dims'])}: raised={r.get('raised')}, documented={want}",
                                 "replay": {"case": c}})
            continue
        p = c["padding"]
        hist["kind"][p["kind"]] = hist["kind"].get(p["kind"], 0) + 1
        hist["fill"][c["fill"]] = hist["fill"].get(c["fill"], 0) + 1
        hist["style"][c["render"]["style"]] = hist["style"].get(c["render"]["style"], 0) + 1
        hist["via"][c.get("via", "pad")] = hist["via"].get(c.get("via", "pad"), 0) + 1
        if "error" in r:
            failures.append({"signature": core.sig(["raise", p, c["fill"], c["render"]["cells"]]),
                             "what": f"padding raised {r['error']} — {describe(c)}", "replay": {"case": c}})
            continue
        if r.get("relative_raises") is not None:
            hist["relative"] += 1
            if r["relative_raises"] != [1, 1, 1]:
                failures.append({"signature": core.sig(["relative-ops", p]),
                                 "what": f"operations on a relative AlignedPadding did not all raise: {r['relative_raises']} — {describe(c)}",
                                 "replay": {"case": c}})
        if r.get("exact_same") is False:
            failures.append({"signature": core.sig(["to_exact", p, c["render"]["cells"]]),
                             "what": f"to_exact() is not equivalent to the padding — {describe(c)}", "replay": {"case": c}})
        if r.get("frame_size") and r.get("dims") and r["frame_size"] != r["dims"][4:] and r["out"] != r["inner"]:
            failures.append({"signature": core.sig(["frame-size", p]), "what": f"padded frame size {r['frame_size']} != get_padded_size {r['dims'][4:]} — {describe(c)}",
                             "replay": {"case": c}})
        try:
            terms.append(case_term(c, r))
            owner.append(i)
        except lexer.LexError as e:
            failures.append({"signature": core.sig(["lex", str(e)[:60]]), "what": f"unlexable padded output: {e} — {describe(c)}",
                             "replay": {"case": c}})
            continue
        if r.get("dims"):
            d = r["dims"]
            hist["padded_h"] += bool(d[0] or d[2])
            hist["padded_v"] += bool(d[1] or d[3])
            if (d[0] or d[2]) and (d[1] or d[3]) and c["render"]["cells"][1] >= 2:
                distinct.add(core.sig([p, c["fill"], c["render"]["cells"], c["render"]["style"], c["term_size"]]))
        elif p["kind"] == "old" and c["render"]["cells"][1] >= 2 and r["out"] != r["inner"]:
            distinct.add(core.sig([p, c["render"]["cells"], c["render"]["style"], c["term_size"]]))
    if terms:
        bad, errs = core.coq_shards("c05", HEADER, terms, "pcase", "bad cases", shard=100)
        errors += errs
        for idx, code in bad:
            i = owner[idx]
            c, r = cases[i], impl[i]
            if code & 2:
                why = explain(c, r) if len(failures) < 4 else ""
                p = c["padding"]
                failures.append({
                    "signature": core.sig(["oracle", p["kind"], c["fill"], c["render"]["style"],
                                           "narrow-pad-width" if p["kind"] == "old" and 0 < p.get("W", 1) < c["render"]["cells"][0] and r["out"] != r["inner"] else [p, c["render"]["cells"], c["term_size"]]]),
                    "what": f"padded output violates the padding contract ((dims, first token difference, oracle) = {why}) — {describe(c)}",
                    "replay": {"case": c, "output": r.get("out", "")[:3000]}})
            else:
                mismatches.append({"case": c, "code": code, "explain": explain(c, r) if len(mismatches) < 3 else ""})
    return {
        "corr_name": "Padding.pad / aligned_dims / resolve / old_dims (model) == real Padding classes, Renderable.render gate, old image API",
        "evaluations": len(cases),
        "distinct_nontrivial": len(distinct),
        "rule": "corpus (9 alignments x {aligned absolute, aligned relative with empty fill on a graphics render, old API defaults}, exact, "
                "the narrow-pad-width old-API shape) + random: inner renders of block/kitty/iterm2 (1..6 x 1..5 cells, every method, "
                "mix, terminal identity), paddings around the render size (-2..+3 per axis, zero, terminal-relative), 9 alignments, "
                "fills ' ', '*', '' ; ExactPadding margins 0..3; small terminals so relative dimensions matter; pad() directly and "
                "through Renderable.render; old API through _check_formatting + _format_render with both spellings of the alignments; "
                "plus 40 ExactPadding validation cases. Non-trivial: padded on both axes with a multi-line inner render (old API: "
                "padded, multi-line); distinct by (padding, fill, size, style, terminal).",
        "samples": [describe(c) for c in cases[:2] + cases[40:42] if "render" in c],
        "histogram": hist,
        "mismatches": mismatches,
        "failures": failures,
        "errors": errors,
        "assumptions": ["the inner render satisfies the line-structured render contract (LinesRect; proved for all five render shapes in C01's development)",
                        "fill is one one-column glyph or empty", "terminal conventions of lib/Term.v"],
        "trusted": ["harness/lexer.py"],
    }
