"""C05 — padding and alignment place the render exactly, inside exactly the padded size.

Correspondence: real renders of every style padded by AlignedPadding / ExactPadding
(pad, get_padded_size, to_exact, resolve, Renderable.render's gate) and by the old image
API (_check_formatting + _format_render); the padded output is lexed and compared inside
Coq with Padding.pad on the lexed inner render, and the oracle (rectangle contract on the
padded box; fill glyph with default attributes / untouched outside the inner render; inner
cells identical to the inner render drawn at the alignment offset) is evaluated on the
implementation's own tokens at two start positions.

Round 4: HISTORIES (model/PadHist.v, model/PadHistTie.v).  A case may be a whole history of terminal
resizes, RenderIterator.set_padding / set_render_size / seek / next and calls with their own padding
(format / draw / _check_formatting+_format_render / Renderable.render), run in one process; every
output of the history is judged by the same oracle against the padding and the terminal size that the
history puts in force at that step (spec_descrs), and compared with the model's fold (run).

Round 5: the FILL (model/PadGen.v, model/PadGenTie.v).  The fill is any one-column string: single cases carry the fill
as a token list (a fill SEGMENT) and are judged by PadGenTie.gcheck (model pad_gen; oracle: every non-render cell shows
what ONE fill shows in its cell); fills of several code points outside the lexer's vocabulary are substituted, whole
fill by whole fill, by a placeholder glyph before lexing (prelex) - a fragment left behind is a failure.

Round 6: (a) the render CONTENT (model/PadContent.v, model/PadContentTie.v).  pad() is a public function on any render output
of the documented form (height lines separated by "\n", each occupying width columns): text renders whose lines hold ordinary
glyphs, escape sequences in the middle of a line and characters that occupy no column and are NOT line separators of that
form (U+2028, U+2029, U+001C..U+001E; and - judged at code-point level only - "\v", "\f", U+0085, combining marks, East-Asian
wide characters) are padded directly, through Renderable.render(padding=) and as RenderIterator frames; beside the token-level
judgement, a code-point level oracle that does not go through the lexer: the output split at "\n" ONLY has exactly
padded-height lines (= get_padded_size) and every line of the render occurs unchanged on its own line.
(b) ANIMATED draws (model/PadAnim.v, model/PadAnimTie.v): Renderable.draw() of a 2-3 frame text renderable on a pty with
paddings whose top margin differs from the bottom margin; the whole output stream is executed on the terminal model and the
padding oracle is applied to the FINAL SCREEN (last frame at (top, left) in the padded box, fill / untouched elsewhere).

Round 8: ANIMATED draws of the IMAGE classes (model/PadAnimOld.v, model/PadAnimOldTie.v): BaseImage.draw(animate=True) of a 2-3 frame
GIF on a pty per style and TERMINAL IDENTITY (block; kitty new / <= 0.25.0; iterm2 style on wezterm / iterm2 / konsole; mix both
ways) with box geometries at the boundary (a padded box of exactly one line; pad_height / pad_width smaller than, equal to, larger
than the render); the stream is compared with the model (the style's pre-animation step + cursor_up) and executed on the terminal
model (CSI 0 A = up ONE line): no event of any frame outside the box, final content = last frame at (top, left) + blanks."""
from __future__ import annotations

import re

import core
import lexer
import renderlib as R

LEVEL = "proof"
EXTRA_TARGETS = ["model/PadTie.vo", "model/PadHistTie.vo", "model/PadGenTie.vo", "model/PadContentTie.vo", "model/PadAnimTie.vo", "model/PadAnimOldTie.vo"]
HEADER = ("From Coq Require Import List ZArith.\nImport ListNotations.\n"
          "From TI Require Import lib.Term lib.RectCheck model.Padding model.PadTie model.PadGen model.PadGenTie.\n"
          "Open Scope Z_scope.\n")
HHEADER = ("From Coq Require Import List ZArith.\nImport ListNotations.\n"
           "From TI Require Import lib.Term lib.RectCheck model.Padding model.PadTie model.PadHist model.PadHistTie.\n"
           "Open Scope Z_scope.\n")
CHEADER = ("From Coq Require Import List ZArith.\nImport ListNotations.\n"
           "From TI Require Import lib.Term lib.RectCheck model.Padding model.PadTie model.PadGen model.PadGenTie model.PadContentTie.\n"
           "Open Scope Z_scope.\n")
AHEADER = ("From Coq Require Import List ZArith.\nImport ListNotations.\n"
           "From TI Require Import lib.Term lib.RectCheck model.Padding model.PadTie model.Draw model.PadAnimTie.\n"
           "Open Scope Z_scope.\n")
OHEADER = ("From Coq Require Import List ZArith.\nImport ListNotations.\n"
           "From TI Require Import lib.Term lib.RectCheck model.Padding model.PadTie model.Draw model.PadAnimOld model.PadAnimOldTie.\n"
           "Open Scope Z_scope.\n")
IMG_K = 100  # frame numbers of images in a history's table of bare renders (impl_c05.IMG_K)

# ------------------------------------------------------------------------------- the fill
# (round 5) `Padding.fill` "may be any string that occupies exactly one column on a terminal screen, or an
# empty string".  The universe (the same table is in impl_c05.FILLS):
#   one code point:       ' '  '*'
#   empty:                ''
#   SEVERAL code points, one column:
#     comb     base letter + combining acute accent
#     comb2    base letter + two combining marks
#     zwj      glyph + ZERO WIDTH JOINER
#     vs       glyph + VARIATION SELECTOR-15 (text presentation)
#     rev      reverse-video blank (SGR 7 / 27)
#     bgblank  blank wrapped in a direct-colour background SGR and a reset
#     fgglyph  glyph wrapped in a direct-colour foreground SGR and a reset
# bgblank / fgglyph are in the vocabulary of harness/lexer.py: they reach Coq as the token list of the fill
# string itself (model/PadGen.v: a fill SEGMENT).  The others are not (the lexer refuses combining marks and
# SGR 7, and would take a joiner for a one-column glyph): before lexing, every occurrence of the EXACT fill
# string is replaced by a private one-column placeholder character (the fill as ONE cell), and the rest is
# checked fail-closed: a zero-width code point, a placeholder that was already there, an SGR outside the
# vocabulary or a cut escape sequence left behind is a FRAGMENT of a fill - itself the violation.
FILL_STR = {"space": " ", "star": "*", "empty": "",
            "comb": "e\u0301", "comb2": "o\u0302\u0323", "zwj": "+\u200d", "vs": "#\ufe0e",
            "rev": "\x1b[7m \x1b[27m",
            "bgblank": "\x1b[48;2;10;20;30m \x1b[0m", "fgglyph": "\x1b[38;2;200;100;0m+\x1b[0m"}
PLACEHOLDER = {"comb": "\ue000", "comb2": "\ue001", "zwj": "\ue002", "vs": "\ue003", "rev": "\ue004"}
MULTI = ("comb", "comb2", "zwj", "vs", "rev", "bgblank", "fgglyph")   # several code points, one column
GLYPH_FILLS = ("space", "star", "empty") + tuple(PLACEHOLDER)           # representable as ONE glyph token
# histories (model/PadHist.v: the fill is an optional glyph)
FILL_T = {"space": "(Some GSpace)", "star": "(Some (GOther 42))", "empty": "None",
          **{k: f"(Some (GOther {ord(v)}))" for k, v in PLACEHOLDER.items()}}


class FillFragment(lexer.LexError):
    pass


def prelex(text, fills=tuple(PLACEHOLDER)):
    """`text` with every whole occurrence of the placeholder-class fills replaced by their placeholder;
    raises FillFragment if a piece of a fill that is not a whole fill is left"""
    import unicodedata
    for ph in PLACEHOLDER.values():
        if ph in text:
            raise FillFragment(f"the output contains the private character {ph!r}")
    for name in sorted(fills, key=lambda k: -len(FILL_STR[k])):
        if name in PLACEHOLDER:
            text = text.replace(FILL_STR[name], PLACEHOLDER[name])
    for i, ch in enumerate(text):
        if unicodedata.category(ch) in ("Mn", "Me", "Mc", "Cf"):
            raise FillFragment(f"a zero-width code point {ch!r} that is not part of a whole fill at index {i}: "
                               f"{text[max(0, i - 6):i + 6]!r}")
    return text


def lex_out(text, fills=tuple(PLACEHOLDER)):
    return R.strip_payload(lexer.lex(prelex(text, fills)))


def fill_term(name):
    """the fill as `option (list tok)`: the tokens of the fill string itself where the lexer has them"""
    if name == "empty":
        return "None"
    if name in PLACEHOLDER:
        return f"(Some [TChar (GOther {ord(PLACEHOLDER[name])})])"
    return f"(Some {lexer.coq_toks(lexer.lex(FILL_STR[name]))})"


def gen_render(rng):
    style = rng.choice(["block", "block", "kitty", "iterm2"])
    w, h = rng.randint(1, 6), rng.randint(1, 5)
    c = {"style": style, "cells": [w, h], "img": R.gen_image(rng, 6, kinds=("runs",), modes=["RGB", "RGBA"]),
         "alpha": rng.choice([None, 0.5]), "args": {}}
    if style != "block":
        c["args"]["method"] = rng.choice(["lines", "whole"])
        c["args"]["mix"] = rng.random() < 0.4
        if style == "iterm2":
            c["term"] = rng.choice(["konsole", "wezterm", "iterm2"])
        else:
            c["args"]["blend"] = rng.random() < 0.6
    return c


def gen_case(rng):
    render = gen_render(rng)
    w, h = render["cells"]
    tw, th = rng.randint(max(3, w), 14), rng.randint(max(3, h), 10)
    kind = rng.choice(["aligned", "aligned", "exact", "old"])
    c = {"render": render, "term_size": [tw, th], "fill": rng.choice(("space", "space", "star", "empty", "empty") + MULTI),
         "pres": rng.randrange(6)}
    if kind in ("aligned", "old"):
        def dim(x, t):
            r = rng.random()
            if r < 0.6:
                return max(1, x + rng.randint(-2, 3))
            if r < 0.75:
                return 0
            return -rng.randint(0, t + 1)
        c["padding"] = {"kind": kind, "W": dim(w, tw), "H": dim(h, th), "ha": rng.randrange(3), "va": rng.randrange(3)}
        if kind == "old":
            c["fill"] = "space"
            if rng.random() < 0.5:  # the same padding requested through a format specifier
                P = c["padding"]
                P["W"] = max(P["W"], 0)
                if P["H"] < 0:
                    P["H"] = rng.choice([-2, 0])
                c["via"] = "format"
    else:
        c["padding"] = {"kind": "exact", "l": rng.choice([0, 0, 1, 2, 3]), "t": rng.choice([0, 0, 1, 2]),
                        "r": rng.choice([0, 0, 1, 2, 3]), "b": rng.choice([0, 0, 1, 2])}
    if kind != "old" and rng.random() < 0.3:  # (old + format route is set above)
        c["via"] = "renderable"
    elif kind != "old" and rng.random() < 0.25:
        # an iterator frame: render size set on the iterator (different from the renderable's own)
        c["via"], c["own_size"], c["order"] = "iterator", [rng.randint(1, 6), rng.randint(1, 5)], rng.randrange(2)
    return c


def corpus():
    cs = []
    blk = {"style": "block", "cells": [4, 2], "img": {"mode": "RGB", "size": [4, 4], "seed": 1, "kind": "runs"},
           "alpha": None, "args": {}}
    kit = {"style": "kitty", "cells": [3, 2], "img": {"mode": "RGB", "size": [4, 4], "seed": 1, "kind": "runs"},
           "alpha": None, "args": {"method": "whole"}}
    # F4 shape: old API, pad width below the render width, height padded
    cs.append({"render": blk, "term_size": [80, 30], "fill": "space", "padding": {"kind": "old", "W": 2, "H": 4, "ha": 1, "va": 1}})
    for ha in range(3):
        for va in range(3):
            cs.append({"render": blk, "term_size": [9, 7], "fill": "star",
                       "padding": {"kind": "aligned", "W": 7, "H": 5, "ha": ha, "va": va}})
            cs.append({"render": kit, "term_size": [9, 7], "fill": "empty",
                       "padding": {"kind": "aligned", "W": 0, "H": -2, "ha": ha, "va": va}})
            cs.append({"render": blk, "term_size": [9, 7], "fill": "space",
                       "padding": {"kind": "old", "W": 0, "H": -2, "ha": ha, "va": va}})
    cs.append({"render": kit, "term_size": [9, 7], "fill": "space", "padding": {"kind": "exact", "l": 1, "t": 0, "r": 0, "b": 2}})
    # iterator frames: set_render_size() then set_padding() (and the reverse order)
    for order in (0, 1):
        for own in ([1, 1], [3, 3], [6, 5]):
            cs.append({"render": blk, "term_size": [9, 7], "fill": "star", "via": "iterator", "own_size": own, "order": order,
                       "padding": {"kind": "exact", "l": 1, "t": 1, "r": 1, "b": 1}})
            cs.append({"render": blk, "term_size": [9, 7], "fill": "space", "via": "iterator", "own_size": own, "order": order,
                       "padding": {"kind": "aligned", "W": 7, "H": 5, "ha": 0, "va": 2}})
    # format-spec route: explicit zero / absent width and height
    for W, H, pres in ((0, 0, 0), (0, 0, 1), (5, 0, 0), (0, -2, 1), (6, 4, 2), (0, 3, 0)):
        cs.append({"render": blk, "term_size": [9, 7], "fill": "space", "via": "format", "pres": pres,
                   "padding": {"kind": "old", "W": W, "H": H, "ha": pres % 3, "va": (pres + 1) % 3}})
    cs.append({"render": kit, "term_size": [9, 7], "fill": "space", "via": "format", "pres": 1,
               "padding": {"kind": "old", "W": 0, "H": 0, "ha": 2, "va": 0}})
    cs.append({"render": blk, "term_size": [9, 7], "fill": "space", "via": "renderable",
               "padding": {"kind": "aligned", "W": 4, "H": 2, "ha": 0, "va": 0}})
    # one-column fills of several code points: margins on both sides / one side only / vertical only,
    # pad() directly, Renderable.render(padding=), an iterator frame, a graphics render inside
    for fill in MULTI:
        cs.append({"render": blk, "term_size": [12, 9], "fill": fill, "padding": {"kind": "exact", "l": 2, "t": 1, "r": 3, "b": 2}})
        cs.append({"render": blk, "term_size": [12, 9], "fill": fill, "padding": {"kind": "exact", "l": 1, "t": 0, "r": 0, "b": 0}})
        cs.append({"render": blk, "term_size": [12, 9], "fill": fill, "padding": {"kind": "exact", "l": 0, "t": 2, "r": 0, "b": 1}})
        cs.append({"render": blk, "term_size": [12, 9], "fill": fill, "via": "renderable",
                   "padding": {"kind": "aligned", "W": -2, "H": -3, "ha": 2, "va": 2}})
        cs.append({"render": blk, "term_size": [12, 9], "fill": fill, "via": "iterator", "own_size": [2, 1], "order": 0,
                   "padding": {"kind": "aligned", "W": 9, "H": 4, "ha": 1, "va": 1}})
        cs.append({"render": kit, "term_size": [12, 9], "fill": fill, "padding": {"kind": "aligned", "W": 8, "H": 4, "ha": 1, "va": 0}})
    return cs


def case_term(c, res, lex=None, lexed=True):
    lex = lex or lex_out
    p = c["padding"]
    if p["kind"] == "aligned":
        k = f"PAligned {core.z(p['W']).replace('%Z','')} {core.z(p['H']).replace('%Z','')} {p['ha']}%nat {p['va']}%nat"
    elif p["kind"] == "old":
        k = f"POld {core.z(p['W']).replace('%Z','')} {core.z(p['H']).replace('%Z','')} {p['ha']}%nat {p['va']}%nat"
    else:
        k = f"PExact {p['l']} {p['t']} {p['r']} {p['b']}"
    inner = lex(res["inner"], ()) if lexed else []
    obs = lex(res["out"], (c["fill"],)) if lexed else []
    dims = res.get("dims")
    w, h = res["size"]
    tw, th = c["term_size"]
    return (f"{{| g_kind := {k}; g_fill := {fill_term(c['fill'])}; g_tw := {tw}; g_th := {th}; g_w := {w}; g_h := {h}; "
            f"g_inner := {lexer.coq_toks(inner)}; g_obs := {lexer.coq_toks(obs)}; "
            f"g_obs_dims := {core.coq_list(dims or [])} |}}")


def describe(c):
    return f"padding={c['padding']} fill={c['fill']}={FILL_STR[c['fill']]!r} term={c['term_size']} via={c.get('via', 'pad')} inner=({R.describe(c['render'])})"


def explain(c, res):
    text = HEADER + f"Set Printing Width 100000.\nEval vm_compute in (gexplain ({case_term(c, res)})).\n"
    rc, out = core.coq_eval_file(f"c05_explain_{id(c)}", text)
    vals = core.parse_evals(out)
    return vals[0] if vals else out[-300:]


# ------------------------------------------------------------------------------- histories
# (round 4) A history is one case: an initial terminal size, optionally a RenderIterator over an
# N-frame renderable (constructor padding, cache setting), optionally some images, and a list of
# steps: resize | set_padding | set_size | seek | next | call (a padding given to ONE call:
# format(image, spec), image.draw(...), _check_formatting+_format_render, Renderable.render()).
# Every output is judged inside Coq (model/PadHistTie.v) by the C05 oracle against the padding and
# terminal size the history says are in force at that step.


def zz(n):
    return f"({n})" if n < 0 else str(n)


def padspec_term(p):
    if p["kind"] == "aligned":
        k = f"PAligned {zz(p['W'])} {zz(p['H'])} {p['ha']}%nat {p['va']}%nat"
    elif p["kind"] == "old":
        k = f"POld {zz(p['W'])} {zz(p['H'])} {p['ha']}%nat {p['va']}%nat"
    else:
        k = f"PExact {p['l']} {p['t']} {p['r']} {p['b']}"
    return f"{{| ps_kind := {k}; ps_fill := {FILL_T[p.get('fill', 'space')]} |}}"


def call_size(c, st):
    if st["via"] == "render":
        return st["w"], st["h"]
    return tuple(c["images"][st["k"] - IMG_K]["cells"])


def step_term(c, st):
    op = st["op"]
    if op == "resize":
        return f"HResize {st['tw']} {st['th']}"
    if op == "set_padding":
        return f"HSetPadding {padspec_term(st['pad'])}"
    if op == "set_size":
        return f"HSetSize {st['w']} {st['h']}"
    if op == "seek":
        return f"HSeek {st['k']}%nat"
    if op == "next":
        return "HNext"
    w, h = call_size(c, st)
    return f"HCall {padspec_term(st['pad'])} {st['k']}%nat {w} {h}"


def hist_term(c, res):
    fills = hist_fills(c)
    toks = lambda text: lexer.coq_toks(lex_out(text, fills))
    frames = "[" + "; ".join(f"({k}%nat, {w}, {h}, {toks(t)})" for k, w, h, t in res["frames"]) + "]"
    obs = "[" + "; ".join(toks(o["out"]) for o in res["outs"]) + "]"
    sizes = "[" + "; ".join(f"Some ({o['frame_size'][0]}, {o['frame_size'][1]})" if o.get("frame_size") else "None"
                            for o in res["outs"]) + "]"
    pad0 = c.get("pad0") or {"kind": "exact", "l": 0, "t": 0, "r": 0, "b": 0, "fill": "space"}
    w, h = c.get("size", [1, 1])
    cached = c.get("cache", True)
    cached = cached if isinstance(cached, bool) else c.get("frames", 0) <= cached
    return (f"{{| hc_tw := {c['term_size'][0]}; hc_th := {c['term_size'][1]}; hc_w := {w}; hc_h := {h}; "
            f"hc_pad := {padspec_term(pad0)}; hc_N := {max(c.get('frames', 0), 1)}%nat; "
            f"hc_cached := {'true' if cached else 'false'}; "
            f"hc_steps := [{'; '.join(step_term(c, st) for st in c['steps'])}]; "
            f"hc_frames := {frames}; hc_obs := {obs}; hc_sizes := {sizes} |}}")


def hist_fills(c):
    """the fills of all the paddings of a history"""
    pads = [c.get("pad0")] + [st.get("pad") for st in c["steps"]]
    return tuple(sorted({p.get("fill", "space") for p in pads if p}))


def padded_size_of(p, term, size):
    """generator-side only: the padded size of padding p set on terminal `term` around `size`"""
    w, h = size
    if p["kind"] == "exact":
        return p["l"] + w + p["r"], p["t"] + h + p["b"]
    W = p["W"] if p["W"] > 0 else max(term[0] + p["W"], 1)
    H = p["H"] if p["H"] > 0 else max(term[1] + p["H"], 1)
    return max(W, w), max(H, h)


def gen_padding(rng, size, term, fills=("space", "space", "star", "empty") + tuple(PLACEHOLDER)):
    w, h = size
    fill = rng.choice(fills)
    if rng.random() < 0.3:
        return {"kind": "exact", "l": rng.choice([0, 0, 1, 2, 3]), "t": rng.choice([0, 0, 1, 2]),
                "r": rng.choice([0, 0, 1, 2, 3]), "b": rng.choice([0, 0, 1, 2]), "fill": fill}

    def dim(x, t):
        r = rng.random()
        if r < 0.55:
            return max(1, x + rng.randint(-1, 4))
        if r < 0.7:
            return 0
        return -rng.randint(0, min(t, 4))
    return {"kind": "aligned", "W": dim(w, term[0]), "H": dim(h, term[1]), "ha": rng.randrange(3), "va": rng.randrange(3),
            "fill": fill}


def same_box_variant(rng, p, term, size):
    """another padding with the SAME padded size around `size` on terminal `term`: other alignment,
    other fill, exact margins with the same sums, an absolute / relative spelling of the same box"""
    w, h = size
    pw, ph = padded_size_of(p, term, size)
    how = rng.choice(["align", "fill", "exact", "aligned", "relative"])
    fill = p["fill"]
    if how == "fill":
        fill = rng.choice([f for f in GLYPH_FILLS if f != p["fill"]])
        return {**p, "fill": fill}
    if how == "exact" or (how == "align" and p["kind"] == "exact"):
        l, t = rng.randint(0, pw - w), rng.randint(0, ph - h)
        return {"kind": "exact", "l": l, "t": t, "r": pw - w - l, "b": ph - h - t, "fill": fill}
    if how == "relative" and term[0] >= pw and term[1] >= ph:
        # non-positive dimensions resolving to the same box on THIS terminal
        return {"kind": "aligned", "W": pw - term[0], "H": ph - term[1], "ha": rng.randrange(3), "va": rng.randrange(3),
                "fill": fill}
    return {"kind": "aligned", "W": pw, "H": ph, "ha": rng.randrange(3), "va": rng.randrange(3),
            "fill": rng.choice((fill, fill) + GLYPH_FILLS)}


def gen_iter_history(rng, quick=True):
    w, h = rng.randint(1, 4), rng.randint(1, 3)
    n = rng.choice([2, 2, 3])
    term = [rng.randint(max(4, w + 1), 12), rng.randint(max(4, h + 1), 9)]
    cache = rng.choice([True, True, True, False, n, n - 1, 100])
    loops = rng.choice([-1, -1, 3])
    size = [w, h]
    c = {"kind": "history", "flavour": "iterator", "term_size": list(term), "size": [w, h], "frames": n, "cache": cache,
         "loops": loops, "pad0": gen_padding(rng, size, term), "steps": []}
    cur, cur_term = c["pad0"], list(term)      # the iterator's padding and the terminal it was set on
    pos, left = 0, loops
    steps = c["steps"]
    for _ in range(rng.randint(5, 12)):
        r = rng.random()
        if r < 0.5:
            for _ in range(rng.choice([1, 1, 2, n])):
                steps.append({"op": "next"})
                pos += 1
                if pos == n:
                    pos, left = 0, left - 1
                    if left == 0:
                        return c
        elif r < 0.75:
            p = same_box_variant(rng, cur, cur_term, size) if rng.random() < 0.7 else gen_padding(rng, size, term)
            steps.append({"op": "set_padding", "pad": p})
            cur, cur_term = p, list(term)
        elif r < 0.85:
            k = rng.randrange(n)
            steps.append({"op": "seek", "k": k})
            pos = k
        elif r < 0.93:
            term = [rng.randint(max(4, w + 1), 12), rng.randint(max(4, h + 1), 9)]
            steps.append({"op": "resize", "tw": term[0], "th": term[1]})
        else:
            size = [rng.randint(1, 4), rng.randint(1, 3)]
            steps.append({"op": "set_size", "w": size[0], "h": size[1]})
    steps.append({"op": "next"})
    return c


def gen_call_history(rng, quick=True):
    images = []
    style = rng.choice(["block", "block", "block", "kitty", "iterm2"])
    for _ in range(rng.choice([1, 1, 2])):   # images of ONE class
        render = gen_render(rng)
        while render["style"] != style:
            render = gen_render(rng)
        render["cells"] = [rng.randint(1, 4), rng.randint(1, 3)]
        render["alpha"] = None
        render["args"] = {k: v for k, v in render["args"].items() if k == "method"}
        if images and "term" in images[0]:
            render["term"] = images[0]["term"]   # one terminal identity per history (it is per class)
        images.append(render)
    term = [rng.randint(4, 14), rng.randint(4, 10)]
    c = {"kind": "history", "flavour": "calls", "term_size": list(term), "images": images, "steps": []}
    pool = []
    for _ in range(rng.choice([1, 2, 2, 3])):   # a few paddings, used again and again
        W = rng.choice([0, 0, 0, -1, -2, rng.randint(1, 8)])
        H = rng.choice([-2, -2, 0, 0, -1, -3, rng.randint(1, 6)])
        pool.append({"kind": "old", "W": W, "H": H, "ha": rng.randrange(3), "va": rng.randrange(3), "fill": "space"})
    for _ in range(rng.randint(4, 9)):
        if rng.random() < 0.4 and c["steps"]:
            term = [rng.randint(4, 14), rng.randint(4, 10)]
            c["steps"].append({"op": "resize", "tw": term[0], "th": term[1]})
            continue
        p = rng.choice(pool)
        if rng.random() < 0.2:   # the new API's per-call padding on a renderable
            c["steps"].append({"op": "call", "via": "render", "k": rng.randrange(2), "w": rng.randint(1, 4), "h": rng.randint(1, 3),
                               "pad": {"kind": "aligned", "W": min(p["W"], 8), "H": min(p["H"], 6), "ha": p["ha"], "va": p["va"],
                                       "fill": rng.choice(GLYPH_FILLS)}})
            continue
        vias = ["fmt"]
        if p["W"] >= 0 and (p["H"] >= 0 or p["H"] == -2):
            vias += ["format"] * 3
        if p["W"] <= term[0]:
            vias += ["draw"] * 2
        c["steps"].append({"op": "call", "via": rng.choice(vias), "k": IMG_K + rng.randrange(len(images)), "pad": p,
                           "pres": rng.randrange(6)})
    return c


def history_corpus():
    sp, st, em = "space", "star", "empty"
    al = lambda W, H, ha, va, fill=sp: {"kind": "aligned", "W": W, "H": H, "ha": ha, "va": va, "fill": fill}
    ex = lambda l, t, r, b, fill=sp: {"kind": "exact", "l": l, "t": t, "r": r, "b": b, "fill": fill}
    old = lambda W, H, ha, va: {"kind": "old", "W": W, "H": H, "ha": ha, "va": va, "fill": sp}
    nx, cs = {"op": "next"}, []
    # a frame visited again (second loop / backward seek) after set_padding() to ANOTHER padding of the
    # SAME padded size: other alignment, other fill, empty fill, exact margins with the same sums,
    # the same box spelt relative to the terminal; caching on / off / by count
    pairs = [(al(6, 4, 0, 0), al(6, 4, 2, 2)), (al(6, 4, 1, 1), al(6, 4, 1, 1, st)), (al(5, 3, 1, 1, st), al(5, 3, 1, 1, em)),
             (al(6, 4, 1, 1), ex(4, 0, 0, 2)), (ex(1, 1, 3, 1, st), ex(3, 0, 1, 2, st)), (al(6, 4, 0, 2), al(-3, -3, 2, 0)),
             (al(6, 4, 1, 1), ex(1, 1, 1, 1, st)),
             # one-column fills of several code points (as placeholders, see prelex)
             (al(6, 4, 1, 1, "comb"), ex(1, 1, 3, 1, "rev")), (ex(2, 0, 2, 2, "zwj"), al(6, 4, 2, 0, "comb2"))]
    for cache in (True, False, 2):
        for a, b in pairs:
            cs.append({"kind": "history", "flavour": "iterator", "term_size": [9, 7], "size": [2, 2], "frames": 2, "cache": cache,
                       "loops": 3, "pad0": a, "steps": [nx, nx, {"op": "set_padding", "pad": b}, nx, nx,
                                                        {"op": "set_padding", "pad": a}, {"op": "seek", "k": 0}, nx]})
    # set_padding(relative) resolves against the terminal size at THAT call; later resizes do not matter
    cs.append({"kind": "history", "flavour": "iterator", "term_size": [9, 7], "size": [2, 1], "frames": 2, "cache": True, "loops": -1,
               "pad0": al(0, -2, 1, 1), "steps": [nx, {"op": "resize", "tw": 6, "th": 5}, nx, {"op": "set_padding", "pad": al(0, -2, 1, 1)},
                                                   nx, nx, {"op": "set_size", "w": 3, "h": 2}, nx, {"op": "seek", "k": 0}, nx]})
    # the same per-call padding / format specifier on the same class before and after resizes
    blk = {"style": "block", "cells": [3, 2], "img": {"mode": "RGB", "size": [4, 4], "seed": 1, "kind": "runs"}, "alpha": None, "args": {}}
    blk2 = {**blk, "cells": [2, 1], "img": {**blk["img"], "seed": 2}}
    kit = {"style": "kitty", "cells": [3, 2], "img": blk["img"], "alpha": None, "args": {"method": "lines"}}
    rs = lambda tw, th: {"op": "resize", "tw": tw, "th": th}
    for p, pres in ((old(0, -2, 1, 1), 2), (old(0, 0, 0, 2), 1), (old(5, -2, 2, 0), 0), (old(0, 3, 1, 1), 0)):
        for via in ("format", "draw", "fmt"):
            call = lambda k=IMG_K: {"op": "call", "via": via, "k": k, "pad": p, "pres": pres}
            cs.append({"kind": "history", "flavour": "calls", "term_size": [9, 7], "images": [blk, blk2],
                       "steps": [call(), rs(6, 5), call(), call(IMG_K + 1), rs(12, 9), call(), rs(9, 7), call()]})
    cs.append({"kind": "history", "flavour": "calls", "term_size": [9, 7], "images": [kit],
               "steps": [{"op": "call", "via": "format", "k": IMG_K, "pad": old(0, -2, 1, 1), "pres": 0}, rs(7, 6),
                         {"op": "call", "via": "format", "k": IMG_K, "pad": old(0, -2, 1, 1), "pres": 0}]})
    for fill in (sp, em):
        rc = lambda k: {"op": "call", "via": "render", "k": k, "w": 2, "h": 2, "pad": al(0, -1, 2, 1, fill)}
        cs.append({"kind": "history", "flavour": "calls", "term_size": [9, 7], "images": [],
                   "steps": [rc(0), rs(6, 5), rc(0), rc(1), rs(9, 7), rc(0)]})
    return cs


def hist_outputs(c):
    return sum(1 for st in c["steps"] if st["op"] in ("next", "call"))


def hist_features(c):
    """(revisits of a frame after a set_padding to another padding of the same padded size,
        per-call paddings repeated after a resize)"""
    revisits = repeats = 0
    if c.get("frames"):
        n, term, size = c["frames"], list(c["term_size"]), list(c["size"])
        cur, cur_term, pos = c["pad0"], list(term), 0
        shown = {}   # frame -> (padding as shown last, padded size)
        for st in c["steps"]:
            op = st["op"]
            if op == "resize":
                term = [st["tw"], st["th"]]
            elif op == "set_padding":
                cur, cur_term = st["pad"], list(term)
            elif op == "set_size":
                size = [st["w"], st["h"]]
            elif op == "seek":
                pos = st["k"]
            elif op == "next":
                key = (json_key(cur), tuple(cur_term))
                box = (padded_size_of(cur, cur_term, size), tuple(size))
                if pos in shown and shown[pos][0] != key and shown[pos][1] == box and box[0] != tuple(size):
                    revisits += 1
                shown[pos] = (key, box)
                pos = (pos + 1) % n
    term, seen = list(c["term_size"]), {}
    for st in c["steps"]:
        if st["op"] == "resize":
            term = [st["tw"], st["th"]]
        elif st["op"] == "call":
            p = st["pad"]
            if p["W"] <= 0 or p["H"] <= 0:
                key = (json_key(p), st["via"])
                if key in seen and seen[key] != term:
                    repeats += 1
                seen[key] = list(term)
    return revisits, repeats


def json_key(o):
    import json
    return json.dumps(o, sort_keys=True)


def describe_history(c):
    def pd(p):
        if p["kind"] == "exact":
            return f"Exact({p['l']},{p['t']},{p['r']},{p['b']},{p['fill']})"
        return f"{'Aligned' if p['kind'] == 'aligned' else 'old'}({p['W']},{p['H']},{'<|>'[p['ha']]},{'^-_'[p['va']]},{p['fill']})"

    def sd(st):
        op = st["op"]
        if op == "resize":
            return f"resize({st['tw']}x{st['th']})"
        if op == "set_padding":
            return f"set_padding({pd(st['pad'])})"
        if op == "set_size":
            return f"set_render_size({st['w']}x{st['h']})"
        if op == "seek":
            return f"seek({st['k']})"
        if op == "next":
            return "next"
        tgt = f"renderable frame {st['k']} at {st['w']}x{st['h']}" if st["via"] == "render" else f"image{st['k'] - IMG_K}"
        return f"{st['via']}({tgt}, {pd(st['pad'])})"
    head = f"terminal {c['term_size'][0]}x{c['term_size'][1]}"
    if c.get("frames"):
        head += (f"; RenderIterator({c['frames']} frames of {c['size'][0]}x{c['size'][1]}, padding={pd(c['pad0'])}, "
                 f"cache={c['cache']}, loops={c['loops']})")
    if c.get("images"):
        head += "; images " + ", ".join(f"{i['style']} {i['cells'][0]}x{i['cells'][1]}" for i in c["images"])
    return head + ": " + " ; ".join(sd(st) for st in c["steps"])


def eval_histories(cases, tag="c05h"):
    """run the histories (EACH IN ITS OWN forked PROCESS, see impl_c05.run_isolated: a history is
    self-contained, what a process remembers from one history cannot leak into the next, a replay is
    exact) and evaluate them in Coq;
    returns (impl results, {index: code}, errors)"""
    impl = core.run_impl_parallel("impl_c05.py", cases)
    terms, owner, codes, errors = [], [], {}, []
    for i, (c, r) in enumerate(zip(cases, impl)):
        if "error" in r or len(r["outs"]) != hist_outputs(c):
            codes[i] = -1
            continue
        try:
            terms.append(hist_term(c, r))
            owner.append(i)
        except lexer.LexError as e:
            codes[i] = -2
            r["lex_error"] = ("a FRAGMENT of a fill (not a whole fill) is left in an output: " if isinstance(e, FillFragment)
                              else "unlexable output: ") + str(e)
    if terms:
        bad, errs = core.coq_shards(tag, HHEADER, terms, "hcase", "hbad cases", shard=max(4, min(12, (len(terms) + 15) // 16)))
        errors += errs
        for idx, code in bad:
            codes[owner[idx]] = code
    return impl, codes, errors


def hist_explain(c, res):
    text = HHEADER + f"Set Printing Width 100000.\nEval vm_compute in (hexplain ({hist_term(c, res)})).\n"
    rc, out = core.coq_eval_file(f"c05h_explain_{id(c)}", text)
    vals = core.parse_evals(out)
    return " ".join(vals[0].split()) if vals else out[-300:]


def shrink_history(c, rounds=10):
    """smallest failing history found by (1) cutting after an output, (2) dropping single steps;
    every candidate is run in its own process (a history must fail by itself)"""
    def failing(cands):
        if not cands:
            return None
        _, codes, _ = eval_histories(cands, tag="c05hs")
        for i, cand in enumerate(cands):
            if codes.get(i, 0) >= 2 or codes.get(i, 0) == -2:   # fails the oracle / an output cannot even be lexed
                return cand
        return None
    outs = [i for i, st in enumerate(c["steps"]) if st["op"] in ("next", "call")]
    best = failing([{**c, "steps": c["steps"][: i + 1]} for i in outs])
    if best is None:
        return None
    for _ in range(rounds):
        cands = [{**best, "steps": best["steps"][:i] + best["steps"][i + 1:]} for i in range(len(best["steps"]))]
        cands = [k for k in cands if hist_outputs(k) >= 1]
        nxt = failing(cands)
        if nxt is None:
            break
        best = nxt
    return best


# ------------------------------------------------------------------------------- content and animations (round 6)
# The render CONTENT.  `Padding.pad(render, render_size)`: "a render output, in the form specified to be returned by
# Renderable._render_()" - `height` lines separated by "\n" (exactly height - 1 of them), each occupying `width` columns.
# What a line is made of is the caller's.  The universe of line contents used here:
#   plain   one-column glyphs
#   sgr     a direct-colour SGR in the middle of a line, reset before the line ends (attributes default at "\n")
#   zw      characters that occupy no column and that the terminal ignores (-> token TNul), all of which some
#           text-processing functions (str.splitlines) take for line boundaries: U+2028, U+2029, U+001C..U+001E
#   mixed   sgr + zw
#   ctl     content the terminal model has no token for (judged at CODE-POINT level only): "\v", "\f", U+0085 (also
#           str.splitlines boundaries), combining marks after a base letter, East-Asian wide characters (2 columns)
# A lone "\r" inside a line is a cursor control that breaks the render contract itself: left out.
ZW_IGNORED = ("\u2028", "\u2029", "\x1c", "\x1d", "\x1e")
CTL_RAW = ("\x0b", "\x0c", "\x85")
COMBINING = ("\u0301", "\u0323")
WIDE = ("\u4e2d", "\uff21")
ZW_MAP = {ord(ch): "\0" for ch in ZW_IGNORED}
SPECIAL = set(ZW_IGNORED + CTL_RAW + COMBINING + WIDE)
FLAVOURS = ("plain", "sgr", "zw", "mixed", "ctl")


def content_lex(text, fills=()):
    """the lexer route for text content: a zero-width character the terminal ignores is the token TNul"""
    return lex_out(text.translate(ZW_MAP), fills)


def text_lines(rng, w, h, flavour, letters="abcdefg"):
    """h lines of w columns"""
    rows = []
    for _ in range(h):
        cells = [rng.choice(letters) for _ in range(w)]
        if flavour == "ctl" and w >= 2 and rng.random() < 0.3:
            k = rng.randrange(w - 1)
            cells[k:k + 2] = [rng.choice(WIDE)]
        if flavour in ("sgr", "mixed") and rng.random() < 0.8:
            a = rng.randrange(len(cells))
            b = rng.randint(a, len(cells) - 1)
            cells[a] = f"\x1b[{rng.choice((38, 48))};2;{rng.randrange(256)};{rng.randrange(256)};{rng.randrange(256)}m" + cells[a]
            cells[b] += "\x1b[0m"
        rows.append(cells)
    if flavour in ("zw", "mixed", "ctl"):
        pool = ZW_IGNORED if flavour != "ctl" else ZW_IGNORED + CTL_RAW + CTL_RAW + COMBINING
        for n in range(rng.choice([1, 1, 2, 3])):
            cells = rows[rng.randrange(h)] if n else rows[rng.choice([0, h - 1, rng.randrange(h)])]
            ch = rng.choice(pool)
            k = rng.randrange(len(cells))
            if ch in COMBINING or rng.random() < 0.5:
                cells[k] += ch            # after the cell (a combining mark follows its base)
            else:
                cells[k] = ch + cells[k]  # before the cell (k = 0: first character of the line)
    return ["".join(cells) for cells in rows]


def specials_of(lines):
    return sorted({f"U+{ord(ch):04X}" for ln in lines for ch in ln if ch in SPECIAL})


def gen_box_padding(rng, w, h, asym=False):
    """a padding and a terminal it fits on; asym: the vertical margins differ (most of the time)"""
    r = rng.random()
    if r < 0.4:
        t, b = rng.choice([0, 0, 1, 2, 3]), rng.choice([0, 1, 2, 3])
        if asym and t == b and rng.random() < 0.85:
            b = t + rng.choice([1, 2])
        p = {"kind": "exact", "l": rng.choice([0, 1, 1, 2, 3]), "t": t, "r": rng.choice([0, 0, 1, 2]), "b": b}
        pw, ph = p["l"] + w + p["r"], t + h + b
        return p, [pw + rng.randint(0, 3), ph + rng.randint(0, 3)]
    sh, sv = rng.choice([0, 1, 2, 3, 4]), rng.choice([0, 1, 1, 2, 3, 3, 4])
    va = rng.randrange(3)
    if asym and (sv == 0 or (va == 1 and sv % 2 == 0)) and rng.random() < 0.85:
        sv += 1
    pw, ph = w + sh, h + sv
    tw, th = pw + rng.randint(0, 3), ph + rng.randint(0, 3)
    W = pw - tw if rng.random() < 0.3 else pw     # the same box spelt relative to the terminal
    H = ph - th if rng.random() < 0.3 else ph
    if rng.random() < 0.1:
        W = max(1, w - 1)                           # a minimum below the render size: no effect on that axis
    return {"kind": "aligned", "W": W, "H": H, "ha": rng.randrange(3), "va": va}, [tw, th]


def gen_content_case(rng):
    w, h = rng.randint(1, 6), rng.randint(1, 4)
    flavour = rng.choice(["zw", "zw", "zw", "mixed", "mixed", "sgr", "ctl", "ctl", "plain"])
    p, term = gen_box_padding(rng, w, h)
    return {"kind": "content", "render": {"style": "text", "cells": [w, h], "flavour": flavour,
                                          "lines": text_lines(rng, w, h, flavour)},
            "term_size": term, "padding": p, "fill": rng.choice(("space", "star", "star", "empty", "empty") + MULTI),
            "via": rng.choice(["pad", "pad", "renderable", "iterator"])}


def content_corpus():
    cs = []
    ex = lambda l, t, r, b: {"kind": "exact", "l": l, "t": t, "r": r, "b": b}
    al = lambda W, H, ha, va: {"kind": "aligned", "W": W, "H": H, "ha": ha, "va": va}
    mk = lambda lines, flavour, p, fill, via: {"kind": "content", "render": {"style": "text", "cells": [3, len(lines)], "flavour": flavour,
                                                                                   "lines": lines},
                                               "term_size": [12, 9], "padding": p, "fill": fill, "via": via}
    for ch in ZW_IGNORED + CTL_RAW:
        fl = "zw" if ch in ZW_IGNORED else "ctl"
        cs.append(mk([f"ab{ch}c", "xyz"], fl, ex(2, 1, 1, 1), "star", "pad"))
        cs.append(mk([f"ab{ch}c", "xyz"], fl, ex(0, 0, 2, 0), "star", "renderable"))
        cs.append(mk(["abc", f"{ch}xyz"], fl, al(6, 4, 2, 2), "space", "iterator"))
        cs.append(mk([f"abc{ch}", "xyz"], fl, ex(1, 0, 0, 2), "empty", "pad"))
    # an escape sequence in the middle of a line; the same with a zero-width character inside the coloured run
    cs.append(mk(["a\x1b[38;2;9;8;7mb\x1b[0mc", "xyz"], "sgr", ex(1, 1, 2, 0), "star", "pad"))
    cs.append(mk(["a\x1b[48;2;9;8;7mb\u2028c\x1b[0m", "x\u2029yz"], "mixed", al(7, 3, 1, 1), "bgblank", "renderable"))
    # a one-line render; a line that is nothing but its glyphs and a zero-width character at both ends
    cs.append(mk(["\u2028abc\u2029"], "zw", ex(1, 0, 1, 0), "empty", "pad"))
    cs.append(mk(["e\u0301bc", "x\u4e2d"], "ctl", ex(1, 1, 1, 1), "star", "pad"))
    return cs


def codepoints(text):
    return "[" + "; ".join(str(ord(ch)) for ch in text) + "]"


def content_term(c, res):
    lexed = c["render"].get("flavour") != "ctl"
    g = case_term(c, res, lex=content_lex, lexed=lexed)
    return (f"{{| c_g := {g}; c_lexed := {'true' if lexed else 'false'}; "
            f"c_raw_inner := {codepoints(res['inner'])}; c_raw_obs := {codepoints(res['out'])} |}}")


def describe_content(c):
    r = c["render"]
    return (f"text render {r['cells'][0]}x{r['cells'][1]} lines={r['lines']!r} ({r.get('flavour')}: {', '.join(specials_of(r['lines'])) or 'no zero-width character'}) "
            f"padding={c['padding']} fill={c['fill']}={FILL_STR[c['fill']]!r} term={c['term_size']} via={c.get('via', 'pad')}")


# ANIMATED draws: Renderable.draw() of an n-frame text renderable on a pty, with a padding.
ANIM_FILLS = ("space", "star", "star", "empty", "empty", "comb", "rev")


def gen_anim_case(rng):
    w, h = rng.randint(1, 4), rng.randint(1, 3)
    n = rng.choice([2, 2, 3])
    flavour = rng.choice(["plain", "plain", "sgr", "zw", "mixed"])
    p, term = gen_box_padding(rng, w, h, asym=True)
    return {"kind": "anim", "size": [w, h], "flavour": flavour,
            "frames": [text_lines(rng, w, h, flavour, letters="abcdefghi"[3 * k:3 * k + 3]) for k in range(n)],
            "term_size": term, "padding": p, "fill": rng.choice(ANIM_FILLS), "loops": rng.choice([1, 1, 2]),
            "cache": rng.choice([True, False])}


def anim_corpus():
    cs = []
    ex = lambda l, t, r, b: {"kind": "exact", "l": l, "t": t, "r": r, "b": b}
    al = lambda W, H, ha, va: {"kind": "aligned", "W": W, "H": H, "ha": ha, "va": va}
    fr = lambda n, w=3, h=2: [["ABC"[k] * w] * h for k in range(n)]
    mk = lambda p, fill, n=3, loops=1, term=(12, 9): {"kind": "anim", "size": [3, 2], "flavour": "plain", "frames": fr(n),
                                                      "term_size": list(term), "padding": p, "fill": fill, "loops": loops, "cache": True}
    # symmetric vertical margins / horizontal only / none
    cs += [mk(al(7, 6, 1, 1), "star"), mk(ex(2, 1, 1, 1), "star"), mk(al(9, 1, 2, 1), "star"), mk(ex(0, 0, 0, 0), "space", n=2)]
    # top margin != bottom margin: MIDDLE with odd slack, TOP / BOTTOM with slack, exact, empty fill, relative box
    cs += [mk(al(7, 7, 1, 1), "star"), mk(al(7, 6, 2, 0), "star"), mk(al(7, 6, 0, 2), "star"), mk(ex(1, 3, 2, 0), "star"),
           mk(ex(1, 0, 2, 3), "empty"), mk(ex(0, 0, 0, 1), "star", n=2), mk(ex(0, 1, 0, 0), "space", n=2),
           mk(al(0, -2, 1, 0), "space", term=(8, 7)), mk(al(-3, 0, 0, 2), "empty", loops=2, term=(8, 6)),
           mk(al(5, 5, 1, 1), "comb", n=2, loops=2)]
    # frames with content: a zero-width character / a colour change in the middle of a line of a LATER frame
    c = mk(ex(2, 0, 1, 2), "star")
    c["frames"] = [["abc", "abc"], ["d\u2028ef", "def"], ["g\x1b[38;2;1;2;3mh\x1b[0mi", "gh\x1ei"]]
    c["flavour"] = "mixed"
    cs.append(c)
    return cs


def anim_term(c, res):
    p = c["padding"]
    k = (f"PAligned {zz(p['W'])} {zz(p['H'])} {p['ha']}%nat {p['va']}%nat" if p["kind"] == "aligned"
         else f"PExact {p['l']} {p['t']} {p['r']} {p['b']}")
    w, h = c["size"]
    frames = "[" + "; ".join(lexer.coq_toks(content_lex(f)) for f in res["frames"]) + "]"
    obs = lexer.coq_toks(content_lex(res["out"], (c["fill"],)))
    return (f"{{| a_kind := {k}; a_fill := {FILL_T[c['fill']]}; a_tw := {c['term_size'][0]}; a_th := {c['term_size'][1]}; "
            f"a_w := {w}; a_h := {h}; a_hide := true; a_frames := {frames}; a_obs := {obs}; a_rows := [0; 2] |}}")


def anim_margins(c):
    """generator-side only: (top, bottom) margins of an anim case"""
    p = c["padding"]
    if p["kind"] == "exact":
        return p["t"], p["b"]
    H = p["H"] if p["H"] > 0 else max(c["term_size"][1] + p["H"], 1)
    s = max(H - c["size"][1], 0)
    t = [0, s // 2, s][p["va"]]
    return t, s - t


def describe_anim(c):
    t, b = anim_margins(c)
    return (f"draw() of a {len(c['frames'])}-frame text renderable {c['size'][0]}x{c['size'][1]} on a pty, loops={c['loops']} cache={c['cache']} "
            f"frames={c['frames']!r} padding={c['padding']} (top margin {t}, bottom margin {b}) fill={c['fill']}={FILL_STR[c['fill']]!r} term={c['term_size']}")


# ANIMATED draws of the IMAGE classes (round 8): BaseImage.draw(animate=True) of an n-frame GIF on a pty, per style and
# TERMINAL IDENTITY (the style-specific animation paths), with box geometries at the boundary (a padded box of exactly one
# line; pad_height / pad_width smaller than, equal to, larger than the rendered size; terminal-relative).
OANIM_IDENT = [("block", "", None), ("kitty", "", (0, 30, 0)), ("kitty", "", (0, 25, 0)),
               ("iterm2", "wezterm", None), ("iterm2", "iterm2", None), ("iterm2", "konsole", None)]


def oanim_case(style, term, kv, height, pad, ha, va, mix=None, method=None, n=3, repeat=1, cached=False, px=(4, 4),
               term_size=(12, 9), pres=0, seed=1):
    args = {}
    if method and style != "block":
        args["method"] = method
    if mix is not None and style != "block":
        args["mix"] = mix
    c = {"kind": "oanim", "style": style, "term": term, "term_size": list(term_size),
         "img": {"n_frames": n, "size": list(px), "seed": seed}, "height": height, "pad": list(pad), "ha": ha, "va": va,
         "pres": pres, "repeat": repeat, "cached": cached, "args": args}
    if kv:
        c["kitty_version"] = list(kv)
    return c


def oanim_corpus():
    cs = []
    # (rendered height, pad_height, pad_width): one-line box; pad_height smaller / equal / larger by one / larger
    geo = [(1, 1, 1), (2, 1, 4), (2, 2, 6), (1, 2, 1), (2, 5, 7)]
    # rotated over the identities: a wide one-line box; a terminal-relative box
    rot = [(1, 1, 5), (2, -2, 0)]
    for k, (style, term, kv) in enumerate(OANIM_IDENT):
        for g, (h, H, W) in enumerate(geo + [rot[k % 2]]):
            cs.append(oanim_case(style, term, kv, h, (W, H), (k + g) % 3, (k + 2 * g) % 3, n=2 if g % 2 else 3,
                                 method="whole" if (k + g) % 4 == 3 else None, pres=g % 2))
    # mix both ways where the style has the parameter (iterm2 on every identity, kitty): a vertically padded box
    # both ways, a one-line box with mix false (the path with a pre-animation step on wezterm)
    for style, term, kv in OANIM_IDENT[1:]:
        for mix in (True, False):
            cs.append(oanim_case(style, term, kv, 2, (6, 4), 1, 0 if mix else 2, mix=mix, n=2))
        cs.append(oanim_case(style, term, kv, 1, (3, 1), 2, 1, mix=False, n=2))
    return cs


def gen_oanim_case(rng):
    style, term, kv = rng.choice(OANIM_IDENT + [("iterm2", "wezterm", None)] * 2)
    h = rng.choice([1, 1, 2, 3])
    tw, th = rng.choice([(12, 9), (10, 8), (14, 6)])
    H = rng.choice([1, h - 1 if h > 1 else 1, h, h + 1, h + 2, h + 3, 0, -2, -th])
    H = min(H, th)
    W = rng.choice([1, 2, 3, 4, 5, 7, tw, 0, -3, -tw])
    px = rng.choice([(4, 4), (2, 4), (6, 4), (4, 4)]) if h < 3 else rng.choice([(4, 4), (2, 4)])
    return oanim_case(style, term, kv, h, (W, H), rng.randrange(3), rng.randrange(3),
                      mix=rng.choice([None, True, False]), method=rng.choice([None, "lines", "whole"]),
                      n=rng.choice([2, 2, 3]), repeat=rng.choice([1, 1, 2]), cached=rng.choice([False, True]),
                      px=px, term_size=(tw, th), pres=rng.randrange(2), seed=rng.randrange(50))


def oanim_pre(c):
    return c["style"] == "iterm2" and c["term"] == "wezterm" and not c["args"].get("mix", False)


def oanim_term(c, res):
    w, h = res["size"]
    frames = "[" + "; ".join(lexer.coq_toks(lex_out(f, ())) for f in res["frames"]) + "]"
    obs = lexer.coq_toks(lex_out(res["out"], ()))
    oldk = c["style"] == "kitty" and tuple(c.get("kitty_version", (0, 30, 0))) <= (0, 25, 0)
    return (f"{{| o_tw := {c['term_size'][0]}; o_th := {c['term_size'][1]}; o_rawW := {zz(c['pad'][0])}; o_rawH := {zz(c['pad'][1])}; "
            f"o_ha := {c['ha']}%nat; o_va := {c['va']}%nat; o_w := {w}; o_h := {h}; o_tty := true; "
            f"o_pre := {'PrePlaceholder' if oanim_pre(c) else 'PreNone'}; o_oldk := {'true' if oldk else 'false'}; "
            f"o_frames := {frames}; o_obs := {obs}; o_rows := [0; 3] |}}")


def oanim_box(c):
    """generator-side only: resolved pad_height of an oanim case"""
    H = c["pad"][1]
    return H if H > 0 else max(c["term_size"][1] + H, 1)


def describe_oanim(c):
    return (f"{c['style']} image ({c['img']['n_frames']}-frame GIF {c['img']['size']}px seed {c['img']['seed']}, height={c['height']}) on terminal identity "
            f"{c['term'] or '-'!r}{' kitty ' + str(c['kitty_version']) if c.get('kitty_version') else ''}: "
            f"draw({'<|>'[c['ha']]!r}, pad_width={c['pad'][0]}, {'^-_'[c['va']]!r}, pad_height={c['pad'][1]}, animate=True, repeat={c['repeat']}, "
            f"cached={c['cached']}, **{c['args']}) on a pty, terminal {c['term_size']} (padded box {oanim_box(c)} v {c['height']} lines, "
            f"pre-animation placeholder: {oanim_pre(c)})")


def shrink_oanim_candidates(c):
    cands = []
    if c["repeat"] > 1:
        cands.append({**c, "repeat": 1})
    if c["cached"]:
        cands.append({**c, "cached": False})
    if c["img"]["n_frames"] > 2:
        cands.append({**c, "img": {**c["img"], "n_frames": 2}})
    if c["args"].get("method"):
        cands.append({**c, "args": {k: v for k, v in c["args"].items() if k != "method"}})
    if c["pres"]:
        cands.append({**c, "pres": 0})
    W, H = c["pad"]
    tw, th = c["term_size"]
    if W <= 0:
        cands.append({**c, "pad": [max(tw + W, 1), H]})
    if H <= 0:
        cands.append({**c, "pad": [W, max(th + H, 1)]})
    if W > 1:
        cands += [{**c, "pad": [1, H]}, {**c, "pad": [W - 1, H]}]
    if H > 1:
        cands += [{**c, "pad": [W, 1]}, {**c, "pad": [W, H - 1]}]
    if c["height"] > 1:
        cands.append({**c, "height": c["height"] - 1})
    if c["img"]["size"] != [4, 4]:
        cands.append({**c, "img": {**c["img"], "size": [4, 4]}})
    if c["ha"]:
        cands.append({**c, "ha": 0})
    if c["va"]:
        cands.append({**c, "va": 0})
    return cands


def eval_extra(cases, tag="c05x"):
    """content and anim cases: run them and judge them inside Coq; returns (impl results, {index: code}, errors)
    with code -1 = raised, -2 = unlexable output"""
    from concurrent.futures import ThreadPoolExecutor
    impl = core.run_impl_parallel("impl_c05.py", cases, chunk=max(40, (len(cases) + 15) // 16))   # few processes for few cases
    codes, errors = {}, []
    terms = {"content": ([], []), "anim": ([], []), "oanim": ([], [])}
    for i, (c, r) in enumerate(zip(cases, impl)):
        if "error" in r:
            codes[i] = -1
            continue
        try:
            terms[c["kind"]][0].append({"content": content_term, "anim": anim_term, "oanim": oanim_term}[c["kind"]](c, r))
            terms[c["kind"]][1].append(i)
        except lexer.LexError as e:
            codes[i] = -2
            r["lex_error"] = str(e)

    def judge(kind):
        ts, own = terms[kind]
        if not ts:
            return [], []
        hdr, typ, expr = {"content": (CHEADER, "ccase", "cbad cases"), "anim": (AHEADER, "acase", "abad cases"),
                          "oanim": (OHEADER, "ocase", "obad cases")}[kind]
        bad, errs = core.coq_shards(f"{tag}{kind[0]}", hdr, ts, typ, expr, shard=max(60, (len(ts) + 7) // 8))
        return [(own[idx], code) for idx, code in bad], errs
    with ThreadPoolExecutor(max_workers=3) as pool:
        for bad, errs in pool.map(judge, ("content", "anim", "oanim")):
            errors += errs
            codes.update(dict(bad))
    return impl, codes, errors


def extra_explain(c, res):
    try:
        if c["kind"] == "content":
            text = CHEADER + f"Set Printing Width 100000.\nEval vm_compute in (cexplain ({content_term(c, res)})).\n"
        elif c["kind"] == "oanim":
            text = OHEADER + f"Set Printing Width 100000.\nEval vm_compute in (oexplain ({oanim_term(c, res)})).\n"
        else:
            text = AHEADER + f"Set Printing Width 100000.\nEval vm_compute in (aexplain ({anim_term(c, res)})).\n"
    except lexer.LexError as e:
        return f"unlexable: {e}"
    rc, out = core.coq_eval_file(f"c05x_explain_{id(c)}", text)
    vals = core.parse_evals(out)
    return " ".join(vals[0].split()) if vals else out[-300:]


def plain_line(ln, w):
    return "".join(ch for ch in re.sub(r"\x1b\[[0-9;]*m", "", ln) if ch not in SPECIAL)[:w].ljust(w, "a")


def shrink_candidates(c):
    """smaller variants of a content / anim / oanim case"""
    if c["kind"] == "oanim":
        return shrink_oanim_candidates(c)
    cands = []
    simple = [{"kind": "exact", "l": 1, "t": 0, "r": 0, "b": 0}, {"kind": "exact", "l": 0, "t": 0, "r": 1, "b": 0},
              {"kind": "exact", "l": 0, "t": 0, "r": 0, "b": 1}, {"kind": "exact", "l": 0, "t": 1, "r": 0, "b": 0}]
    p = c["padding"]
    if p["kind"] == "aligned":
        w, h = c["render"]["cells"] if c["kind"] == "content" else c["size"]
        tw, th = c["term_size"]
        W = p["W"] if p["W"] > 0 else max(tw + p["W"], 1)
        H = p["H"] if p["H"] > 0 else max(th + p["H"], 1)
        sh, sv = max(W - w, 0), max(H - h, 0)
        l, t = [0, sh // 2, sh][p["ha"]], [0, sv // 2, sv][p["va"]]
        simple.insert(0, {"kind": "exact", "l": l, "t": t, "r": sh - l, "b": sv - t})
    else:
        for k in "ltrb":
            if p[k] > 0:
                simple.append({**p, k: p[k] - 1})
                simple.append({**p, k: 0})
    for q in simple:
        if q != p:
            cands.append({**c, "padding": q})
    if c["fill"] not in ("star", "empty"):
        cands.append({**c, "fill": "star"})
    if c["kind"] == "content":
        r = c["render"]
        w, h = r["cells"]
        if c.get("via", "pad") != "pad":
            cands.append({**c, "via": "pad"})
        for i in range(h):
            if h > 1:
                cands.append({**c, "render": {**r, "cells": [w, h - 1], "lines": r["lines"][:i] + r["lines"][i + 1:]}})
            pl = plain_line(r["lines"][i], w)
            if pl != r["lines"][i] and not any(ch in WIDE for ch in r["lines"][i]):
                cands.append({**c, "render": {**r, "lines": r["lines"][:i] + [pl] + r["lines"][i + 1:]}})
            for k, ch in enumerate(r["lines"][i]):
                if ch in SPECIAL and ch not in WIDE and sum(x in SPECIAL for ln in r["lines"] for x in ln) > 1:
                    ln = r["lines"][i]
                    cands.append({**c, "render": {**r, "lines": r["lines"][:i] + [ln[:k] + ln[k + 1:]] + r["lines"][i + 1:]}})
    else:
        w, h = c["size"]
        fs = c["frames"]
        if c["loops"] > 1:
            cands.append({**c, "loops": 1})
        if len(fs) > 2:
            cands += [{**c, "frames": fs[:i] + fs[i + 1:]} for i in range(len(fs))]
        plain = [[plain_line(ln, w) for ln in f] for f in fs]
        if plain != fs:
            cands.append({**c, "frames": plain, "flavour": "plain"})
        if h > 1:   # drop line i of every frame
            cands += [{**c, "size": [w, h - 1], "frames": [f[:i] + f[i + 1:] for f in fs]} for i in range(h)]
        if plain == fs and w > 1:
            cands.append({**c, "size": [w - 1, h], "frames": [[ln[:-1] for ln in f] for f in fs]})
        nspecial = sum(ch in SPECIAL for f in fs for ln in f for ch in ln)
        for k, f in enumerate(fs):
            for i, ln in enumerate(f):
                pl = plain_line(ln, w)
                if pl != ln:
                    cands.append({**c, "frames": fs[:k] + [f[:i] + [pl] + f[i + 1:]] + fs[k + 1:]})
                if nspecial > 1:
                    cands += [{**c, "frames": fs[:k] + [f[:i] + [ln[:j] + ln[j + 1:]] + f[i + 1:]] + fs[k + 1:]}
                              for j, ch in enumerate(ln) if ch in SPECIAL]
    return cands


def case_size(c):
    if c["kind"] == "oanim":
        return (c["img"]["n_frames"] * c["repeat"] * 10 + c["height"] * 8 + sum(abs(x) if x > 0 else 20 for x in c["pad"]) + len(c["args"]) + c["ha"] + c["va"],
                c["cached"], c["pres"])
    p = c["padding"]
    pad = sum(p[k] for k in "ltrb") if p["kind"] == "exact" else 50
    body = sum(len(ln) for ln in c["render"]["lines"]) if c["kind"] == "content" else sum(len(ln) for f in c["frames"] for ln in f) * c["loops"]
    return (body + pad, c.get("via", "pad") != "pad", c["fill"] not in ("star", "empty"))


def shrink_extra(c, rounds=8):
    """greedy: the smallest failing (code >= 2 / unlexable) candidate, until none fails"""
    best = c
    for _ in range(rounds):
        if core.over_budget():
            break
        cands = sorted(shrink_candidates(best), key=case_size)[:32]
        if not cands:
            break
        _, codes, _ = eval_extra(cands, tag="c05xs")
        nxt = next((k for i, k in enumerate(cands) if codes.get(i, 0) >= 2 or codes.get(i, 0) == -2), None)
        if nxt is None:
            break
        best = nxt
    return best


def run(ctx):
    rng = ctx.rng
    histories, extra = [], []
    if ctx.replay:
        cases = [ctx.replay["replay"]["case"]]
        if cases[0].get("kind") == "history":
            cases, histories = [], cases
        elif cases[0].get("kind") in ("content", "anim", "oanim"):
            cases, extra = [], cases
    else:
        n = 320 if ctx.quick else 6000
        cases = corpus() + [gen_case(rng) for _ in range(n)]
        cases += [{"kind": "exact-invalid", "dims": [rng.randint(-2, 3) for _ in range(4)]} for _ in range(40)]
        nh = 50 if ctx.quick else 1200
        histories = history_corpus() + [(gen_iter_history if k % 2 else gen_call_history)(rng) for k in range(nh)]
        nc, na = (70, 36) if ctx.quick else (2500, 1200)
        extra = (content_corpus() + anim_corpus() + [gen_content_case(rng) for _ in range(nc)]
                 + [gen_anim_case(rng) for _ in range(na)])
        no = 10 if ctx.quick else 400
        extra += oanim_corpus() + [gen_oanim_case(rng) for _ in range(no)]
    from concurrent.futures import ThreadPoolExecutor
    with ThreadPoolExecutor(max_workers=3) as pool:   # the histories and the content / animation cases run beside the single cases
        hfut = pool.submit(eval_histories, histories) if histories else None
        xfut = pool.submit(eval_extra, extra) if extra else None
        impl = core.run_impl_parallel("impl_c05.py", cases)
        himpl, hcodes, herrors = hfut.result() if hfut else ([], {}, [])
        ximpl, xcodes, xerrors = xfut.result() if xfut else ([], {}, [])
    terms, owner = [], []
    failures, mismatches, errors = [], [], list(herrors) + list(xerrors)
    hfailures, lexfailures, xfailures = [], [], []   # reported after the single cases judged inside Coq (the smallest inputs first)
    hist = {"kind": {}, "fill": {}, "style": {}, "via": {}, "relative": 0, "padded_h": 0, "padded_v": 0,
            "multi_code_point_fill": {"h_padded": 0, "v_only": 0, "unpadded": 0},
            "histories": {"iterator": 0, "calls": 0, "outputs": 0, "cache_on": 0, "cache_off": 0,
                          "revisits_after_same_box_padding_change": 0, "relative_call_repeated_after_resize": 0,
                          "via": {}}}
    distinct = set()
    # ---- content and animation cases (round 6)
    hist["content"] = {"cases": 0, "flavour": {}, "via": {}, "horizontally_padded": 0, "characters": {}}
    hist["animations"] = {"cases": 0, "frames_drawn": 0, "top_margin_differs_from_bottom": 0, "flavour": {}, "fill": {}}
    hist["image_animations"] = {"cases": 0, "identity": {}, "pre_animation_placeholder": 0, "one_line_box": 0,
                                "pad_height_vs_rendered": {"smaller": 0, "equal": 0, "larger": 0},
                                "pad_width_vs_rendered": {"smaller": 0, "equal": 0, "larger": 0}, "mix": {}, "method": {},
                                "draw_rejected_by_size_validation": 0}
    xshrunk = 0
    for i, (c, r) in enumerate(zip(extra, ximpl)):
        anim = c["kind"] == "anim"
        oanim = c["kind"] == "oanim"
        if oanim:
            ho = hist["image_animations"]
            ho["cases"] += 1
            ident = c["style"] + ("/" + c["term"] if c["term"] else "") + ("/old" if tuple(c.get("kitty_version", (0, 30, 0))) <= (0, 25, 0) and c["style"] == "kitty" else "")
            ho["identity"][ident] = ho["identity"].get(ident, 0) + 1
            ho["mix"][str(c["args"].get("mix"))] = ho["mix"].get(str(c["args"].get("mix")), 0) + 1
            ho["method"][str(c["args"].get("method"))] = ho["method"].get(str(c["args"].get("method")), 0) + 1
            if "size" in r:
                w, h = r["size"]
                H = oanim_box(c)
                W = c["pad"][0] if c["pad"][0] > 0 else max(c["term_size"][0] + c["pad"][0], 1)
                ho["pad_height_vs_rendered"]["smaller" if H < h else "equal" if H == h else "larger"] += 1
                ho["pad_width_vs_rendered"]["smaller" if W < w else "equal" if W == w else "larger"] += 1
                ho["pre_animation_placeholder"] += oanim_pre(c)
                ho["one_line_box"] += max(H, h) == 1
                if max(H, h) == 1 or H > h:
                    distinct.add(core.sig(["oanim", c]))
            elif "exceeds" in r.get("error", "") or "cannot fit" in r.get("error", "") or "SizeError" in r.get("error", ""):
                ho["draw_rejected_by_size_validation"] += 1   # generator overshoot (the rendered width is only known after the run): C06's business
                continue
        elif anim:
            ha = hist["animations"]
            ha["cases"] += 1
            ha["frames_drawn"] += len(c["frames"]) * c["loops"]
            ha["flavour"][c["flavour"]] = ha["flavour"].get(c["flavour"], 0) + 1
            ha["fill"][c["fill"]] = ha["fill"].get(c["fill"], 0) + 1
            t, b = anim_margins(c)
            if t != b:
                ha["top_margin_differs_from_bottom"] += 1
                distinct.add(core.sig(["anim", c]))
        else:
            hc = hist["content"]
            hc["cases"] += 1
            fl = c["render"].get("flavour", "?")
            hc["flavour"][fl] = hc["flavour"].get(fl, 0) + 1
            hc["via"][c.get("via", "pad")] = hc["via"].get(c.get("via", "pad"), 0) + 1
            sp = specials_of(c["render"]["lines"])
            for ch in sp:
                hc["characters"][ch] = hc["characters"].get(ch, 0) + 1
            d = r.get("dims") or [0] * 6
            if d[0] or d[2]:
                hc["horizontally_padded"] += 1
                if sp:
                    distinct.add(core.sig(["content", c]))
        code = xcodes.get(i, 0)
        if code == 0:
            continue
        descr = describe_oanim if oanim else describe_anim if anim else describe_content
        if code == -1:
            xfailures.append({"signature": core.sig(["raise", c]), "what": f"raised: {r.get('error')} - {descr(c)}", "replay": {"case": c}})
            continue
        if code == 1:
            mismatches.append({"case": c, "code": code, "explain": extra_explain(c, r) if len(mismatches) < 3 else ""})
            continue
        if len(xfailures) >= 8:
            continue
        small, res_small = c, r
        if xshrunk < 2 and not ctx.replay:
            xshrunk += 1
            small = shrink_extra(c)
            if small is not c:
                res_small = core.run_impl_parallel("impl_c05.py", [small])[0]
        if code == -2 and "lex_error" not in res_small:
            try:
                (oanim_term if oanim else anim_term if anim else content_term)(small, res_small)
            except lexer.LexError as e:
                res_small["lex_error"] = str(e)
        why = res_small.get("lex_error") if code == -2 else extra_explain(small, res_small)
        if oanim:
            what = ("an animated draw() of an image does NOT keep every frame inside the padded box max(render, minimum) placed by the "
                    "alignment where the first frame was drawn, ending with the LAST frame at the offset (top, left) and blanks elsewhere "
                    f"((margins, first token difference from the model stream, per start row the clauses [margins>=0; box = max(render, minimum); "
                    f"no event of any frame outside the box; line below untouched; cursor below the box; state clean; box content]) = {why})"
                    if code != -2 else f"the output of an animated draw() of an image cannot be lexed: {why}")
        elif anim:
            what = ("after the whole output of an animated draw() has been executed on the terminal, the screen is NOT the padded box "
                    "holding the LAST frame at the offset (top, left) dictated by the alignment with the fill everywhere else "
                    f"((margins, first token difference from the model stream, per start row the clauses [margins>=0; nothing outside the box; "
                    f"line below untouched; cursor below the box; state clean; box content]) = {why})" if code != -2 else
                    f"the output of an animated draw() cannot be lexed: {why}")
        else:
            what = ("the padded output of a text render does not contain the render unchanged inside exactly the padded size "
                    f"((margins, inner render is h lines, code-point clauses [margins>=0; lines split at LF only = top+h+bottom; = get_padded_size; "
                    f"every line of the render unchanged on its own line], lines of the output, token-level judgement) = {why})" if code != -2 else
                    f"the padded output of a text render cannot be lexed: {why}")
        xfailures.append({"signature": core.sig(["oanim-oracle" if oanim else "content-oracle" if not anim else "anim-oracle", small]),
                          "what": f"{what} - {descr(small)}",
                          "replay": {"case": small, "output": res_small.get("out", "")[:1500]}})
    hh = hist["histories"]
    shrunk = 0
    for i, (c, r) in enumerate(zip(histories, himpl)):
        hh[c.get("flavour", "calls")] = hh.get(c.get("flavour", "calls"), 0) + 1
        hh["outputs"] += hist_outputs(c)
        if c.get("frames"):
            cached = c["cache"] if isinstance(c["cache"], bool) else c["frames"] <= c["cache"]
            hh["cache_on" if cached else "cache_off"] += 1
        for st in c["steps"]:
            if st["op"] == "call":
                hh["via"][st["via"]] = hh["via"].get(st["via"], 0) + 1
        rv, rp = hist_features(c)
        hh["revisits_after_same_box_padding_change"] += rv
        hh["relative_call_repeated_after_resize"] += rp
        if rv or rp:
            distinct.add(core.sig(["history", c]))
        code = hcodes.get(i, 0)
        if code == 0:
            continue
        if code == -1:
            hfailures.append({"signature": core.sig(["history-raise", c]),
                             "what": f"a step of the history raised / an output is missing: {r.get('error', len(r.get('outs', [])))} — "
                                     f"{describe_history(c)}", "replay": {"case": c}})
        elif code == -2:
            small = c
            if shrunk < 2 and not ctx.replay:
                shrunk += 1
                small = shrink_history(c) or c
            res_small = r if small is c else eval_histories([small], tag="c05hx")[0][0]
            hfailures.append({"signature": core.sig(["history-lex", small]),
                              "what": f"{res_small.get('lex_error', r.get('lex_error', 'unlexable output'))} — {describe_history(small)}",
                              "replay": {"case": small, "outputs": [o["out"][:400] for o in res_small.get("outs", [])][:12]}})
        elif code & 2:
            small = c
            if shrunk < 2 and not ctx.replay:
                shrunk += 1
                small = shrink_history(c) or c
            res_small = r if small is c else eval_histories([small], tag="c05hx")[0][0]
            try:
                why = hist_explain(small, res_small) if "outs" in res_small else ""
            except lexer.LexError as e:
                why = f"the shrunk history's output cannot be lexed: {e}"
            hfailures.append({
                "signature": core.sig(["history-oracle", small]),
                "what": "an output of the history is NOT pad(padding in force, bare frame) for the terminal size in force "
                        f"((well-formed, outputs expected, first output failing the oracle with its (margins, size, frame), "
                        f"first difference from the model) = {why}) — {describe_history(small)}",
                "replay": {"case": small, "outputs": [o["out"][:400] for o in res_small.get("outs", [])][:12]}})
        else:
            mismatches.append({"case": c, "code": code, "explain": hist_explain(c, r) if len(mismatches) < 3 else ""})
    for i, (c, r) in enumerate(zip(cases, impl)):
        if c.get("kind") == "exact-invalid":
            want = int(any(d < 0 for d in c["dims"]))
            hist["kind"]["exact-validation"] = hist["kind"].get("exact-validation", 0) + 1
            if r.get("raised") != want:
                failures.append({"signature": core.sig(["exact-validation", c["dims"]]),
                                 "what": f"ExactPadding{tuple(c['dims'])}: raised={r.get('raised')}, documented={want}",
                                 "replay": {"case": c}})
            continue
        p = c["padding"]
        hist["kind"][p["kind"]] = hist["kind"].get(p["kind"], 0) + 1
        hist["fill"][c["fill"]] = hist["fill"].get(c["fill"], 0) + 1
        hist["style"][c["render"]["style"]] = hist["style"].get(c["render"]["style"], 0) + 1
        hist["via"][c.get("via", "pad")] = hist["via"].get(c.get("via", "pad"), 0) + 1
        if "error" in r:
            failures.append({"signature": core.sig(["raise", p, c["fill"], c["render"]["cells"]]),
                             "what": f"padding raised {r['error']} — {describe(c)}", "replay": {"case": c}})
            continue
        if r.get("relative_raises") is not None:
            hist["relative"] += 1
            if r["relative_raises"] != [1, 1, 1]:
                failures.append({"signature": core.sig(["relative-ops", p]),
                                 "what": f"operations on a relative AlignedPadding did not all raise: {r['relative_raises']} — {describe(c)}",
                                 "replay": {"case": c}})
        if r.get("exact_same") is False:
            failures.append({"signature": core.sig(["to_exact", p, c["render"]["cells"]]),
                             "what": f"to_exact() is not equivalent to the padding — {describe(c)}", "replay": {"case": c}})
        if r.get("frame_size") and r.get("dims") and r["frame_size"] != r["dims"][4:] and r["out"] != r["inner"]:
            failures.append({"signature": core.sig(["frame-size", p]), "what": f"padded frame size {r['frame_size']} != get_padded_size {r['dims'][4:]} — {describe(c)}",
                             "replay": {"case": c}})
        try:
            terms.append(case_term(c, r))
            owner.append(i)
        except lexer.LexError as e:
            kind = ("a FRAGMENT of the fill (not a whole fill) is left in the padded output" if isinstance(e, FillFragment)
                    else "unlexable padded output (a cut / foreign control sequence: with a fill of several code points, a piece of the fill)"
                    if c["fill"] in MULTI else "unlexable padded output")
            lexfailures.append({"signature": core.sig(["lex", p, c["fill"], c["render"]["cells"], c.get("via", "pad"), str(e)[:60]]),
                             "what": f"{kind}: {e} — {describe(c)}",
                             "replay": {"case": c, "output": r.get("out", "")[:1500]}})
            continue
        if r.get("dims"):
            d = r["dims"]
            if c["fill"] in MULTI:
                hist["multi_code_point_fill"]["h_padded" if (d[0] or d[2]) else "v_only" if (d[1] or d[3]) else "unpadded"] += 1
            hist["padded_h"] += bool(d[0] or d[2])
            hist["padded_v"] += bool(d[1] or d[3])
            if (d[0] or d[2]) and (d[1] or d[3]) and c["render"]["cells"][1] >= 2:
                distinct.add(core.sig([p, c["fill"], c["render"]["cells"], c["render"]["style"], c["term_size"]]))
        elif p["kind"] == "old" and c["render"]["cells"][1] >= 2 and r["out"] != r["inner"]:
            distinct.add(core.sig([p, c["render"]["cells"], c["render"]["style"], c["term_size"]]))
    if terms:
        bad, errs = core.coq_shards("c05", HEADER, terms, "gcase", "gbad cases", shard=100)
        errors += errs
        for idx, code in bad:
            i = owner[idx]
            c, r = cases[i], impl[i]
            if code & 2:
                why = explain(c, r) if len(failures) < 4 else ""
                p = c["padding"]
                failures.append({
                    "signature": core.sig(["oracle", p["kind"], c["fill"], c["render"]["style"],
                                           "narrow-pad-width" if p["kind"] == "old" and 0 < p.get("W", 1) < c["render"]["cells"][0] and r["out"] != r["inner"] else [p, c["render"]["cells"], c["term_size"]]]),
                    "what": f"padded output violates the padding contract ((dims, first token difference, oracle) = {why}) — {describe(c)}",
                    "replay": {"case": c, "output": r.get("out", "")[:3000]}})
            else:
                mismatches.append({"case": c, "code": code, "explain": explain(c, r) if len(mismatches) < 3 else ""})
    return {
        "corr_name": "Padding.pad / aligned_dims / resolve / old_dims (model) == real Padding classes, Renderable.render gate, old image API",
        "evaluations": len(cases) + len(histories) + len(extra),
        "distinct_nontrivial": len(distinct),
        "rule": "corpus (9 alignments x {aligned absolute, aligned relative with empty fill on a graphics render, old API defaults}, exact, "
                "the narrow-pad-width old-API shape) + random: inner renders of block/kitty/iterm2 (1..6 x 1..5 cells, every method, "
                "mix, terminal identity), paddings around the render size (-2..+3 per axis, zero, terminal-relative), 9 alignments, "
                "fills from the universe of ONE-COLUMN strings (' ', '*', '', and SEVERAL code points: letter+combining accent, "
                "letter+two combining marks, glyph+ZERO WIDTH JOINER, glyph+VARIATION SELECTOR-15, reverse-video blank (SGR 7/27), "
                "blank in a direct-colour background SGR + reset, glyph in a direct-colour foreground SGR + reset; the last two reach "
                "Coq as the token list of the fill string, the others as a placeholder glyph substituted for every WHOLE fill before "
                "lexing, any fragment left being a failure; corpus: each of them x {margins on both sides, one side, vertical only, "
                "Renderable.render(padding=relative), an iterator frame, around a kitty render}); ExactPadding margins 0..3; small terminals so relative dimensions matter; pad() directly and "
                "through Renderable.render; old API through _check_formatting + _format_render with both spellings of the alignments; "
                "plus 40 ExactPadding validation cases. Non-trivial: padded on both axes with a multi-line inner render (old API: "
                "padded, multi-line); distinct by (padding, fill, size, style, terminal). "
                "HISTORIES (one process each): corpus (a 2-frame RenderIterator looped / sought back after set_padding to another "
                "padding of the same padded size - other alignment, other fill, empty fill, exact margins with the same sums, the box "
                "spelt relative - with caching on, off and by count; relative set_padding before/after a resize; the same format "
                "specifier / draw() padding / _check_formatting+_format_render / Renderable.render(padding=) on the same class and "
                "instance before and after resizes) + random histories of resize | set_padding (70% same-box variants) | "
                "set_render_size | seek | next, and of resize | call with a padding from a small pool through format / draw / fmt / "
                "render; EVERY output judged by the oracle against the padding and terminal size in force (model/PadHist.v "
                "spec_descrs). Non-trivial history: a frame revisited after a same-box padding change, or a relative per-call "
                "padding repeated after a resize. "
                "CONTENT (round 6): text renders (1..6 x 1..4) whose lines hold glyphs / a direct-colour SGR in the middle of a line / "
                "characters that occupy no column and are not line separators of the render contract (U+2028, U+2029, U+001C..U+001E as "
                "TNul; and, judged at code-point level only, VT, FF, U+0085, combining marks, East-Asian wide characters), at the start, "
                "in the middle and at the end of lines; padded by pad(), Renderable.render(padding=) and as a RenderIterator frame with "
                "every fill; corpus: each of the eight str.splitlines-only separators x {margins on all sides, right only via render(), "
                "aligned via an iterator, empty fill}. Non-trivial: horizontally padded with at least one such character. "
                "ANIMATIONS (round 6): Renderable.draw() of 2-3 frame text renderables (1..4 x 1..3, loops 1-2, cache on/off) on a pty with "
                "paddings whose top margin differs from the bottom margin (VAlign TOP / BOTTOM with slack, MIDDLE with odd slack, "
                "ExactPadding top != bottom, relative boxes, empty fill); the whole stream executed on the terminal model from two start "
                "rows, the padding oracle applied to the final screen. Non-trivial: top margin != bottom margin. "
                "IMAGE ANIMATIONS (round 8): BaseImage.draw(animate=True) of 2-3 frame GIFs on a pty for every style-specific animation "
                "path - block; kitty (new, and <= 0.25.0 with clearing by z-index); iterm2 style with the class identity wezterm / iterm2 / "
                "konsole (ITerm2Image._TERM, set per draw) - with mix unset / true / false, method lines / whole, repeat 1-2, cached on/off, "
                "both spellings of the alignments; corpus: every identity x {padded box of exactly ONE line (1-line render with pad_height 1, "
                "narrow and wide), pad_height smaller than / equal to / one more than / larger than the rendered height, terminal-relative}, "
                "pad_width smaller / equal / larger, + mix both ways per identity on a vertically padded box and on a one-line box; the whole "
                "stream executed on the terminal model (CSI 0 A = up ONE line) from two start rows: NO event of any frame outside the box, "
                "final content = last frame at (top, left) + blanks. Non-trivial: one-line box or effective vertical padding.",
        "samples": [describe(c) for c in cases[:2] + cases[40:42] if "render" in c]
                   + [describe_history(c) for c in histories[:1] + histories[22:23] + histories[-2:]]
                   + [describe_content(c) for c in extra if c["kind"] == "content"][-1:]
                   + [describe_anim(c) for c in extra if c["kind"] == "anim"][-1:]
                   + [describe_oanim(c) for c in extra if c["kind"] == "oanim"][-1:],
        "histogram": hist,
        "mismatches": mismatches,
        "failures": xfailures + failures + lexfailures + hfailures,
        "errors": errors,
        "assumptions": ["the inner render satisfies the line-structured render contract (LinesRect; proved for all five render shapes in C01's development)",
                        "histories: _render_ is a function of (frame number, render size) and returns a frame of the requested size; "
                        "the loop budget of the iterator is not exhausted; seek() with Seek.START on a definite frame count",
                        "the fill occupies one column: OneCell (model/PadGen.v) - decided by styled_fillb for the fills whose tokens the lexer has; "
                        "for the combining / joiner / variation-selector / SGR-7 fills it is the terminal's (Unicode, ECMA-48) rule that the "
                        "whole string shows as one cell, represented by a placeholder glyph", "terminal conventions of lib/Term.v",
                        "content: U+2028, U+2029, U+001C..U+001E occupy no column and are ignored by the terminal (token TNul); "
                        "VT, FF, U+0085, combining marks and wide characters have no token in the terminal model: renders holding them are judged "
                        "by the code-point level oracle only (line count, lines unchanged, get_padded_size), not on the screen",
                        "animations: the frames of the instrumented renderable meet the render contract (lines of w one-column glyphs)",
                        "image animations: the styles' frame renders meet the render contract (LinesRect / Downward: proved for the five render "
                        "shapes in C01's / C06's development); a cursor movement with parameter 0 moves by one (lib/Term.v pos1, ECMA-48)"],
        "trusted": ["harness/lexer.py", "harness/props/c05.py prelex (whole fill -> placeholder; fail-closed on fragments)",
                    "harness/props/c05.py content_lex (terminal-ignored zero-width character -> NUL)"],
    }
