#!/bin/bash
# seedtest.sh <PID> <patch.diff> [tier] [extra PIDs to run as well...]
# Runs ./check <PID> against a scratch worktree of /repo with the patch applied, from a
# scratch COPY of /verif (so that /verif/coq/gen and the build of concurrent work are not
# disturbed and /repo itself is never modified).  Prints the check's summary lines.
# Exit 0 = the check reported a VIOLATION (the seeded change is caught), 1 = missed.
set -u
PID=$1; PATCH=$(readlink -f "$2"); TIER=${3:-quick}
TAG=$(basename "$(dirname "$PATCH")")_$$
V=/tmp/vseed/verif_$TAG; R=/tmp/vseed/repo_$TAG
mkdir -p /tmp/vseed
rsync -a --delete --exclude .git --exclude replays --exclude 'coq/cases' /verif/ "$V"/
mkdir -p "$V/replays"
git -C /repo worktree add -q --detach "$R" HEAD || exit 2
if ! git -C "$R" apply "$PATCH"; then echo "patch does not apply"; git -C /repo worktree remove --force "$R"; rm -rf "$V"; exit 2; fi
caught=1
for P in $PID "${@:4}"; do
  out=$(cd "$V" && VERIF_REPO="$R" timeout 3000 ./check "$P" --tier "$TIER" 2>&1)
  echo "$out" | tail -12
  if echo "$out" | grep -q "^VIOLATION property=$P"; then
    caught=0
    f=$(echo "$out" | grep "^VIOLATION" | head -1 | sed 's/.*replay=\([^ ]*\).*/\1/')
    [ -f "$f" ] && { echo "--- replay $f"; head -c 1500 "$f"; echo; }
  fi
done
git -C /repo worktree remove --force "$R"
rm -rf "$V"
exit $caught
