#!/venv/bin/python
"""tx_memo.py — fail-closed translator: the ORDER OF MICRO-STEPS of the two cache decorators of
`utils.py` (`cached`, `terminal_size_cached`: wrapper and invalidator), of the four library toggles
that invalidate caches (`term_image.enable_queries / disable_queries / enable_win_size_swap /
disable_win_size_swap`), and the list of functions decorated with `@cached` in the package
-> /verif/coq/gen/MemoSrc.v, regenerated on every check run.

The statements of each function are walked in Python's evaluation order (arguments before the call,
the items of a `with` before its body, the body of a `try` before its handler — the MISS path of the
memo) and every recognised atom becomes one label of `model/MemoShape.v`:

    with lock: ...                         LAcquire ... LRelease
    cache[arguments]                       LLookup
    func(*args, **kwargs)                  LBody
    cache.setdefault(arguments, X)         (steps of X) LStore
    cache.clear()                          LClear
    get_terminal_size()                    LGetSize
    not cache or ts != cache[1]            LTestSlot
    cache = (X, ts)                        (steps of X) LStoreSlot
    cache = None                           LClearSlot
    return cache[0]                        LReturnSlot
    if [not] utils.<flag>:                 TTest flag expected-value
    utils.<flag> = True/False              TWrite flag value
    getattr(utils.<f>, "_invalidate_cache")()    TInval f
    with utils._cell_size_lock: utils._cell_size_cache[:] = (0,) * 4     TCellAcquire TCellClear TCellRelease

Anything else in these functions is refused.  `proofs/MemoSrcTie.v` proves that the micro-step
models of C15 (`CachesInval.qstep`, `Caches.wstep`) perform exactly these steps in exactly this order
(the model's own single-thread label trace, computed from its step function, equals the translated
list), that the invalidator runs under the decorator's lock, that the flag write of every toggle
precedes its invalidations, and that every `@cached` function of the package is invalidated by
`enable_queries()`.
"""
from __future__ import annotations

import ast
import sys
from pathlib import Path

sys.path.insert(0, str(Path(__file__).resolve().parent))
from tx_pure import REPO, Refuse, need, parse  # noqa: E402

VERIF = Path(__file__).resolve().parent.parent.parent
OUT = VERIF / "coq" / "gen" / "MemoSrc.v"


def nodoc(body):
    return [s for s in body if not (isinstance(s, ast.Expr) and isinstance(s.value, ast.Constant)
                                    and isinstance(s.value.value, str))]


def top_func(tree, name):
    fs = [n for n in tree.body if isinstance(n, ast.FunctionDef) and n.name == name]
    need(len(fs) == 1, f"{name}: expected exactly one top-level definition, found {len(fs)}")
    return fs[0]


def inner_func(fn, name):
    fs = [n for n in fn.body if isinstance(n, ast.FunctionDef) and n.name == name]
    need(len(fs) == 1, f"{fn.name}: expected exactly one nested function {name}, found {len(fs)}")
    return fs[0]


# ------------------------------------------------------------------ decorators
def expr_steps(e, where):
    u = ast.unparse(e)
    if isinstance(e, (ast.Name, ast.Constant)):
        return []
    if u == "cache[arguments]":
        return ["LLookup"]
    if u == "func(*args, **kwargs)":
        return ["LBody"]
    if u == "get_terminal_size()":
        return ["LGetSize"]
    if u == "cache.clear()":
        return ["LClear"]
    if u == "not cache or ts != cache[1]":
        return ["LTestSlot"]
    if u == "cache[0]":
        return ["LReturnSlot"]
    if isinstance(e, ast.Call) and ast.unparse(e.func) == "cache.setdefault" and not e.keywords and len(e.args) == 2 \
            and ast.unparse(e.args[0]) == "arguments":
        return expr_steps(e.args[1], where) + ["LStore"]
    if isinstance(e, ast.Tuple):
        out = []
        for x in e.elts:
            out += expr_steps(x, where)
        return out
    raise Refuse(f"{where}: expression outside the subset: {u[:80]}")


def stmt_steps(stmts, where):
    out = []
    for s in stmts:
        u = ast.unparse(s)
        if isinstance(s, ast.Nonlocal):
            need(s.names == ["cache"], f"{where}: nonlocal {s.names}")
        elif u == "arguments = (args, tuple(kwargs.items()))":
            pass  # the key: positional and keyword arguments, in call order
        elif isinstance(s, ast.With):
            need([ast.unparse(i.context_expr) for i in s.items] == ["lock"] and s.items[0].optional_vars is None,
                 f"{where}: with-items changed: {u.splitlines()[0]}")
            out += ["LAcquire"] + stmt_steps(s.body, where) + ["LRelease"]
        elif isinstance(s, ast.Try):
            need(not s.finalbody and not s.orelse and len(s.handlers) == 1
                 and s.handlers[0].type is not None and ast.unparse(s.handlers[0].type) == "KeyError"
                 and s.handlers[0].name is None, f"{where}: try statement changed")
            out += stmt_steps(s.body, where) + stmt_steps(s.handlers[0].body, where)
        elif isinstance(s, ast.If):
            need(not s.orelse, f"{where}: if with else")
            out += expr_steps(s.test, where) + stmt_steps(s.body, where)
        elif isinstance(s, ast.Return):
            need(s.value is not None, f"{where}: bare return")
            out += expr_steps(s.value, where)
        elif isinstance(s, ast.Expr):
            out += expr_steps(s.value, where)
        elif isinstance(s, ast.Assign) and len(s.targets) == 1 and isinstance(s.targets[0], ast.Name):
            t = s.targets[0].id
            if t == "ts":
                out += expr_steps(s.value, where)
            elif t == "cache" and u == "cache = None":
                out += ["LClearSlot"]
            elif t == "cache" and isinstance(s.value, ast.Tuple) and len(s.value.elts) == 2 \
                    and ast.unparse(s.value.elts[1]) == "ts":
                out += expr_steps(s.value.elts[0], where) + ["LStoreSlot"]
            else:
                raise Refuse(f"{where}: assignment outside the subset: {u[:80]}")
        else:
            raise Refuse(f"{where}: statement outside the subset: {u.splitlines()[0][:80]}")
    return out


def decorator_state(fn, where, want):
    """the decorator's own statements (not the nested functions): what `cache` / `lock` are bound to"""
    got = {}
    for s in nodoc(fn.body):
        if isinstance(s, ast.FunctionDef) or isinstance(s, ast.Return):
            continue
        u = ast.unparse(s)
        if isinstance(s, ast.AnnAssign) and isinstance(s.target, ast.Name) and s.value is not None:
            got[s.target.id] = ast.unparse(s.value)
        elif isinstance(s, ast.Assign) and len(s.targets) == 1 and isinstance(s.targets[0], ast.Name):
            got[s.targets[0].id] = ast.unparse(s.value)
        elif u.startswith("setattr("):
            got.setdefault("setattr", []).append(u)
        else:
            raise Refuse(f"{where}: statement outside the subset: {u[:80]}")
    for k, v in want.items():
        need(got.get(k) == v, f"{where}: `{k}` is bound to {got.get(k)!r}, expected {v!r} (one per decorated function)")
    return got


# ------------------------------------------------------------------ toggles
def toggle_steps(stmts, where):
    out = []
    for s in stmts:
        u = ast.unparse(s)
        if isinstance(s, ast.If):
            need(not s.orelse, f"{where}: if with else")
            t = s.test
            neg = isinstance(t, ast.UnaryOp) and isinstance(t.op, ast.Not)
            a = t.operand if neg else t
            need(isinstance(a, ast.Attribute) and ast.unparse(a.value) == "utils", f"{where}: test changed: {ast.unparse(t)}")
            out += [f'TTest "{a.attr}" {"false" if neg else "true"}'] + toggle_steps(s.body, where)
        elif isinstance(s, ast.Assign) and len(s.targets) == 1 and isinstance(s.targets[0], ast.Attribute) \
                and ast.unparse(s.targets[0].value) == "utils" and isinstance(s.value, ast.Constant) \
                and isinstance(s.value.value, bool):
            out += [f'TWrite "{s.targets[0].attr}" {"true" if s.value.value else "false"}']
        elif isinstance(s, ast.Expr) and isinstance(s.value, ast.Call) and not s.value.args and not s.value.keywords \
                and isinstance(s.value.func, ast.Call) and ast.unparse(s.value.func.func) == "getattr" \
                and len(s.value.func.args) == 2 and isinstance(s.value.func.args[0], ast.Attribute) \
                and ast.unparse(s.value.func.args[0].value) == "utils" \
                and ast.unparse(s.value.func.args[1]) == "'_invalidate_cache'":
            out += [f'TInval "{s.value.func.args[0].attr}"']
        elif isinstance(s, ast.Expr) and isinstance(s.value, ast.Call) and not s.value.args and not s.value.keywords \
                and isinstance(s.value.func, ast.Attribute) and s.value.func.attr == "_invalidate_cache" \
                and isinstance(s.value.func.value, ast.Attribute) and ast.unparse(s.value.func.value.value) == "utils":
            out += [f'TInval "{s.value.func.value.attr}"']
        elif isinstance(s, ast.With):
            need([ast.unparse(i.context_expr) for i in s.items] == ["utils._cell_size_lock"],
                 f"{where}: with-items changed: {u.splitlines()[0]}")
            need([ast.unparse(x) for x in s.body] == ["utils._cell_size_cache[:] = (0,) * 4"],
                 f"{where}: body of the cell-size lock region changed")
            out += ["TCellAcquire", "TCellClear", "TCellRelease"]
        else:
            raise Refuse(f"{where}: statement outside the subset: {u.splitlines()[0][:80]}")
    return out


def cached_functions():
    """every function of the package decorated with `cached` (by any spelling), as "module:qualname\""""
    found = []
    root = REPO / "src" / "term_image"
    for p in sorted(root.rglob("*.py")):
        tree = ast.parse(p.read_text(), filename=str(p))
        rel = str(p.relative_to(root))[:-3].replace("/", ".")

        def walk(node, qual):
            for n in getattr(node, "body", []):
                if isinstance(n, (ast.FunctionDef, ast.AsyncFunctionDef)):
                    for d in n.decorator_list:
                        du = ast.unparse(d)
                        if du.split(".")[-1].split("(")[0] in ("cached", "lru_cache", "cache", "cached_property"):
                            found.append((rel, ".".join(qual + [n.name]), du))
                    walk(n, qual + [n.name])
                elif isinstance(n, ast.ClassDef):
                    walk(n, qual + [n.name])
                elif isinstance(n, (ast.If, ast.Try, ast.With)):
                    walk(n, qual)
        walk(tree, [])
    return found


def coq_list(items, indent="  "):
    if not items:
        return "[]"
    return "[" + ("; ").join(items) + "]"


def main():
    utils = parse("src/term_image/utils.py")
    init = parse("src/term_image/__init__.py")

    c = top_func(utils, "cached")
    decorator_state(c, "cached", {"cache": "{}", "lock": "RLock()"})
    c_call = stmt_steps(nodoc(inner_func(c, "cached_wrapper").body), "cached_wrapper")
    c_inv = stmt_steps(nodoc(inner_func(c, "invalidate").body), "cached.invalidate")

    t = top_func(utils, "terminal_size_cached")
    decorator_state(t, "terminal_size_cached", {"cache": "None", "lock": "RLock()"})
    t_call = stmt_steps(nodoc(inner_func(t, "terminal_size_cached_wrapper").body), "terminal_size_cached_wrapper")
    t_inv = stmt_steps(nodoc(inner_func(t, "invalidate").body), "terminal_size_cached.invalidate")

    tog = {}
    for name in ("enable_queries", "disable_queries", "enable_win_size_swap", "disable_win_size_swap"):
        tog[name] = toggle_steps(nodoc(top_func(init, name).body), name)

    memo = cached_functions()
    for rel, q, du in memo:
        need(du == "cached" and rel == "utils" and "." not in q,
             f"{rel}:{q} is memoised with `{du}`: only module-level functions of utils.py under `@cached` are modelled")
    # other writers of the flags / other callers of the invalidators anywhere in the package
    others = []
    root = REPO / "src" / "term_image"
    for p in sorted(root.rglob("*.py")):
        tree = ast.parse(p.read_text(), filename=str(p))
        for n in ast.walk(tree):
            if isinstance(n, (ast.Assign, ast.AugAssign)):
                for tg in (n.targets if isinstance(n, ast.Assign) else [n.target]):
                    if isinstance(tg, ast.Attribute) and tg.attr in ("_queries_enabled", "_swap_win_size") \
                            and p.name != "__init__.py":
                        others.append(f"{p.name}:{n.lineno} writes {tg.attr}")
                    if isinstance(tg, ast.Name) and tg.id in ("_queries_enabled", "_swap_win_size") \
                            and not (p.name == "utils.py" and isinstance(n, ast.Assign) and n in tree.body):
                        others.append(f"{p.name}:{n.lineno} writes {tg.id}")
            if isinstance(n, ast.Global) and set(n.names) & {"_queries_enabled", "_swap_win_size"}:
                others.append(f"{p.name}:{n.lineno} declares {n.names} global")
    need(not others, f"other writers of the cache conditions: {others[:3]}")

    lines = ["(** GENERATED by harness/tx/tx_memo.py from the working tree of the repository — do not edit.",
             "    Regenerated (and rewritten only if changed) on every check run. *)",
             "From Coq Require Import List String.", "Import ListNotations.",
             "From TI Require Import model.MemoShape.", "Open Scope string_scope.", "",
             "(** utils.py: cached.cached_wrapper, miss path, in evaluation order *)",
             f"Definition src_cached_call : list mlabel := {coq_list(c_call)}.",
             "(** utils.py: cached.invalidate *)",
             f"Definition src_cached_inval : list mlabel := {coq_list(c_inv)}.",
             "(** utils.py: terminal_size_cached.terminal_size_cached_wrapper, miss path *)",
             f"Definition src_tsc_call : list mlabel := {coq_list(t_call)}.",
             "(** utils.py: terminal_size_cached.invalidate *)",
             f"Definition src_tsc_inval : list mlabel := {coq_list(t_inv)}."]
    for name, steps in tog.items():
        lines += [f"(** term_image/__init__.py: {name} *)",
                  f"Definition src_{name} : list tlabel := {coq_list(steps)}."]
    lines += ["(** every function of the package decorated with `@cached` *)",
              "Definition src_cached_functions : list string := " + coq_list([f'"{q}"' for _, q, _ in memo]) + ".", ""]
    text = "\n".join(lines)
    if not OUT.exists() or OUT.read_text() != text:
        OUT.parent.mkdir(parents=True, exist_ok=True)
        OUT.write_text(text)


if __name__ == "__main__":
    try:
        main()
    except Refuse as e:
        print(f"tx_memo: REFUSED: {e}")
        OUT.write_text(f"(* tx_memo refused the current source: {str(e).replace('*)', '* )').replace('(*', '( *')} *)\n"
                       "Definition refused : True := I I.\n")
        sys.exit(1)
