#!/venv/bin/python
"""tx_attrfd.py -- fail-closed translator: WHICH DESCRIPTOR each termios.tcgetattr / termios.tcsetattr
call site of the attribute-changing operations addresses -> /verif/coq/gen/AttrFd.v, regenerated on
every check run (C13, several terminals: coq/model/C13Multi.v).

The effect skeletons of harness/tx/tx_skel.py (read-only here) record `x = tcgetattr(..)` as
`Snap RTermios x` and `tcsetattr(.., .., x)` as `Put RTermios x` and drop the first argument.  This
translator extracts it: for each root (read_tty, query_terminal, write_tty, Renderable.draw) and each
function inlined into it that holds a termios snapshot variable (numbering of tx_skel's `snaps`), every

    X = termios.tcgetattr(E)            ->  (false, index of X, id of E)
    termios.tcsetattr(E, when, X)       ->  (true,  index of X, id of E)

Refused (exit 2, a stub is written so that nothing stale is used):
  * E is not a plain name; a local name assigned more than once (or a parameter re-assigned), or
    declared global/nonlocal and assigned in the function;
  * the save / set / restore call sites of ONE root use different descriptor expressions
    (e.g. save on stdout's descriptor, set on stdin's);
  * a tcgetattr / tcsetattr call of another form, or on a variable tx_skel does not number.
Identity of expressions: a local name is `<function>:<name>`; a name the function never assigns is
the module global `<name>` (the same in every function of that module).
"""
from __future__ import annotations

import ast
import re
import sys
from pathlib import Path

sys.path.insert(0, str(Path(__file__).resolve().parent))
sys.path.insert(0, str(Path(__file__).resolve().parent.parent))
import core  # noqa: E402
import tx_skel  # noqa: E402  (read-only: variable numbering of the skeletons)

OUT = core.COQ / "gen" / "AttrFd.v"
ROOTS = ["write_tty", "read_tty", "query_terminal", "Renderable_draw"]
FILES = ["src/term_image/utils.py", "src/term_image/renderable/_renderable.py"]


class Refuse(Exception):
    pass


def need(cond, msg):
    if not cond:
        raise Refuse(msg)


def find_function(key):
    """`name` (module level) or `Class.method` in one of FILES -> (rel, FunctionDef)"""
    found = []
    for rel in FILES:
        p = Path(core.REPO) / rel
        need(p.is_file(), f"{rel}: file not found")
        tree = ast.parse(p.read_text(), filename=str(p))
        parts = key.split(".")
        scope = tree.body
        node = None
        for i, part in enumerate(parts):
            kinds = (ast.FunctionDef,) if i == len(parts) - 1 else (ast.ClassDef, ast.FunctionDef)
            cands = [n for n in scope if isinstance(n, kinds) and n.name == part]
            if len(cands) != 1:
                node = None
                break
            node = cands[0]
            scope = node.body
        if node is not None:
            found.append((rel, node))
    need(len(found) == 1, f"function `{key}`: expected exactly one definition, found {len(found)}")
    return found[0]


def expr_identity(fkey, rel, fn, e, where):
    need(isinstance(e, ast.Name), f"{where}: descriptor argument `{ast.unparse(e)}` is not a plain name")
    name = e.id
    stores = [n for n in ast.walk(fn) if isinstance(n, ast.Name) and n.id == name and not isinstance(n.ctx, ast.Load)]
    params = [a.arg for a in fn.args.posonlyargs + fn.args.args + fn.args.kwonlyargs]
    declared = any(isinstance(n, (ast.Global, ast.Nonlocal)) and name in n.names for n in ast.walk(fn))
    if not stores and name not in params:
        return name, f"`{name}` (module global of {rel}, not assigned by the function)"
    need(not declared, f"{where}: descriptor `{name}` is declared global/nonlocal and assigned in {fkey}")
    need(len(stores) + (name in params) == 1,
         f"{where}: descriptor `{name}` is assigned {len(stores) + (name in params)} times in {fkey}")
    if name in params:
        return f"{fkey}:{name}", f"`{name}` (parameter of {fkey})"
    asg = [n for n in ast.walk(fn) if isinstance(n, ast.Assign) and len(n.targets) == 1 and n.targets[0] is stores[0]]
    need(len(asg) == 1, f"{where}: descriptor `{name}` is not assigned by a plain `name = value` statement")
    return f"{fkey}:{name}", f"`{name}` (local of {fkey}, assigned once: `{ast.unparse(asg[0].value)[:80]}`)"


def sites_of(fkey):
    """[(is_set, variable name, identity, description, line, text)] of one function"""
    rel, fn = find_function(fkey)
    out = []
    getattr_calls = set()
    for n in ast.walk(fn):
        if isinstance(n, ast.Assign) and isinstance(n.value, ast.Call) and ast.unparse(n.value.func) == "termios.tcgetattr":
            where = f"{rel}:{n.lineno}"
            need(len(n.targets) == 1 and isinstance(n.targets[0], ast.Name) and len(n.value.args) == 1 and not n.value.keywords,
                 f"{where}: tcgetattr() outside the form `X = termios.tcgetattr(E)`")
            ident, desc = expr_identity(fkey, rel, fn, n.value.args[0], where)
            out.append((False, n.targets[0].id, ident, desc, n.lineno, ast.unparse(n)))
            getattr_calls.add(n.value)
    for n in ast.walk(fn):
        if not isinstance(n, ast.Call):
            continue
        f = ast.unparse(n.func)
        where = f"{rel}:{n.lineno}"
        if f == "termios.tcgetattr":
            need(n in getattr_calls, f"{where}: tcgetattr() outside the form `X = termios.tcgetattr(E)`")
        elif f == "termios.tcsetattr":
            need(len(n.args) == 3 and not n.keywords and isinstance(n.args[2], ast.Name),
                 f"{where}: tcsetattr() outside the form `termios.tcsetattr(E, when, X)`")
            ident, desc = expr_identity(fkey, rel, fn, n.args[0], where)
            out.append((True, n.args[2].id, ident, desc, n.lineno, ast.unparse(n)))
        elif f.endswith("tcgetattr") or f.endswith("tcsetattr"):
            raise Refuse(f"{where}: `{f}` (only termios.tcgetattr / termios.tcsetattr are understood)")
    out.sort(key=lambda s: s[4])
    return rel, out


def build():
    try:
        _, meta = tx_skel.build(core.REPO)
    except tx_skel.Unsupported as e:
        raise Refuse(f"tx_skel refused the source: {e}")
    exprs: dict[str, tuple[int, str]] = {}
    roots = {}
    for root in ROOTS:
        need(root in meta["roots"], f"root {root} is not translated by tx_skel")
        r = meta["roots"][root]
        snaps = r["snaps"]
        # functions of this root that own a snapshot variable (the root itself always)
        owners: dict[str, dict[str, int]] = {r["key"]: {}}
        for q, idx in snaps.items():
            segs = re.split(r"#\d+\.", q)
            owner = segs[-2] if len(segs) > 1 else r["key"]
            need(segs[-1] not in owners.setdefault(owner, {}) or owners[owner][segs[-1]] == idx,
                 f"{root}: function `{owner}` is inlined more than once with snapshot variable `{segs[-1]}`")
            owners[owner][segs[-1]] = idx
        sites = []
        for owner, vars_ in owners.items():
            rel, ss = sites_of(owner)
            for is_set, var, ident, desc, line, text in ss:
                need(var in vars_, f"{rel}:{line}: `{var}` is not a snapshot variable numbered by tx_skel for {root}")
                eid = exprs.setdefault(ident, (len(exprs), desc))[0]
                sites.append((is_set, vars_[var], eid, f"{rel}:{line} {text}"))
        used = sorted({s[2] for s in sites})
        if len(used) > 1:
            names = {i: d for _, (i, d) in exprs.items()}
            raise Refuse(f"{r['key']}: the tcgetattr / tcsetattr call sites address different descriptors: "
                         + "; ".join(f"{s[3]} -> {names[s[2]]}" for s in sites))
        roots[root] = {"sites": sites, "expr": used[0] if used else 0}
    lines = ["(** GENERATED by harness/tx/tx_attrfd.py from the working tree of the library -- do not edit.",
             "    The descriptor argument of every termios.tcgetattr / termios.tcsetattr call site:",
             "    (is tcsetattr, snapshot variable as numbered in gen/Skeletons.v, descriptor expression). *)",
             "From Coq Require Import List Bool.", "Import ListNotations.", ""]
    for ident, (i, desc) in sorted(exprs.items(), key=lambda kv: kv[1][0]):
        lines.append(f"(* descriptor expression {i}: {desc.replace('*)', '* )')} *)")
    lines.append("")
    for root in ROOTS:
        ss = roots[root]["sites"]
        seen, items = set(), []
        for is_set, idx, eid, text in ss:
            if (is_set, idx, eid) in seen:
                continue
            seen.add((is_set, idx, eid))
            items.append(f"({'true' if is_set else 'false'}, {idx}, {eid}) (* {text.replace('*)', '* )')} *)")
        body = ";\n    ".join(items)
        lines.append(f"Definition afd_{root} : list (bool * nat * nat) :=\n  [ {body} ].")
        lines.append(f"Definition afd_expr_{root} : nat := {roots[root]['expr']}.")
        lines.append("")
    return "\n".join(lines), {"exprs": {k: v for k, v in exprs.items()}, "roots": roots}


def main():
    try:
        text, _ = build()
    except Refuse as e:
        print(f"tx_attrfd: source outside the translatable subset: {e}", file=sys.stderr)
        core.write_if_changed(OUT, "(* tx_attrfd.py refused the current source: " + str(e).replace("*)", "* )") + " *)\n"
                              "Definition attrfd_unavailable : False := I.\n")
        sys.exit(2)
    core.write_if_changed(OUT, text)


if __name__ == "__main__":
    main()
