#!/venv/bin/python
"""tx_consts.py — fail-closed translator: constants and key sets of /repo's source ->
/verif/coq/gen/Consts.v.

Run by core.regenerate() (every check run) with cwd=/verif.  Reads the *working tree*
of $VERIF_REPO (default /repo) with the `ast` module only (nothing is imported or
executed).  Every item below is located structurally; if an item cannot be found in
exactly the expected shape the translator prints what is missing and exits non-zero,
which the driver reports as a broken obligation (the theorems over gen/Consts.v are
then not re-established for the current source).

Translated items
  kitty.py   Transmission.get_chunks(self, size: int = <N>)        -> kitty_chunk_size
             @dataclass ControlData: field order + defaults         -> kitty_keys / kitty_key_defaults
             classes a f t o C z (value tables used by the defaults)-> kitty_f_rgb ... kitty_o_zlib
  iterm2.py  the three header f-strings of ITerm2Image._render_image -> iterm2_whole_header,
             iterm2_anim_header, iterm2_lines_header (lists of hparts)
             presence of the ANIM -> WHOLE fall-back statement           -> iterm2_anim_falls_back
"""
from __future__ import annotations

import ast
import os
import sys
from pathlib import Path

VERIF = Path(__file__).resolve().parent.parent.parent
sys.path.insert(0, str(VERIF / "harness"))
REPO = Path(os.environ.get("VERIF_REPO", "/repo"))
OUT = VERIF / "coq" / "gen" / "Consts.v"


class Refuse(Exception):
    pass


def need(cond, msg):
    if not cond:
        raise Refuse(msg)


def parse(rel):
    p = REPO / rel
    need(p.is_file(), f"{rel}: file not found")
    return ast.parse(p.read_text(), filename=str(p))


def find_class(tree, name):
    cs = [n for n in tree.body if isinstance(n, ast.ClassDef) and n.name == name]
    need(len(cs) == 1, f"class {name}: expected exactly one top-level definition, found {len(cs)}")
    return cs[0]


def find_method(cls, name):
    fs = [n for n in cls.body if isinstance(n, ast.FunctionDef) and n.name == name]
    need(len(fs) == 1, f"{cls.name}.{name}: expected exactly one definition, found {len(fs)}")
    return fs[0]


def coq_string(s: str) -> str:
    need(all(32 <= ord(ch) < 127 for ch in s), f"non printable-ASCII text in a translated literal: {s!r}")
    return '"' + s.replace('"', '""') + '"'


# ------------------------------------------------------------------ kitty.py


def const_table(tree, name):
    """class <name>: UPPER = <int|str constant> ...   ->  {UPPER: value}"""
    cls = find_class(tree, name)
    tab = {}
    for st in cls.body:
        if isinstance(st, ast.Expr) and isinstance(st.value, ast.Constant) and isinstance(st.value.value, str):
            continue  # docstring
        need(isinstance(st, ast.Assign) and len(st.targets) == 1 and isinstance(st.targets[0], ast.Name)
             and isinstance(st.value, (ast.Constant, ast.UnaryOp)),
             f"class {name}: unexpected statement at line {st.lineno}")
        v = ast.literal_eval(st.value)
        need(isinstance(v, (int, str)) and not isinstance(v, bool), f"class {name}.{st.targets[0].id}: not an int/str constant")
        tab[st.targets[0].id] = v
    return tab


def kitty_items():
    tree = parse("src/term_image/image/kitty.py")
    # chunk size: default of the `size` parameter of Transmission.get_chunks
    fn = find_method(find_class(tree, "Transmission"), "get_chunks")
    args = fn.args
    names = [a.arg for a in args.args]
    need(names == ["self", "size"] and len(args.defaults) == 1 and not args.kwonlyargs and not args.vararg,
         f"Transmission.get_chunks: expected signature (self, size=<int>), found {names}")
    d = args.defaults[0]
    need(isinstance(d, ast.Constant) and type(d.value) is int, "Transmission.get_chunks: default of `size` is not an int literal")
    chunk_size = d.value
    # every payload.read(...) in the body must read exactly `size`
    reads = [c for c in ast.walk(fn) if isinstance(c, ast.Call) and isinstance(c.func, ast.Attribute) and c.func.attr == "read"]
    need(len(reads) == 4, f"Transmission.get_chunks: expected 4 read() calls (two-buffer read-ahead), found {len(reads)}")
    for c in reads:
        need(len(c.args) == 1 and isinstance(c.args[0], ast.Name) and c.args[0].id == "size" and not c.keywords,
             f"Transmission.get_chunks: read() at line {c.lineno} does not read `size`")
    # callers must not override the size: get_chunks() / get_chunked() are called without arguments
    for c in ast.walk(tree):
        if isinstance(c, ast.Call) and isinstance(c.func, ast.Attribute) and c.func.attr in ("get_chunks", "get_chunked"):
            need(not c.args and not c.keywords, f"kitty.py:{c.lineno}: {c.func.attr}() called with an explicit chunk size")

    tables = {n: const_table(tree, n) for n in ("a", "f", "t", "o", "C", "z")}
    cd = find_class(tree, "ControlData")
    need(any(isinstance(d, ast.Name) and d.id == "dataclass" for d in cd.decorator_list), "ControlData is not a @dataclass")
    keys, defaults = [], []
    for st in cd.body:
        if isinstance(st, ast.Expr) and isinstance(st.value, ast.Constant):
            continue
        if isinstance(st, ast.FunctionDef):
            need(st.name == "__post_init__", f"ControlData: unexpected method {st.name}")
            continue
        need(isinstance(st, ast.AnnAssign) and isinstance(st.target, ast.Name) and st.value is not None,
             f"ControlData: unexpected statement at line {st.lineno}")
        k = st.target.id
        need(len(k) == 1 and k.isascii() and k.isalpha(), f"ControlData: key {k!r} is not a single letter")
        v = st.value
        if isinstance(v, ast.Constant) and v.value is None:
            dv = None
        elif isinstance(v, ast.Attribute) and isinstance(v.value, ast.Name) and v.value.id in tables:
            need(v.attr in tables[v.value.id], f"ControlData.{k}: {v.value.id}.{v.attr} not found")
            dv = tables[v.value.id][v.attr]
        else:
            raise Refuse(f"ControlData.{k}: default is neither None nor <table>.<NAME>")
        keys.append(k)
        defaults.append(dv)
    need(len(set(keys)) == len(keys) and keys, "ControlData: duplicate or no keys")
    for t_, n_ in (("f", "RGB"), ("f", "RGBA"), ("f", "PNG"), ("o", "ZLIB"), ("a", "TRANS_DISP"), ("t", "DIRECT"), ("C", "STAY")):
        need(n_ in tables[t_], f"class {t_}: {n_} missing")
    return chunk_size, keys, defaults, tables


# ----------------------------------------------------------------- iterm2.py


def header_parts(js: ast.JoinedStr, where):
    """An f-string -> list of parts: ("lit", text) | ("var", python-expression text) |
    ("opt", literal, flag-name)  for  {'<literal>' * <flag>}."""
    parts = []
    for v in js.values:
        if isinstance(v, ast.Constant):
            need(isinstance(v.value, str), f"{where}: non-string constant in f-string")
            parts.append(("lit", v.value))
        elif isinstance(v, ast.FormattedValue):
            need(v.conversion == -1 and v.format_spec is None, f"{where}: conversion/format spec in header f-string")
            e = v.value
            if (isinstance(e, ast.BinOp) and isinstance(e.op, ast.Mult) and isinstance(e.left, ast.Constant)
                    and isinstance(e.left.value, str) and isinstance(e.right, ast.Name)):
                parts.append(("opt", e.left.value, e.right.id))
            elif isinstance(e, ast.Name):
                parts.append(("var", e.id))
            elif (isinstance(e, ast.Call) and isinstance(e.func, ast.Attribute) and e.func.attr == "tell"
                  and isinstance(e.func.value, ast.Name) and e.func.value.id == "compressed_image" and not e.args):
                parts.append(("var", "compressed_image.tell()"))
            else:
                raise Refuse(f"{where}: unsupported expression in header f-string: {ast.unparse(e)}")
        else:
            raise Refuse(f"{where}: unsupported f-string part")
    # merge adjacent literals
    out = []
    for p in parts:
        if p[0] == "lit" and out and out[-1][0] == "lit":
            out[-1] = ("lit", out[-1][1] + p[1])
        else:
            out.append(p)
    return out


def flatten_fstring(e, where):
    """f"..." f"..." (implicit concatenation is already one JoinedStr) or
    "".join((f"...",)) -> the JoinedStr."""
    if isinstance(e, ast.JoinedStr):
        return e
    if (isinstance(e, ast.Call) and isinstance(e.func, ast.Attribute) and e.func.attr == "join"
            and isinstance(e.func.value, ast.Constant) and e.func.value.value == "" and len(e.args) == 1
            and not e.keywords):
        a = e.args[0]
        # "".join((f"..." f"...")) joins the characters of ONE string (the inner
        # parentheses are not a tuple) — the same string; a 1-tuple is the same too
        if isinstance(a, ast.JoinedStr):
            return a
        if isinstance(a, ast.Tuple) and len(a.elts) == 1 and isinstance(a.elts[0], ast.JoinedStr):
            return a.elts[0]
    raise Refuse(f"{where}: control_data is not an f-string (or ''.join of one)")


def iterm2_items():
    tree = parse("src/term_image/image/iterm2.py")
    fn = find_method(find_class(tree, "ITerm2Image"), "_render_image")
    assigns = [n for n in ast.walk(fn) if isinstance(n, ast.Assign) and len(n.targets) == 1
               and isinstance(n.targets[0], ast.Name) and n.targets[0].id == "control_data"]
    assigns.sort(key=lambda n: n.lineno)
    need(len(assigns) == 3, f"ITerm2Image._render_image: expected 3 assignments to control_data (ANIM, LINES, WHOLE), found {len(assigns)}")
    anim, lines, whole = (header_parts(flatten_fstring(a.value, f"iterm2.py:{a.lineno}"), f"iterm2.py:{a.lineno}") for a in assigns)
    # the LINES method writes f"size={compressed_image.tell()}" separately, just before control_data
    size_writes = [n for n in ast.walk(fn) if isinstance(n, ast.Call) and isinstance(n.func, ast.Attribute)
                   and n.func.attr == "write" and len(n.args) == 1 and isinstance(n.args[0], ast.JoinedStr)]
    size_writes = [n for n in size_writes if any(isinstance(v, ast.Constant) and "size=" in str(v.value) for v in n.args[0].values)]
    need(len(size_writes) == 1, "ITerm2Image._render_image: LINES `size=` write not found exactly once")
    lines = header_parts(size_writes[0].args[0], f"iterm2.py:{size_writes[0].lineno}") + lines
    merged = []
    for p in lines:
        if p[0] == "lit" and merged and merged[-1][0] == "lit":
            merged[-1] = ("lit", merged[-1][1] + p[1])
        else:
            merged.append(p)
    lines = merged
    for name, h in (("ANIM", anim), ("LINES", lines), ("WHOLE", whole)):
        need(h and h[0] == ("lit", "size=") and h[1] == ("var", "compressed_image.tell()"),
             f"iterm2 {name} header does not start with size={{compressed_image.tell()}}: {h[:2]}")
        need(h[-1][0] == "lit" and h[-1][1].endswith(":"), f"iterm2 {name} header does not end with ':'")
    return anim, lines, whole, anim_fallback(fn)


def anim_fallback(fn):
    """Is the statement  `if render_method == ANIM: render_method = WHOLE`  present
    between the native-animation branch and the computation of `width, height`?
    (the documented fall-back of ANIM to WHOLE for non-native renders)"""
    def is_cmp(e, name):
        return (isinstance(e, ast.Compare) and isinstance(e.left, ast.Name) and e.left.id == "render_method"
                and len(e.ops) == 1 and isinstance(e.ops[0], ast.Eq) and len(e.comparators) == 1
                and isinstance(e.comparators[0], ast.Name) and e.comparators[0].id == name)

    native = [i for i, st in enumerate(fn.body) if isinstance(st, ast.If) and isinstance(st.test, ast.BoolOp)
              and isinstance(st.test.op, ast.And) and any(is_cmp(v, "ANIM") for v in st.test.values)]
    need(len(native) == 1, f"ITerm2Image._render_image: native-animation branch not found exactly once ({len(native)})")
    wh = [i for i, st in enumerate(fn.body) if isinstance(st, ast.Assign) and len(st.targets) == 1
          and isinstance(st.targets[0], ast.Tuple)
          and [getattr(e, "id", None) for e in st.targets[0].elts] == ["width", "height"]]
    need(len(wh) == 1 and wh[0] > native[0], "ITerm2Image._render_image: `width, height = ...` not found after the native branch")
    found = False
    for st in fn.body[native[0] + 1: wh[0]]:
        if (isinstance(st, ast.If) and is_cmp(st.test, "ANIM") and not st.orelse and len(st.body) == 1
                and isinstance(st.body[0], ast.Assign) and len(st.body[0].targets) == 1
                and isinstance(st.body[0].targets[0], ast.Name) and st.body[0].targets[0].id == "render_method"
                and isinstance(st.body[0].value, ast.Name) and st.body[0].value.id == "WHOLE"):
            found = True
        elif isinstance(st, (ast.Assign, ast.AugAssign, ast.AnnAssign)) and any(
                isinstance(t, ast.Name) and t.id == "render_method"
                for t in (st.targets if isinstance(st, ast.Assign) else [st.target])):
            raise Refuse(f"iterm2.py:{st.lineno}: unexpected assignment to render_method")
    # the native branch must end in `return` (so that what follows is the non-native path)
    last = fn.body[native[0]].body[-1]
    while isinstance(last, ast.With):
        last = last.body[-1]
    need(isinstance(last, ast.Return), "ITerm2Image._render_image: native branch does not end in return")
    return found


def hpart(p):
    if p[0] == "lit":
        return f"HLit {coq_string(p[1])}"
    if p[0] == "var":
        v = {"compressed_image.tell()": "HSize", "r_width": "HCols", "r_height": "HRows"}.get(p[1])
        need(v, f"iterm2 header: unknown variable {p[1]!r}")
        return v
    need(p[2] == "is_on_konsole", f"iterm2 header: unknown flag {p[2]!r}")
    return f"HIfKonsole {coq_string(p[1])}"


def render():
    chunk_size, keys, defaults, tables = kitty_items()
    anim, lines, whole, fallback = iterm2_items()

    def kv(v):
        if v is None:
            return "None"
        if isinstance(v, int):
            return f"Some (KInt ({v})%Z)"
        need(len(v) == 1, f"control value {v!r} is not one character")
        return f"Some (KChr {ord(v)}%Z)"

    L = []
    L.append("(** GENERATED by harness/tx/tx_consts.py from the working tree of the repository —")
    L.append("    do not edit.  Regenerated (and rewritten only if changed) on every check run. *)")
    L.append("From Coq Require Import ZArith List String.")
    L.append("Import ListNotations.")
    L.append("Local Open Scope string_scope.")
    L.append("")
    L.append("(** kitty.py: Transmission.get_chunks(self, size: int = N) *)")
    L.append(f"Definition kitty_chunk_size : nat := Z.to_nat {chunk_size}%Z.")
    L.append("")
    L.append("(** kitty.py: @dataclass ControlData — field order (= order of serialisation in")
    L.append("    get_control_data) and default values; single-character values are given by")
    L.append("    their ASCII code *)")
    L.append("Inductive kval := KInt (z : Z) | KChr (ascii_code : Z).")
    L.append("Definition kitty_keys : list string := [" + "; ".join(coq_string(k) for k in keys) + "].")
    L.append("Definition kitty_key_defaults : list (string * option kval) :=")
    L.append("  [" + "; ".join(f"({coq_string(k)}, {kv(v)})" for k, v in zip(keys, defaults)) + "].")
    L.append(f"Definition kitty_f_rgb : Z := {tables['f']['RGB']}%Z.")
    L.append(f"Definition kitty_f_rgba : Z := {tables['f']['RGBA']}%Z.")
    L.append(f"Definition kitty_f_png : Z := {tables['f']['PNG']}%Z.")
    need(isinstance(tables["o"]["ZLIB"], str) and len(tables["o"]["ZLIB"]) == 1, "o.ZLIB is not one character")
    L.append(f"Definition kitty_o_zlib : Z := {ord(tables['o']['ZLIB'])}%Z.")
    L.append("")
    L.append("(** iterm2.py: header f-strings of ITerm2Image._render_image *)")
    L.append("Inductive hpart := HLit (s : string) | HSize | HCols | HRows | HIfKonsole (s : string).")
    for name, h in (("anim", anim), ("lines", lines), ("whole", whole)):
        L.append(f"Definition iterm2_{name}_header : list hpart :=")
        L.append("  [" + "; ".join(hpart(p) for p in h) + "].")
    L.append("")
    L.append("(** iterm2.py: is `if render_method == ANIM: render_method = WHOLE` present after the")
    L.append("    native-animation branch of ITerm2Image._render_image (documented fall-back)? *)")
    L.append(f"Definition iterm2_anim_falls_back : bool := {'true' if fallback else 'false'}.")
    return "\n".join(L) + "\n"


def main():
    import core

    try:
        text = render()
    except Refuse as e:
        print(f"tx_consts: REFUSED: {e}")
        sys.exit(2)
    except SyntaxError as e:
        print(f"tx_consts: REFUSED: source does not parse: {e}")
        sys.exit(2)
    core.write_if_changed(OUT, text)


if __name__ == "__main__":
    main()
