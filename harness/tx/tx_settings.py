#!/venv/bin/python
"""tx_settings.py — fail-closed translator: the two bodies of `BaseImage.set_render_method`
(image/common.py: the class-level variant under `@ClassInstanceMethod` and the instance-level
variant under `@set_render_method.instancemethod`) -> /verif/coq/gen/SettingsSrc.v, regenerated on
every check run, as programs of the small attribute language of `model/SettingsProg.v`:

    if <cond>: raise ...                                   SRaiseIf cond
    if <cond>: A [else: B]                                 SIf cond A B
    try: del X._render_method / except AttributeError: pass     SDelOwn
    X._render_method = method                              SSetMethod
    X._render_method = X._default_render_method            SSetDefault

with X = `cls` (class-level) or `self` (instance-level; `type(self)` in the validation) and the
conditions, matched on their text,

    method is not None and not isinstance(method, str)           CBadType
    method is not None and method.lower() not in X._render_methods    CUnknown
    not method                                                   CFalsy
    X._render_methods                                            CHasMethods
    X._render_method is None                                     CLookupNone

Also checked: `BaseImage` declares `_render_method = None` and `_render_methods = set()` in its
class body (what the chain lookup ends in), and nothing else in the package assigns or deletes
`_render_method` except these two functions and the class bodies of style classes.
`proofs/SettingsSrcTie.v` proves that running these programs IS `Settings.step` for the
render-method kind, for every state, class / instance and argument.
"""
from __future__ import annotations

import ast
import sys
from pathlib import Path

sys.path.insert(0, str(Path(__file__).resolve().parent))
from tx_pure import REPO, Refuse, find_class, need, parse  # noqa: E402

VERIF = Path(__file__).resolve().parent.parent.parent
OUT = VERIF / "coq" / "gen" / "SettingsSrc.v"


def conds(x, tx):
    return {
        "method is not None and (not isinstance(method, str))": "CBadType",
        f"method is not None and method.lower() not in {tx}._render_methods": "CUnknown",
        "not method": "CFalsy",
        f"{x}._render_methods": "CHasMethods",
        f"{x}._render_method is None": "CLookupNone",
    }


def block(stmts, x, tx, where):
    out = []
    cs = conds(x, tx)
    for s in stmts:
        u = ast.unparse(s)
        if isinstance(s, ast.Expr) and isinstance(s.value, ast.Constant) and isinstance(s.value.value, str):
            continue
        if isinstance(s, ast.If):
            c = cs.get(ast.unparse(s.test))
            need(c is not None, f"{where}: condition outside the subset: {ast.unparse(s.test)[:90]}")
            if len(s.body) == 1 and isinstance(s.body[0], ast.Raise) and not s.orelse:
                out.append(f"SRaiseIf {c}")
            else:
                out.append(f"SIf {c} {lst(block(s.body, x, tx, where))} {lst(block(s.orelse, x, tx, where))}")
        elif isinstance(s, ast.Try):
            need(u == f"try:\n    del {x}._render_method\nexcept AttributeError:\n    pass",
                 f"{where}: try statement changed: {u.splitlines()[0]} ...")
            out.append("SDelOwn")
        elif u == f"{x}._render_method = method":
            out.append("SSetMethod")
        elif u == f"{x}._render_method = {x}._default_render_method":
            out.append("SSetDefault")
        else:
            raise Refuse(f"{where}: statement outside the subset: {u.splitlines()[0][:90]}")
    return out


def lst(items):
    return "[" + "; ".join(items) + "]" if items else "[]"


def prop_programs(meta, img, name, attr, argname):
    """setter / deleter / getter-default of a ClassInstanceProperty of ITerm2ImageMeta"""
    where = f"ITerm2ImageMeta.{name}"
    assigns = [s for s in meta.body if isinstance(s, ast.Assign) and len(s.targets) == 1
               and isinstance(s.targets[0], ast.Name) and s.targets[0].id == name]
    need(len(assigns) == 1 and isinstance(assigns[0].value, ast.Call)
         and ast.unparse(assigns[0].value.func) == "ClassInstanceProperty" and len(assigns[0].value.args) == 1,
         f"{where}: not one `ClassInstanceProperty(<getter>, doc=...)` assignment")
    g = assigns[0].value.args[0]
    need(isinstance(g, ast.Lambda) and [a.arg for a in g.args.args] == ["self"] and isinstance(g.body, ast.Call)
         and ast.unparse(g.body.func) == "getattr" and len(g.body.args) == 3
         and ast.unparse(g.body.args[0]) == "self" and ast.unparse(g.body.args[1]) == repr(attr)
         and isinstance(g.body.args[2], (ast.Constant, ast.UnaryOp)),
         f"{where}: getter is not `lambda self: getattr(self, {attr!r}, <constant>)`")
    default = ast.literal_eval(g.body.args[2])
    fs = {}
    for f in meta.body:
        if isinstance(f, ast.FunctionDef) and f.name == name:
            d = [ast.unparse(x) for x in f.decorator_list]
            need(d in ([f"{name}.setter"], [f"{name}.deleter"]), f"{where}: decorators {d}")
            fs[d[0].split(".")[1]] = f
    need(set(fs) == {"setter", "deleter"}, f"{where}: setter / deleter not found")
    need([a.arg for a in fs["setter"].args.args] == ["self", argname] and [a.arg for a in fs["deleter"].args.args] == ["self"],
         f"{where}: parameter lists changed")
    cs = {f"not isinstance({argname}, int)": "PNotInt", f"not isinstance({argname}, bool)": "PNotBool"}
    prog = []
    for st in fs["setter"].body:
        u = ast.unparse(st)
        if isinstance(st, ast.Expr) and isinstance(st.value, ast.Constant) and isinstance(st.value.value, str):
            continue
        if isinstance(st, ast.If) and not st.orelse and len(st.body) == 1 and isinstance(st.body[0], ast.Raise):
            t = ast.unparse(st.test)
            if t in cs:
                prog.append(f"PRaiseIf {cs[t]}")
            elif isinstance(st.test, ast.Compare) and len(st.test.ops) == 1 and isinstance(st.test.ops[0], ast.Gt) \
                    and ast.unparse(st.test.left) == argname and isinstance(st.test.comparators[0], ast.Constant) \
                    and type(st.test.comparators[0].value) is int:
                prog.append(f"PRaiseIf (PGt ({st.test.comparators[0].value})%Z)")
            else:
                raise Refuse(f"{where}.setter: condition outside the subset: {t[:80]}")
        elif u == f"self.{attr} = {argname}":
            prog.append("PSet")
        else:
            raise Refuse(f"{where}.setter: statement outside the subset: {u.splitlines()[0][:80]}")
    dbody = [st for st in fs["deleter"].body
             if not (isinstance(st, ast.Expr) and isinstance(st.value, ast.Constant) and isinstance(st.value.value, str))]
    need([ast.unparse(x) for x in dbody] == [f"try:\n    del self.{attr}\nexcept AttributeError:\n    pass"],
         f"{where}.deleter: body changed")
    # the instance-level property of ITerm2Image re-uses the three functions
    ia = [s for s in img.body if isinstance(s, ast.Assign) and len(s.targets) == 1
          and isinstance(s.targets[0], ast.Name) and s.targets[0].id == name]
    need(len(ia) == 1 and isinstance(ia[0].value, ast.Call) and ast.unparse(ia[0].value.func) == "ClassInstanceProperty"
         and [ast.unparse(a) for a in ia[0].value.args] == [f"ITerm2ImageMeta.{name}.fget", f"ITerm2ImageMeta.{name}.fset",
                                                            f"ITerm2ImageMeta.{name}.fdel"],
         f"ITerm2Image.{name}: does not re-use the metaclass property's fget / fset / fdel")
    return prog, ["PDel"], default


def main():
    tree = parse("src/term_image/image/common.py")
    cls = find_class(tree, "BaseImage")
    fs = [n for n in cls.body if isinstance(n, ast.FunctionDef) and n.name == "set_render_method"]
    need(len(fs) == 2, f"BaseImage.set_render_method: expected the class-level and the instance-level definition, found {len(fs)}")
    decos = [[ast.unparse(d) for d in f.decorator_list] for f in fs]
    need(decos == [["ClassInstanceMethod"], ["set_render_method.instancemethod"]],
         f"BaseImage.set_render_method: decorators changed: {decos}")
    need([a.arg for a in fs[0].args.args] == ["cls", "method"] and [a.arg for a in fs[1].args.args] == ["self", "method"],
         "BaseImage.set_render_method: parameter lists changed")
    cprog = block(fs[0].body, "cls", "cls", "set_render_method (class)")
    iprog = block(fs[1].body, "self", "type(self)", "set_render_method (instance)")
    # what the chain lookup ends in
    body_assigns = {}
    for s in cls.body:
        if isinstance(s, ast.AnnAssign) and isinstance(s.target, ast.Name) and s.value is not None:
            body_assigns[s.target.id] = ast.unparse(s.value)
        elif isinstance(s, ast.Assign) and len(s.targets) == 1 and isinstance(s.targets[0], ast.Name):
            body_assigns[s.targets[0].id] = ast.unparse(s.value)
    need(body_assigns.get("_render_method") == "None" and body_assigns.get("_render_methods") == "set()",
         f"BaseImage: `_render_method` / `_render_methods` class attributes changed: "
         f"{body_assigns.get('_render_method')!r}, {body_assigns.get('_render_methods')!r}")
    # other writers of the attribute anywhere in the package
    others = []
    root = REPO / "src" / "term_image"
    for p in sorted(root.rglob("*.py")):
        t = ast.parse(p.read_text(), filename=str(p))
        for n in ast.walk(t):
            tg = []
            if isinstance(n, ast.Assign):
                tg = n.targets
            elif isinstance(n, (ast.AugAssign, ast.AnnAssign)):
                tg = [n.target]
            elif isinstance(n, ast.Delete):
                tg = n.targets
            for x in tg:
                if isinstance(x, ast.Attribute) and x.attr == "_render_method":
                    if not (p.name == "common.py" and p.parent.name == "image"
                            and any(f.lineno <= n.lineno <= f.end_lineno for f in fs)):
                        others.append(f"{p.relative_to(root)}:{n.lineno}")
            if isinstance(n, ast.Call) and ast.unparse(n.func) in ("setattr", "delattr") and len(n.args) >= 2 \
                    and "_render_method" in ast.unparse(n.args[1]):
                others.append(f"{p.relative_to(root)}:{n.lineno}")
    need(not others, f"other writers of `_render_method`: {others[:3]}")
    # style classes pin their default in the class body: `_render_method = <NAME>` with
    # `_default_render_method = <the same NAME>`
    pins = []
    for p in sorted((root / "image").glob("*.py")):
        t = ast.parse(p.read_text(), filename=str(p))
        for c in [n for n in t.body if isinstance(n, ast.ClassDef)]:
            a = {}
            for s in c.body:
                if isinstance(s, ast.AnnAssign) and isinstance(s.target, ast.Name) and s.value is not None:
                    a[s.target.id] = ast.unparse(s.value)
                elif isinstance(s, ast.Assign) and len(s.targets) == 1 and isinstance(s.targets[0], ast.Name):
                    a[s.targets[0].id] = ast.unparse(s.value)
            if c.name != "BaseImage" and ("_render_method" in a or "_default_render_method" in a or "_render_methods" in a):
                need(a.get("_render_method") is not None and a.get("_render_method") == a.get("_default_render_method"),
                     f"{c.name}: `_render_method` ({a.get('_render_method')!r}) and `_default_render_method` "
                     f"({a.get('_default_render_method')!r}) differ in the class body")
                need("_render_methods" in a, f"{c.name}: pins a render method without `_render_methods`")
                pins.append(c.name)
    it2 = parse("src/term_image/image/iterm2.py")
    meta, img = find_class(it2, "ITerm2ImageMeta"), find_class(it2, "ITerm2Image")
    jq_set, jq_del, jq_def = prop_programs(meta, img, "jpeg_quality", "_jpeg_quality", "quality")
    rf_set, rf_del, rf_def = prop_programs(meta, img, "read_from_file", "_read_from_file", "policy")
    need(type(jq_def) is int and type(rf_def) is bool, f"getter defaults changed type: {jq_def!r}, {rf_def!r}")
    for attr in ("_jpeg_quality", "_read_from_file"):
        w = []
        for p in sorted(root.rglob("*.py")):
            t = ast.parse(p.read_text(), filename=str(p))
            for n in ast.walk(t):
                tg = n.targets if isinstance(n, (ast.Assign, ast.Delete)) else [n.target] if isinstance(n, (ast.AugAssign, ast.AnnAssign)) else []
                for x in tg:
                    if isinstance(x, ast.Attribute) and x.attr == attr:
                        w.append(f"{p.relative_to(root)}:{n.lineno}")
                    if isinstance(x, ast.Name) and x.id == attr:
                        w.append(f"{p.relative_to(root)}:{n.lineno} (class body)")
        need(len(w) == 2 and all(x.startswith("image/iterm2.py:") and "class body" not in x for x in w),
             f"writers of `{attr}` other than the property's setter and deleter: {w[:4]}")
    text = ("(** GENERATED by harness/tx/tx_settings.py from the working tree of the repository — do not edit.\n"
            "    Regenerated (and rewritten only if changed) on every check run. *)\n"
            "From Coq Require Import List String ZArith.\nImport ListNotations.\n"
            "From TI Require Import model.SettingsProg.\nOpen Scope string_scope.\n\n"
            "(** image/common.py: BaseImage.set_render_method, class-level variant *)\n"
            f"Definition src_set_render_method_cls : list sstmt := {lst(cprog)}.\n"
            "(** image/common.py: BaseImage.set_render_method, instance-level variant *)\n"
            f"Definition src_set_render_method_inst : list sstmt := {lst(iprog)}.\n"
            "(** style classes whose class body pins `_render_method = _default_render_method` *)\n"
            f"Definition src_pinned_styles : list string := {lst([chr(34) + n + chr(34) for n in pins])}.\n"
            "(** image/iterm2.py: ITerm2ImageMeta.jpeg_quality (setter, deleter, the getter's default); ITerm2Image re-uses them *)\n"
            f"Definition src_jpeg_quality_set : list pstmt := {lst(jq_set)}.\n"
            f"Definition src_jpeg_quality_del : list pstmt := {lst(jq_del)}.\n"
            f"Definition src_jpeg_quality_default : BinNums.Z := ({jq_def})%Z.\n"
            "(** image/iterm2.py: ITerm2ImageMeta.read_from_file *)\n"
            f"Definition src_read_from_file_set : list pstmt := {lst(rf_set)}.\n"
            f"Definition src_read_from_file_del : list pstmt := {lst(rf_del)}.\n"
            f"Definition src_read_from_file_default : bool := {'true' if rf_def else 'false'}.\n")
    if not OUT.exists() or OUT.read_text() != text:
        OUT.parent.mkdir(parents=True, exist_ok=True)
        OUT.write_text(text)


if __name__ == "__main__":
    try:
        main()
    except Refuse as e:
        print(f"tx_settings: REFUSED: {e}")
        OUT.write_text(f"(* tx_settings refused the current source: {str(e).replace('*)', '* )').replace('(*', '( *')} *)\n"
                       "Definition refused : True := I I.\n")
        sys.exit(1)
