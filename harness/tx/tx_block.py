#!/venv/bin/python
"""tx_block.py — fail-closed translator: the two KERNELS of the block renderer
(`BlockImage._render_image`, image/block.py) -> /verif/coq/gen/BlockSrc.v, regenerated on every run:

  * `update_buffer()` — what is written for one run of `n` equal cells, as a token list
    (`buf_write(SGR_DEFAULT)` -> TSgr0, `buf_write(SGR_FG_DIRECT % c)` -> TFg c,
    `buf_write(SGR_BG_DIRECT % (r, g, b))` -> TBg (r, g, b), `buf_write(blank | lower_pixel |
    upper_pixel * n)` -> n space / lower-half / upper-half glyphs, each followed by NUL when
    split_cells);
  * the run-boundary test of the inner loop (`if not (alpha and a1 == a_cluster1 == 0 == ...`).

Everything else in the function — the buffer set-up, the glyph strings with / without "\\0", the
row pairing, the loop skeleton, the end-of-line and final resets — is PINNED: with the two kernels
replaced by placeholders the function must unparse to the text recorded in `SKELETON` below (a
harmless rewrite of the skeleton is a refusal = broken obligation; the hand-written loop of
model/Block.v mirrors exactly that text).  `proofs/BlockSrcTie.v` proves, FOR ALL ARGUMENTS, that
the model's `update_buffer` and `flush_cond` are the translated kernels.

Semantics relied upon: rgb values are 3-tuples of ints compared structurally; chained comparisons
`a == b == c` = `a == b and b == c`; `r += r < 255 or -1` adds 1 if r < 255 else -1 (True == 1);
`no_alpha`, unbound when `alpha` is false, is only read behind `not alpha or` (short circuit) —
the translation initialises it to false.
"""
from __future__ import annotations

import ast
import sys
from pathlib import Path

sys.path.insert(0, str(Path(__file__).resolve().parent))
from tx_pure import Refuse, find_class, need, parse  # noqa: E402

VERIF = Path(__file__).resolve().parent.parent.parent
OUT = VERIF / "coq" / "gen" / "BlockSrc.v"
SKEL_FILE = Path(__file__).resolve().parent / "tx_block.skeleton.txt"

RGB = {"cluster1", "cluster2", "px1", "px2"}
ALPHAS = {"a1", "a2", "a_cluster1", "a_cluster2"}
GLYPH = {"blank": "GSpace", "lower_pixel": "GLower", "upper_pixel": "GUpper"}


def V(n):
    return "v_" + n


class E:
    """expressions: types Z | bool | rgb | orgb"""

    def __init__(self, env):
        self.env = env

    def ex(self, e):
        src = ast.unparse(e)
        if isinstance(e, ast.Constant) and isinstance(e.value, int) and not isinstance(e.value, bool):
            return (str(e.value) if e.value >= 0 else f"({e.value})"), "Z"
        if isinstance(e, ast.Name):
            need(e.id in self.env, f"block: name `{e.id}` is not in scope (line {e.lineno})")
            return V(e.id), self.env[e.id]
        if isinstance(e, ast.UnaryOp) and isinstance(e.op, ast.USub) and isinstance(e.operand, ast.Constant) \
                and isinstance(e.operand.value, int):
            return f"(-{e.operand.value})", "Z"
        if isinstance(e, ast.UnaryOp) and isinstance(e.op, ast.Not):
            t, ty = self.ex(e.operand)
            need(ty == "bool", f"block: `not` on {ty} in `{src}`")
            return f"(negb {t})", "bool"
        if isinstance(e, ast.BoolOp):
            vals = [self.ex(v) for v in e.values]
            if all(t == "bool" for _, t in vals):
                return "(" + (" && " if isinstance(e.op, ast.And) else " || ").join(t for t, _ in vals) + ")", "bool"
            # `<bool> or <int>`: True counts as 1
            need(isinstance(e.op, ast.Or) and len(vals) == 2 and vals[0][1] == "bool" and vals[1][1] == "Z",
                 f"block: boolean operator on mixed types `{src}`")
            return f"(if {vals[0][0]} then 1 else {vals[1][0]})", "Z"
        if isinstance(e, ast.Compare):
            terms = [self.ex(x) for x in [e.left] + e.comparators]
            parts = []
            for i, op in enumerate(e.ops):
                (a, ta), (b, tb) = terms[i], terms[i + 1]
                if {ta, tb} == {"rgb"}:
                    t = f"(rgb_eqb {a} {b})"
                elif (ta, tb) == ("rgb", "orgb"):
                    t = f"(orgb_eqb {a} {b})"
                elif ta == tb == "Z":
                    t = None
                else:
                    raise Refuse(f"block: comparison of {ta} with {tb} in `{src}`")
                if isinstance(op, ast.Eq):
                    parts.append(t or f"({a} =? {b})")
                elif isinstance(op, ast.NotEq):
                    parts.append(f"(negb {t or f'({a} =? {b})'})")
                elif isinstance(op, ast.Lt) and t is None:
                    parts.append(f"({a} <? {b})")
                else:
                    raise Refuse(f"block: comparison operator {type(op).__name__} in `{src}`")
            return (parts[0] if len(parts) == 1 else "(" + " && ".join(parts) + ")"), "bool"
        if isinstance(e, ast.Tuple) and len(e.elts) == 3:
            vals = [self.ex(v) for v in e.elts]
            need(all(t == "Z" for _, t in vals), f"block: tuple `{src}`")
            return "(" + ", ".join(t for t, _ in vals) + ")", "rgb"
        if isinstance(e, ast.BinOp) and isinstance(e.op, ast.Add):
            (a, ta), (b, tb) = self.ex(e.left), self.ex(e.right)
            need(ta == tb == "Z", f"block: addition in `{src}`")
            return f"({a} + {b})", "Z"
        raise Refuse(f"block: expression outside the subset: `{src}` (line {getattr(e, 'lineno', '?')})")


def write_tokens(arg, env):
    """buf_write(<arg>) -> Gallina list of tokens"""
    src = ast.unparse(arg)
    if src == "SGR_DEFAULT":
        return "[TSgr0]"
    if isinstance(arg, ast.BinOp) and isinstance(arg.op, ast.Mod) and ast.unparse(arg.left) in ("SGR_FG_DIRECT", "SGR_BG_DIRECT"):
        t, ty = E(env).ex(arg.right)
        need(ty == "rgb", f"block: colour argument `{src}`")
        return f"[{'TFg' if ast.unparse(arg.left) == 'SGR_FG_DIRECT' else 'TBg'} {t}]"
    if isinstance(arg, ast.BinOp) and isinstance(arg.op, ast.Mult) and isinstance(arg.left, ast.Name) \
            and arg.left.id in GLYPH and ast.unparse(arg.right) == "n":
        return f"(glyphs split {GLYPH[arg.left.id]} v_n)"
    raise Refuse(f"block: buf_write argument `{src}`")


def emit(stmts, env, ind):
    pad = "  " * ind
    if not stmts:
        return pad + "[]"
    s, rest = stmts[0], stmts[1:]
    if isinstance(s, ast.Expr) and isinstance(s.value, ast.Call) and ast.unparse(s.value.func) == "buf_write":
        need(len(s.value.args) == 1 and not s.value.keywords, f"block: `{ast.unparse(s)}`")
        return f"{pad}{write_tokens(s.value.args[0], env)} ++\n" + emit(rest, env, ind)
    if isinstance(s, ast.Assign) and len(s.targets) == 1:
        tg = s.targets[0]
        if isinstance(tg, ast.Name):
            if isinstance(s.value, ast.Constant) and isinstance(s.value.value, bool):
                t, ty = ("true" if s.value.value else "false"), "bool"
            else:
                t, ty = E(env).ex(s.value)
            env2 = dict(env)
            env2[tg.id] = ty
            return f"{pad}let {V(tg.id)} := {t} in\n" + emit(rest, env2, ind)
        if isinstance(tg, ast.Tuple) and len(tg.elts) == 3 and all(isinstance(x, ast.Name) for x in tg.elts):
            t, ty = E(env).ex(s.value)
            need(ty == "rgb", f"block: unpacking of {ty} in `{ast.unparse(s)}`")
            env2 = dict(env)
            for x in tg.elts:
                env2[x.id] = "Z"
            return f"{pad}let '({', '.join(V(x.id) for x in tg.elts)}) := {t} in\n" + emit(rest, env2, ind)
    if isinstance(s, ast.AugAssign) and isinstance(s.op, ast.Add) and isinstance(s.target, ast.Name):
        need(env.get(s.target.id) == "Z", f"block: `{ast.unparse(s)}`")
        t, ty = E(env).ex(s.value)
        need(ty == "Z", f"block: `{ast.unparse(s)}` adds {ty}")
        return f"{pad}let {V(s.target.id)} := ({V(s.target.id)} + {t}) in\n" + emit(rest, env, ind)
    if isinstance(s, ast.If):
        c, tc = E(env).ex(s.test)
        need(tc == "bool", f"block: non-boolean condition `{ast.unparse(s.test)}`")
        return (f"{pad}if {c} then\n" + emit(list(s.body) + rest, env, ind + 1) + f"\n{pad}else\n"
                + emit(list(s.orelse) + rest, env, ind + 1))
    raise Refuse(f"block: statement outside the subset in update_buffer: `{ast.unparse(s).splitlines()[0]}` (line {s.lineno})")


def main():
    blk = parse("src/term_image/image/block.py")
    cls = find_class(blk, "BlockImage")
    fs = [n for n in cls.body if isinstance(n, ast.FunctionDef) and n.name == "_render_image"]
    need(len(fs) == 1, f"BlockImage._render_image: {len(fs)} definitions")
    fn = fs[0]
    ubs = [n for n in fn.body if isinstance(n, ast.FunctionDef) and n.name == "update_buffer"]
    need(len(ubs) == 1 and not ubs[0].args.args, "update_buffer: nested definition not found")
    ub = ubs[0]
    need(not any(isinstance(n, (ast.Nonlocal, ast.Global)) for n in ast.walk(ub)), "update_buffer: nonlocal / global")
    env = {"alpha": "bool", "is_on_kitty": "bool", "bg_color": "orgb", "cluster1": "rgb", "cluster2": "rgb",
           "a_cluster1": "Z", "a_cluster2": "Z", "no_alpha": "bool"}
    ub_term = emit(list(ub.body), env, 1)
    # the run-boundary test: the only `if` of the inner loop whose body calls update_buffer()
    tests = [n for n in ast.walk(fn) if isinstance(n, ast.If) and n is not None
             and any(ast.unparse(b) == "update_buffer()" for b in n.body) and n not in ast.walk(ub)]
    need(len(tests) == 1, f"_render_image: {len(tests)} run-boundary tests")
    cond = tests[0]
    envc = {"alpha": "bool", "cluster1": "rgb", "cluster2": "rgb", "px1": "rgb", "px2": "rgb",
            "a1": "Z", "a2": "Z", "a_cluster1": "Z", "a_cluster2": "Z"}
    c_term, tc = E(envc).ex(cond.test)
    need(tc == "bool", "_render_image: run-boundary test is not boolean")
    # ---- pin the skeleton
    ph1 = ast.parse("def update_buffer():\n    KERNEL_UPDATE_BUFFER").body[0]
    ub.body = ph1.body
    cond.test = ast.Name(id="KERNEL_RUN_BOUNDARY", ctx=ast.Load())
    ast.fix_missing_locations(fn)
    skel = ast.unparse(fn)
    need(SKEL_FILE.exists(), "tx_block.skeleton.txt missing")
    if skel != SKEL_FILE.read_text():
        import difflib
        d = "\n".join(list(difflib.unified_diff(SKEL_FILE.read_text().splitlines(), skel.splitlines(), lineterm="", n=0))[:12])
        raise Refuse("_render_image: the loop skeleton differs from the pinned text:\n" + d)
    text = ("(** GENERATED by harness/tx/tx_block.py from the working tree of the repository — do not edit.\n"
            "    Regenerated (and rewritten only if changed) on every check run. *)\n"
            "From Coq Require Import List ZArith Bool.\nImport ListNotations.\n"
            "From TI Require Import lib.Term lib.TermFacts model.Block.\nOpen Scope Z_scope.\nOpen Scope bool_scope.\n\n"
            "(** `cluster == bg_color` where bg_color is None when the terminal's background is unknown *)\n"
            "Definition orgb_eqb (c : rgb) (o : option rgb) : bool :=\n"
            "  match o with Some b => rgb_eqb c b | None => false end.\n\n"
            "(** image/block.py: update_buffer() of BlockImage._render_image; split = split_cells *)\n"
            "Definition src_update_buffer (v_alpha v_is_on_kitty : bool) (v_bg_color : option rgb) (split : bool)\n"
            "           (v_cluster1 v_cluster2 : rgb) (v_a_cluster1 v_a_cluster2 : Z) (v_n : nat) : list tok :=\n"
            "  let v_no_alpha := false in\n" + ub_term + ".\n\n"
            "(** image/block.py: the run-boundary test of the inner loop of BlockImage._render_image *)\n"
            "Definition src_run_boundary (v_alpha : bool) (v_cluster1 v_cluster2 : rgb) (v_a_cluster1 v_a_cluster2 : Z)\n"
            "           (v_px1 v_px2 : rgb) (v_a1 v_a2 : Z) : bool :=\n  " + c_term + ".\n")
    if not OUT.exists() or OUT.read_text() != text:
        OUT.parent.mkdir(parents=True, exist_ok=True)
        OUT.write_text(text)


if __name__ == "__main__":
    if "--pin" in sys.argv:  # (re)record the skeleton of the CURRENT source: only by hand, after reading the diff
        blk = parse("src/term_image/image/block.py")
        fn = [n for n in find_class(blk, "BlockImage").body if isinstance(n, ast.FunctionDef) and n.name == "_render_image"][0]
        ub = [n for n in fn.body if isinstance(n, ast.FunctionDef) and n.name == "update_buffer"][0]
        cond = [n for n in ast.walk(fn) if isinstance(n, ast.If) and any(ast.unparse(b) == "update_buffer()" for b in n.body)
                and n not in ast.walk(ub)][0]
        ub.body = ast.parse("def update_buffer():\n    KERNEL_UPDATE_BUFFER").body[0].body
        cond.test = ast.Name(id="KERNEL_RUN_BOUNDARY", ctx=ast.Load())
        ast.fix_missing_locations(fn)
        SKEL_FILE.write_text(ast.unparse(fn))
        print(SKEL_FILE.read_text())
        sys.exit(0)
    try:
        main()
    except Refuse as e:
        print(f"tx_block: REFUSED: {e}")
        OUT.write_text(f"(* tx_block refused the current source: {str(e).replace('*)', '* )')} *)\n"
                       "Definition refused : True := I I.\n")
        sys.exit(1)
