#!/venv/bin/python
"""tx_locks.py -- FAIL-CLOSED translator for C14: where the library touches the terminal,
and whether that happens under a hold of the terminal lock -> coq/gen/LockRegions.v, a table
`lock_regions : list io_site` (vocabulary: coq/model/LockSites.v).

src/term_image/utils.py (every function, in full):

    os.read / os.write / termios.tc*(_tty_fd, ...)            -> KPrim site
    any other load of `_tty_fd` (e.g. the `[_tty_fd]` given
      to select()) except `_tty_fd == -1` / `!= -1`,
      `fcntl.ioctl(_tty_fd, termios.TIOCGWINSZ, ...)` and
      `os.get_terminal_size(_tty_fd)` (no stream I/O)          -> KPrim site
    query_terminal(...) / read_tty(...) / read_tty_all(...)
      / write_tty(...)                                         -> KSync site

other modules of src/term_image: the KSync sites only (they never see `_tty_fd`).

src/term_image/widget/_urwid.py, class UrwidImageScreen(urwid.raw_display.Screen) -> a second table
`screen_regions : list screen_method`: every method of the INSTALLED urwid's screen classes that
reaches the terminal's files (self._term_output_file.write/flush, os.read; through self.<m>()
calls), with: is it a public direct writer, does the library's class override it, is the
override decorated with @lock_tty (or its whole body inside `with _tty_lock, _tty_lock:`).

src/term_image/utils.py, `_process_start_wrapper` / `_process_run_wrapper` -> a third definition
`start_handover : handover_table`: the if / elif / else chain that decides what the child is handed
(`self._tty_lock = ...`), with its CONDITIONS translated (boolean expressions over
`isinstance(_tty_lock, _rlock_type)` and module globals of utils.py, i.e. library settings such as
`_queries_enabled`; anything else in a condition is refused), the outcome of every branch (a new
`mp_RLock()` replaces the global and is handed over / the global is handed over / None), whether the
chain is the body of `with _tty_lock:`, and whether the run wrapper installs what it was handed.
The model's start step is compared with it (C14_start_handover_ignores_configuration).

src/term_image/utils.py, the MODULE INITIALISATION (the module-level statements that bind `_tty_fd` or
assign `Process.start` / `Process.run`) -> a fourth definition `import_paths : list import_path`
(vocabulary: coq/model/LockImport.v): the block is INTERPRETED along every execution path -- its only
sources of branching are the attempts `_tty_fd = os.open(...)` (succeeds / raises OSError) and tests of
`_tty_fd` against -1 (`OS_IS_UNIX` is taken as true: the property is about Unix) -- through
for (over the literal tuple ("out", "in", "err")) / else, try / except OSError, break / continue / pass,
if, `warnings.warn(...)` and string statements; anything else in the block is refused.  A path records
the outcomes of the attempts, where the last successful one stands (iteration k of the loop, its
argument mentioning the loop variable -> FStream k; outside the loop with the literal "/dev/tty" ->
FDevTty; none -> FNone), whether `_tty_fd` was assigned and whether each of the two hook assignments
was executed (C14_source_hooks_installed_iff_terminal_found).  A hook assignment anywhere else in the
module is refused.

A site is HELD when it is lexically inside `with _tty_lock, _tty_lock:` (or two directly
nested single withs) or inside a function decorated with `@lock_tty`; the body of a nested
def / lambda is not held by what encloses its definition.  A read_tty / read_tty_all site
CONTINUES an exchange when an earlier site of the same function is a query_terminal /
write_tty call or an os.write; it is in the SAME REGION when both are held by the same
outermost region.  ("Called only from held sites" is not used: not needed by the source.)

Refused (a stub WITHOUT `lock_regions` is written, so that only C14's proofs stop building;
the exit status stays 0 because every check runs every translator): a synchronized terminal
function referenced other than as the callee of a call (it could be called from anywhere),
rebinding of one of these names or of `_tty_lock` / `lock_tty` inside a function, `_tty_fd`
loaded at module level other than in a comparison, a KSync site inside a loop of an
undecorated function of utils.py that has several sites, `global`/`nonlocal` tricks on the
tracked names, syntax errors."""
from __future__ import annotations

import ast
import sys
from pathlib import Path

HERE = Path(__file__).resolve().parent
sys.path.insert(0, str(HERE.parent))
import core  # noqa: E402

PKG = "src/term_image"
OUT = core.COQ / "gen" / "LockRegions.v"

SYNC = ("query_terminal", "read_tty", "read_tty_all", "write_tty")
READS = ("read_tty", "read_tty_all")
WRITES = ("query_terminal", "write_tty")
PRIMS = ("os.read", "os.write", "termios.tcgetattr", "termios.tcsetattr", "termios.tcdrain",
         "termios.tcflush", "termios.tcflow", "termios.tcsendbreak")
TRACKED = SYNC + ("_tty_lock", "lock_tty", "_tty_fd")


class Unsupported(Exception):
    pass


def is_lock_name(e) -> bool:
    return isinstance(e, ast.Name) and e.id == "_tty_lock"


def n_lock_items(w: ast.With) -> int:
    return sum(1 for it in w.items if is_lock_name(it.context_expr))


def is_lock_tty_deco(d) -> bool:
    return (isinstance(d, ast.Name) and d.id == "lock_tty") or (
        isinstance(d, ast.Attribute) and d.attr == "lock_tty")


class FuncScan:
    """sites of one function (top-level function or method), in source order"""

    def __init__(self, rel, mod, qual, fn, full):
        self.rel, self.mod, self.qual, self.fn, self.full = rel, mod, qual, fn, full
        self.decorated = any(is_lock_tty_deco(d) for d in fn.decorator_list)
        self.sites = []
        self.consumed = set()  # ids of Name nodes accounted for
        self.block(fn.body, region=("def", fn.lineno) if self.decorated else None, loop=0, nested=False)

    def where(self, n):
        return f"{self.rel}:{getattr(n, 'lineno', '?')}"

    # ---- statements
    def block(self, stmts, region, loop, nested):
        for s in stmts:
            self.stmt(s, region, loop, nested)

    def stmt(self, s, region, loop, nested):
        if isinstance(s, (ast.FunctionDef, ast.AsyncFunctionDef)):
            # a nested function runs later: nothing that encloses its definition holds for it
            for d in s.decorator_list:
                self.expr(d, region, loop)
            inner = ("def", s.lineno) if any(is_lock_tty_deco(d) for d in s.decorator_list) else None
            self.block(s.body, inner, 0, True)
            return
        if isinstance(s, ast.ClassDef):
            raise Unsupported(f"{self.where(s)}: class defined inside a function")
        if isinstance(s, (ast.Global, ast.Nonlocal)):
            if any(n in SYNC + ("lock_tty", "_tty_fd") for n in s.names):
                raise Unsupported(f"{self.where(s)}: global/nonlocal declaration of a tracked name")
            return
        if isinstance(s, (ast.With, ast.AsyncWith)):
            k = n_lock_items(s)
            for it in s.items:
                if not is_lock_name(it.context_expr):
                    self.expr(it.context_expr, region, loop)
                if it.optional_vars is not None:
                    self.expr(it.optional_vars, region, loop)
            body = s.body
            if k == 1 and len(body) == 1 and isinstance(body[0], ast.With) and n_lock_items(body[0]) >= 1:
                k += n_lock_items(body[0])
            inner = region
            if k >= 2 and region is None and isinstance(s, ast.With):
                inner = ("with", s.lineno)
            self.block(body, inner, loop, nested)
            return
        if isinstance(s, (ast.For, ast.AsyncFor, ast.While)):
            for f in ("target", "iter", "test"):
                if getattr(s, f, None) is not None:
                    self.expr(getattr(s, f), region, loop + 1 if f != "iter" else loop)
            self.block(s.body, region, loop + 1, nested)
            self.block(s.orelse, region, loop, nested)
            return
        # every other statement: its sub-statements, then its expressions
        for f, v in ast.iter_fields(s):
            if isinstance(v, list) and v and isinstance(v[0], ast.stmt):
                self.block(v, region, loop, nested)
            elif isinstance(v, list):
                for x in v:
                    if isinstance(x, ast.excepthandler):
                        if x.type is not None:
                            self.expr(x.type, region, loop)
                        self.block(x.body, region, loop, nested)
                    elif isinstance(x, ast.match_case):
                        raise Unsupported(f"{self.where(s)}: match statement")
                    elif isinstance(x, ast.AST):
                        self.expr(x, region, loop)
            elif isinstance(v, ast.AST):
                self.expr(v, region, loop)

    # ---- expressions
    def sync_name(self, e):
        if isinstance(e, ast.Name) and e.id in SYNC:
            return e.id
        if isinstance(e, ast.Attribute) and e.attr in SYNC:  # utils.read_tty, term_image.utils.read_tty, ...
            return e.attr
        return None

    def add(self, node, callee, kind, region, loop):
        self.sites.append({"line": node.lineno, "col": node.col_offset, "callee": callee, "kind": kind,
                           "region": region, "loop": loop})

    def fd_args(self, call):
        return [a for a in call.args if isinstance(a, ast.Name) and a.id == "_tty_fd"]

    def expr(self, e, region, loop):
        if isinstance(e, ast.Name):
            self.name(e, region, loop)
            return
        if isinstance(e, ast.Lambda):
            # runs later, possibly elsewhere: not held by what encloses it
            for d in list(e.args.defaults) + [d for d in e.args.kw_defaults if d is not None]:
                self.expr(d, region, loop)
            self.expr(e.body, None, 0)
            return
        if isinstance(e, ast.Attribute) and self.sync_name(e):
            raise Unsupported(f"{self.where(e)}: `{ast.unparse(e)}` is referenced other than as the callee of a call "
                              f"(in {self.qual}())")
        if isinstance(e, ast.Call):
            f = e.func
            callees, rest = [], []
            if self.sync_name(f):
                callees = [f]
            elif isinstance(f, ast.IfExp) and (self.sync_name(f.body) or self.sync_name(f.orelse)):
                callees = [x for x in (f.body, f.orelse) if self.sync_name(x)]
                rest = [f.test] + [x for x in (f.body, f.orelse) if not self.sync_name(x)]
            if callees:
                for c in callees:
                    self.mark(c)
                    if isinstance(c, ast.Attribute):
                        self.expr(c.value, region, loop)
                    self.add(e, self.sync_name(c), "KSync", region, loop)
                for x in rest + list(e.args) + [k.value for k in e.keywords]:
                    self.expr(x, region, loop)
                return
            if self.full and self.fd_args(e):
                fname = ast.unparse(f)
                if fname in PRIMS:
                    self.consumed.update(id(a) for a in self.fd_args(e))
                    self.add(e, fname, "KPrim", region, loop)
                elif fname == "os.get_terminal_size" or (
                        fname == "fcntl.ioctl" and len(e.args) >= 2 and ast.unparse(e.args[1]) == "termios.TIOCGWINSZ"):
                    self.consumed.update(id(a) for a in self.fd_args(e))  # the terminal's size: no stream I/O
        if isinstance(e, ast.Compare) and self.full:
            ops = [e.left] + list(e.comparators)
            if len(ops) == 2 and any(ast.unparse(o) == "-1" for o in ops):
                self.consumed.update(id(o) for o in ops if isinstance(o, ast.Name) and o.id == "_tty_fd")
        for ch in ast.iter_child_nodes(e):
            if isinstance(ch, ast.expr):
                self.expr(ch, region, loop)
            elif isinstance(ch, ast.comprehension):
                self.expr(ch.iter, region, loop)
                self.expr(ch.target, region, loop + 1)
                for c in ch.ifs:
                    self.expr(c, region, loop + 1)
            elif isinstance(ch, ast.keyword):
                self.expr(ch.value, region, loop)

    def mark(self, callee_node):
        for n in ast.walk(callee_node):
            if isinstance(n, ast.Name):
                self.consumed.add(id(n))

    def name(self, n: ast.Name, region, loop):
        if id(n) in self.consumed:
            return
        if isinstance(n.ctx, (ast.Store, ast.Del)):
            if n.id in SYNC + ("lock_tty",) or (n.id == "_tty_lock" and self.qual not in (
                    "_process_start_wrapper", "_process_run_wrapper")):
                raise Unsupported(f"{self.where(n)}: `{n.id}` is rebound inside {self.qual}()")
            return
        if n.id in SYNC:
            raise Unsupported(f"{self.where(n)}: `{n.id}` is referenced other than as the callee of a call "
                              f"(in {self.qual}())")
        if n.id == "_tty_fd" and self.full:
            self.add(n, "_tty_fd", "KPrim", region, loop)


def finish(scan: FuncScan):
    """continuation / same-region flags; rows for Coq"""
    sites = sorted(scan.sites, key=lambda s: (s["line"], s["col"]))
    n_sync = sum(1 for s in sites if s["kind"] == "KSync")
    rows = []
    for i, s in enumerate(sites):
        held = s["region"] is not None
        cont, same = False, True
        if s["kind"] == "KSync":
            if s["loop"] and scan.full and not scan.decorated and len(sites) > 1:
                raise Unsupported(f"{scan.rel}:{s['line']}: terminal call inside a loop of {scan.qual}(), which has "
                                  "several terminal sites: the order of the exchange is not lexical")
            if s["callee"] in READS:
                prev = [p for p in sites[:i] if (p["kind"] == "KSync" and p["callee"] in WRITES)
                        or (p["kind"] == "KPrim" and p["callee"] == "os.write")]
                if prev:
                    cont = True
                    same = held and prev[-1]["region"] is not None and prev[-1]["region"] == s["region"]
        rows.append((scan.mod, scan.qual, s["line"], s["callee"], s["kind"], held, cont, same))
    return rows, n_sync


def scan_module(repo: Path, path: Path):
    rel = str(path.relative_to(repo))
    mod = str(path.relative_to(repo / PKG))
    full = mod == "utils.py"
    tree = ast.parse(path.read_text())
    rows = []
    funcs = []
    for n in tree.body:
        if isinstance(n, (ast.FunctionDef, ast.AsyncFunctionDef)):
            funcs.append((n.name, n))
        elif isinstance(n, ast.ClassDef):
            for m in ast.walk(n):
                if isinstance(m, (ast.FunctionDef, ast.AsyncFunctionDef)) and m in n.body:
                    funcs.append((f"{n.name}.{m.name}", m))
                elif isinstance(m, ast.ClassDef) and m is not n:
                    for mm in m.body:
                        if isinstance(mm, (ast.FunctionDef, ast.AsyncFunctionDef)):
                            funcs.append((f"{m.name}.{mm.name}", mm))
    for n in ast.walk(tree):
        if isinstance(n, (ast.Import, ast.ImportFrom)):
            for al in n.names:
                base = al.name.rsplit(".", 1)[-1]
                if base in SYNC + ("lock_tty", "_tty_lock", "_tty_fd") and al.asname not in (None, base):
                    raise Unsupported(f"{rel}:{n.lineno}: `{al.name}` is imported under another name (`{al.asname}`)")
    in_funcs = set()
    for qual, fn in funcs:
        for x in ast.walk(fn):
            in_funcs.add(id(x))
        r, _ = finish(FuncScan(rel, mod, qual, fn, full))
        rows += r
    # module level (runs once, at import, before any thread of the caller can use the library):
    # no terminal call, no rebinding of the synchronized functions; `_tty_fd` only stored / compared
    for n in ast.walk(tree):
        if id(n) in in_funcs or not isinstance(n, ast.Name):
            continue
        if n.id in SYNC and isinstance(n.ctx, ast.Load):
            raise Unsupported(f"{rel}:{n.lineno}: `{n.id}` is used at module level")
        if full and n.id in SYNC + ("lock_tty",) and isinstance(n.ctx, ast.Store):
            raise Unsupported(f"{rel}:{n.lineno}: `{n.id}` is rebound at module level")
    if full:
        cmp_ok = set()
        for n in ast.walk(tree):
            if id(n) in in_funcs:
                continue
            if isinstance(n, ast.Compare):
                for o in [n.left] + list(n.comparators):
                    cmp_ok.add(id(o))
        for n in ast.walk(tree):
            if id(n) in in_funcs or not isinstance(n, ast.Name) or n.id != "_tty_fd":
                continue
            if isinstance(n.ctx, ast.Load) and id(n) not in cmp_ok:
                raise Unsupported(f"{rel}:{n.lineno}: `_tty_fd` is used at module level other than in a comparison")
        defs = [q for q, _ in funcs]
        for f in SYNC + ("lock_tty",):
            if defs.count(f) != 1:
                raise Unsupported(f"{rel}: `{f}` is not defined exactly once at top level")
    return rows


# ------------------------------------------------------------------ the urwid screen

SCREEN_REL = PKG + "/widget/_urwid.py"
SCREEN_CLASS = "UrwidImageScreen"


def base_screen_methods():
    """methods of the installed urwid.raw_display.Screen (and its urwid base classes) that reach
    the terminal's files: name -> (touches, direct_public_writer)"""
    import inspect

    try:
        import urwid
        from urwid import raw_display
    except Exception as e:  # the class under scrutiny only exists with urwid
        raise Unsupported(f"urwid cannot be imported: {type(e).__name__}: {e}")
    methods = {}  # first definition along the MRO wins
    for cls in raw_display.Screen.__mro__:
        if not cls.__module__.startswith("urwid"):
            continue
        try:
            tree = ast.parse(inspect.getsource(inspect.getmodule(cls)))
        except (OSError, TypeError, SyntaxError) as e:
            raise Unsupported(f"source of {cls.__module__}.{cls.__name__} not readable: {e}")
        cdefs = [n for n in tree.body if isinstance(n, ast.ClassDef) and n.name == cls.__name__]
        if len(cdefs) != 1:
            raise Unsupported(f"class {cls.__module__}.{cls.__name__} not found exactly once in its module")
        for fn in cdefs[0].body:
            if isinstance(fn, (ast.FunctionDef, ast.AsyncFunctionDef)):
                if any(ast.unparse(d).endswith("overload") for d in fn.decorator_list):
                    continue
                methods.setdefault(fn.name, []).append(fn)  # every definition along the MRO (super() chains)
    info = {}
    for name, fns in methods.items():
        out = inp = False
        calls = set()
        for n in (x for fn in fns for x in ast.walk(fn)):
            if isinstance(n, ast.Call):
                f = ast.unparse(n.func)
                if f in ("self._term_output_file.write", "self._term_output_file.flush"):
                    out = True
                elif f == "os.read":
                    inp = True
                elif isinstance(n.func, ast.Attribute) and isinstance(n.func.value, ast.Name) and n.func.value.id == "self":
                    calls.add(n.func.attr)
                elif isinstance(n.func, ast.Attribute) and ast.unparse(n.func.value) == "super()":
                    calls.add(n.func.attr)
            elif isinstance(n, ast.Attribute) and isinstance(n.value, ast.Name) and n.value.id == "self" and n.attr in methods:
                calls.add(n.attr)  # a bound method handed to somebody (e.g. the event loop's callback)
        info[name] = {"out": out, "inp": inp, "calls": calls & set(methods)}
    touches = {n for n, i in info.items() if i["out"] or i["inp"]}
    changed = True
    while changed:
        changed = False
        for n, i in info.items():
            if n not in touches and i["calls"] & touches:
                touches.add(n)
                changed = True
    if not {"write", "flush"} <= {n for n, i in info.items() if i["out"]} or not any(i["inp"] for i in info.values()):
        raise Unsupported(f"urwid {getattr(urwid, '__version__', '?')}: Screen.write / Screen.flush / an os.read() reader "
                          "not found where expected: the screen's I/O methods cannot be identified")
    return {n: (True, info[n]["out"] and not n.startswith("_")) for n in touches}, set(methods), getattr(urwid, "__version__", "?")


def scan_screen(repo: Path):
    path = repo / SCREEN_REL
    tree = ast.parse(path.read_text())
    cls = [n for n in tree.body if isinstance(n, ast.ClassDef) and n.name == SCREEN_CLASS]
    if len(cls) != 1:
        raise Unsupported(f"{SCREEN_REL}: class {SCREEN_CLASS} not found exactly once at top level")
    bases = [ast.unparse(b) for b in cls[0].bases]
    if bases != ["urwid.raw_display.Screen"]:
        raise Unsupported(f"{SCREEN_REL}:{cls[0].lineno}: bases {bases} (expected urwid.raw_display.Screen)")
    base, base_all, version = base_screen_methods()
    own = {}
    for fn in cls[0].body:
        if isinstance(fn, (ast.FunctionDef, ast.AsyncFunctionDef)):
            if fn.name in own:
                raise Unsupported(f"{SCREEN_REL}:{fn.lineno}: {SCREEN_CLASS}.{fn.name} defined twice")
            locked = any(is_lock_tty_deco(d) for d in fn.decorator_list)
            other = [ast.unparse(d) for d in fn.decorator_list if not is_lock_tty_deco(d)]
            if other and fn.name in base:
                raise Unsupported(f"{SCREEN_REL}:{fn.lineno}: decorators {other} on {SCREEN_CLASS}.{fn.name}")
            body = [s for s in fn.body if not (isinstance(s, ast.Expr) and isinstance(s.value, ast.Constant))]
            if not locked and len(body) == 1 and isinstance(body[0], ast.With):
                k = n_lock_items(body[0])
                inner = body[0].body
                if k == 1 and len(inner) == 1 and isinstance(inner[0], ast.With):
                    k += n_lock_items(inner[0])
                locked = k >= 2
            own[fn.name] = locked
        elif isinstance(fn, ast.Assign):
            for t in fn.targets:  # e.g. `write = something`: a method bound without a def
                if isinstance(t, ast.Name) and t.id in base:
                    raise Unsupported(f"{SCREEN_REL}:{fn.lineno}: {SCREEN_CLASS}.{t.id} is bound by assignment")
    rows = []
    for name in sorted(base):
        rows.append((name, True, True, base[name][1], name in own, own.get(name, False)))
    for name in sorted(own):
        if name not in base:
            rows.append((name, name in base_all, False, False, True, own[name]))
    return rows, version


# ------------------------------------------------------------------ the hand-over decision

CONF_GLOBALS = {"_queries_enabled": 0, "_swap_win_size": 1, "_query_timeout": 2, "_tty_fd": 3}
UTILS_REL = PKG + "/utils.py"


def module_globals(tree):
    """names bound at module level of utils.py by plain assignment (the library's settings / state)"""
    names = set()
    for st in ast.walk(ast.Module(body=[x for x in tree.body if not isinstance(
            x, (ast.FunctionDef, ast.AsyncFunctionDef, ast.ClassDef))], type_ignores=[])):
        if isinstance(st, ast.Name) and isinstance(st.ctx, ast.Store):
            names.add(st.id)
    return names


def hcond(e, globs, local_names, where):
    if isinstance(e, ast.Constant) and isinstance(e.value, bool):
        return "CTrue" if e.value else "CFalse"
    if isinstance(e, ast.Call) and ast.unparse(e) == "isinstance(_tty_lock, _rlock_type)":
        return "CThreadLock"
    if isinstance(e, ast.UnaryOp) and isinstance(e.op, ast.Not):
        return "(CNot %s)" % hcond(e.operand, globs, local_names, where)
    if isinstance(e, ast.BoolOp):
        op = "CAnd" if isinstance(e.op, ast.And) else "COr"
        parts = [hcond(v, globs, local_names, where) for v in e.values]
        out = parts[-1]
        for x in reversed(parts[:-1]):
            out = "(%s %s %s)" % (op, x, out)
        return out
    if isinstance(e, ast.Compare) and len(e.ops) == 1 and isinstance(e.left, ast.Name) and e.left.id == "_tty_fd" \
            and ast.unparse(e.comparators[0]) == "-1" and isinstance(e.ops[0], (ast.Eq, ast.NotEq)):
        return "(CConf 3)" if isinstance(e.ops[0], ast.NotEq) else "(CNot (CConf 3))"
    if isinstance(e, ast.Name) and e.id not in local_names and e.id in globs and e.id not in ("_tty_lock", "_rlock_type"):
        return "(CConf %d)" % CONF_GLOBALS.get(e.id, 9)
    raise Unsupported(f"{where}:{getattr(e, 'lineno', '?')}: condition `{ast.unparse(e)}` of the lock hand-over is not "
                      "translatable (only isinstance(_tty_lock, _rlock_type), module globals of utils.py, not / and / or)")


def is_self_lock(t):
    return isinstance(t, ast.Attribute) and t.attr == "_tty_lock" and isinstance(t.value, ast.Name) and t.value.id == "self"


def plain(stmts):
    """statements without doc strings, `pass` and warnings.warn(...) calls"""
    out = []
    for s in stmts:
        if isinstance(s, ast.Pass):
            continue
        if isinstance(s, ast.Expr) and isinstance(s.value, ast.Constant):
            continue
        if isinstance(s, ast.Expr) and isinstance(s.value, ast.Call) and ast.unparse(s.value.func) in ("warnings.warn", "warn"):
            continue
        out.append(s)
    return out


def houtcome(stmts, where):
    body = plain(stmts)
    line = getattr(stmts[0], "lineno", "?") if stmts else "?"
    if len(body) == 1 and isinstance(body[0], ast.Try) and not body[0].orelse and not body[0].finalbody:
        t = body[0]
        for hd in t.handlers:
            hb = plain(hd.body)
            if not (hd.type is not None and ast.unparse(hd.type) == "ImportError" and len(hb) == 1
                    and isinstance(hb[0], ast.Assign) and len(hb[0].targets) == 1 and is_self_lock(hb[0].targets[0])
                    and isinstance(hb[0].value, ast.Constant) and hb[0].value.value is None):
                raise Unsupported(f"{where}:{hd.lineno}: handler of the lock creation is not "
                                  "`except ImportError: self._tty_lock = None`")
        body = plain(t.body)
    if len(body) == 1 and isinstance(body[0], ast.Assign):
        a = body[0]
        tg = a.targets
        if len(tg) == 2 and is_self_lock(tg[0]) and is_lock_name(tg[1]) and ast.unparse(a.value) == "mp_RLock()":
            return "ONew"
        if len(tg) == 1 and is_self_lock(tg[0]) and is_lock_name(a.value):
            return "OGlobal"
        if len(tg) == 1 and is_self_lock(tg[0]) and isinstance(a.value, ast.Constant) and a.value.value is None:
            return "ONone"
    raise Unsupported(f"{where}:{line}: a branch of the lock hand-over is none of `self._tty_lock = _tty_lock = "
                      "mp_RLock()` / `self._tty_lock = _tty_lock` / `self._tty_lock = None`")


def scan_handover(repo: Path):
    path = repo / UTILS_REL
    tree = ast.parse(path.read_text())
    globs = module_globals(tree)
    fns = {n.name: n for n in tree.body if isinstance(n, (ast.FunctionDef, ast.AsyncFunctionDef))}
    for need in ("_process_start_wrapper", "_process_run_wrapper"):
        if need not in fns:
            raise Unsupported(f"{UTILS_REL}: {need}() not found at top level")
    fn = fns["_process_start_wrapper"]
    local_names = {a.arg for a in fn.args.args + fn.args.kwonlyargs} | {
        n.id for n in ast.walk(fn) if isinstance(n, ast.Name) and isinstance(n.ctx, ast.Store)} - {"_tty_lock"}
    declared = {x for n in ast.walk(fn) if isinstance(n, ast.Global) for x in n.names}
    local_names -= declared

    def touches(node):
        return any((isinstance(n, ast.Name) and n.id == "_tty_lock" and isinstance(n.ctx, ast.Store)) or
                   (is_self_lock(n) and isinstance(n.ctx, ast.Store)) for n in ast.walk(node))

    # the chain: the one `if` statement (with its elifs) that binds `self._tty_lock` / `_tty_lock`
    chains = []

    def find(stmts, under):
        for s in stmts:
            if isinstance(s, ast.If) and touches(s):
                chains.append((s, under))
            elif isinstance(s, (ast.With, ast.AsyncWith)):
                find(s.body, under or (isinstance(s, ast.With) and n_lock_items(s) >= 1))
            elif isinstance(s, (ast.FunctionDef, ast.AsyncFunctionDef, ast.ClassDef)):
                if touches(s):
                    raise Unsupported(f"{UTILS_REL}:{s.lineno}: the terminal lock is bound inside a nested definition")
            elif touches(s):
                # an unconditional hand-over is a chain without branches
                chains.append((s, under))

    find(fn.body, False)
    if len(chains) != 1:
        raise Unsupported(f"{UTILS_REL}:{fn.lineno}: expected ONE statement deciding the lock hand-over in "
                          f"_process_start_wrapper(), found {len(chains)}")
    node, under = chains[0]
    branches = []
    if isinstance(node, ast.If):
        cur = node
        while True:
            branches.append((hcond(cur.test, globs, local_names, UTILS_REL), houtcome(cur.body, UTILS_REL)))
            if len(cur.orelse) == 1 and isinstance(cur.orelse[0], ast.If):
                cur = cur.orelse[0]
                continue
            if not cur.orelse:
                raise Unsupported(f"{UTILS_REL}:{cur.lineno}: the lock hand-over has no `else` (a child may be "
                                  "started without `self._tty_lock`)")
            els = houtcome(cur.orelse, UTILS_REL)
            break
    else:
        els = houtcome([node], UTILS_REL)
    # the run wrapper: `if self._tty_lock: _tty_lock = self._tty_lock`
    rn = fns["_process_run_wrapper"]
    installs = False
    binds = [s for s in ast.walk(rn) if isinstance(s, ast.Assign) and any(is_lock_name(t) for t in s.targets)]
    for s in plain(rn.body):
        if isinstance(s, ast.If) and is_self_lock(s.test) and not s.orelse:
            b = plain(s.body)
            if len(b) == 1 and isinstance(b[0], ast.Assign) and len(b[0].targets) == 1 and is_lock_name(b[0].targets[0]) \
                    and is_self_lock(b[0].value) and binds == [b[0]]:
                installs = True
    return {"under": under, "branches": branches, "else": els, "installs": installs, "line": node.lineno}


# ------------------------------------------------------------------ the module initialisation
HOOKS = {"start": "_process_start_wrapper", "run": "_process_run_wrapper"}
STREAMS = ("out", "in", "err")


class _NeedMore(Exception):
    pass


def _is_fd_store(t):
    return isinstance(t, ast.Name) and t.id == "_tty_fd"


def _hook_target(t):
    if isinstance(t, ast.Attribute) and isinstance(t.value, ast.Name) and t.value.id == "Process" \
            and t.attr in HOOKS:
        return t.attr
    return None


def _is_minus_one(e):
    return (isinstance(e, ast.UnaryOp) and isinstance(e.op, ast.USub) and isinstance(e.operand, ast.Constant)
            and e.operand.value == 1) or (isinstance(e, ast.Constant) and e.value == -1)


def _is_os_open(e):
    return isinstance(e, ast.Call) and isinstance(e.func, ast.Attribute) and e.func.attr == "open" \
        and isinstance(e.func.value, ast.Name) and e.func.value.id == "os" and e.args


def _touches_init(node):
    for n in ast.walk(node):
        if isinstance(n, ast.Name) and n.id == "_tty_fd" and isinstance(n.ctx, ast.Store):
            return True
        if isinstance(n, ast.Attribute) and isinstance(n.ctx, ast.Store) and _hook_target(n):
            return True
    return False


def scan_import(repo: Path):
    """-> list of (outcomes, route, tty, start, run); route = ("stream", k) | ("devtty",) | ("none",)"""
    path = repo / UTILS_REL
    tree = ast.parse(path.read_text())
    top = [s for s in tree.body if not isinstance(s, (ast.FunctionDef, ast.AsyncFunctionDef, ast.ClassDef))]
    for fn in tree.body:
        if isinstance(fn, (ast.FunctionDef, ast.AsyncFunctionDef, ast.ClassDef)):
            for n in ast.walk(fn):
                if isinstance(n, ast.Attribute) and isinstance(n.ctx, ast.Store) and _hook_target(n):
                    raise Unsupported(f"{UTILS_REL}:{n.lineno}: Process.{n.attr} is assigned outside the module "
                                      "initialisation")
                if isinstance(n, ast.Name) and n.id == "_tty_fd" and isinstance(n.ctx, ast.Store):
                    raise Unsupported(f"{UTILS_REL}:{n.lineno}: _tty_fd is rebound inside a function")
    block = [s for s in top if _touches_init(s)]
    if not block:
        raise Unsupported(f"{UTILS_REL}: no module-level statement binds _tty_fd / Process.start / Process.run")

    def where(n):
        return f"{UTILS_REL}:{getattr(n, 'lineno', 0)}"

    def catches_oserror(h):
        t = h.type
        names = [t] if isinstance(t, ast.Name) else list(t.elts) if isinstance(t, ast.Tuple) else []
        return any(isinstance(x, ast.Name) and x.id == "OSError" for x in names)

    def run(outcomes):
        st = {"tty": False, "start": False, "run": False, "route": ("none",), "used": 0}

        def attempt():
            if st["used"] >= len(outcomes):
                raise _NeedMore()
            st["used"] += 1
            return outcomes[st["used"] - 1]

        def test(e):
            if isinstance(e, ast.Name) and e.id == "OS_IS_UNIX":
                return True
            if isinstance(e, ast.Compare) and len(e.ops) == 1 and _is_fd_load(e.left) and _is_minus_one(e.comparators[0]):
                if isinstance(e.ops[0], ast.NotEq):
                    return st["tty"]
                if isinstance(e.ops[0], ast.Eq):
                    return not st["tty"]
            raise Unsupported(f"{where(e)}: a condition of the module initialisation is neither OS_IS_UNIX nor "
                              "`_tty_fd != -1` / `_tty_fd == -1`")

        def stmts(body, loop):
            for s in body:
                sig = stmt(s, loop)
                if sig != "next":
                    return sig
            return "next"

        def stmt(s, loop):  # loop = (variable name, iteration index) | None
            if isinstance(s, ast.Pass):
                return "next"
            if isinstance(s, ast.Break) and loop:
                return "break"
            if isinstance(s, ast.Continue) and loop:
                return "continue"
            if isinstance(s, ast.Expr):
                v = s.value
                if isinstance(v, ast.Constant) and isinstance(v.value, str):
                    return "next"
                if isinstance(v, ast.Call) and isinstance(v.func, ast.Attribute) and v.func.attr == "warn" \
                        and isinstance(v.func.value, ast.Name) and v.func.value.id == "warnings":
                    return "next"
                raise Unsupported(f"{where(s)}: unsupported expression statement in the module initialisation")
            if isinstance(s, ast.Assign) and len(s.targets) == 1:
                t = s.targets[0]
                if _is_fd_store(t):
                    if _is_minus_one(s.value):
                        st["tty"], st["route"] = False, ("none",)
                        return "next"
                    if _is_os_open(s.value):
                        arg = s.value.args[0]
                        uses_var = loop is not None and any(
                            isinstance(n, ast.Name) and n.id == loop[0] for n in ast.walk(arg))
                        if uses_var:
                            route = ("stream", loop[1])
                        elif isinstance(arg, ast.Constant) and arg.value == "/dev/tty" and loop is None:
                            route = ("devtty",)
                        else:
                            raise Unsupported(f"{where(s)}: os.open() of something that is neither a standard "
                                              "stream's terminal (loop variable) nor \"/dev/tty\"")
                        if not attempt():
                            return "raise"
                        st["tty"], st["route"] = True, route
                        return "next"
                    raise Unsupported(f"{where(s)}: _tty_fd is bound to something other than -1 / os.open(...)")
                h = _hook_target(t)
                if h:
                    if not any(isinstance(n, ast.Name) and n.id == HOOKS[h] for n in ast.walk(s.value)):
                        raise Unsupported(f"{where(s)}: Process.{h} is not assigned {HOOKS[h]}")
                    st[h] = True
                    return "next"
            if isinstance(s, ast.Try) and not s.finalbody and not s.orelse and s.handlers \
                    and all(catches_oserror(h) for h in s.handlers):
                sig = stmts(s.body, loop)
                if sig == "raise":
                    return stmts(s.handlers[0].body, loop)
                return sig
            if isinstance(s, ast.If):
                return stmts(s.body if test(s.test) else s.orelse, loop)
            if isinstance(s, ast.For) and isinstance(s.target, ast.Name) and isinstance(s.iter, ast.Tuple) \
                    and tuple(e.value if isinstance(e, ast.Constant) else None for e in s.iter.elts) == STREAMS \
                    and loop is None:
                for k in range(len(STREAMS)):
                    sig = stmts(s.body, (s.target.id, k))
                    if sig == "break":
                        return "next"
                    if sig == "raise":
                        return "raise"
                return stmts(s.orelse, None)
            raise Unsupported(f"{where(s)}: statement outside the translatable subset in the module initialisation "
                              f"({type(s).__name__})")

        if stmts(block, None) != "next":
            raise Unsupported(f"{UTILS_REL}: an os.open() failure escapes the module initialisation")
        if st["used"] != len(outcomes):
            raise Unsupported("internal: unused outcomes")
        return st

    def _is_fd_load(e):
        return isinstance(e, ast.Name) and e.id == "_tty_fd"

    paths, stack = [], [[]]
    while stack:
        pre = stack.pop()
        if len(pre) > 8:
            raise Unsupported(f"{UTILS_REL}: more than 8 os.open() attempts on one path of the module initialisation")
        try:
            st = run(pre)
        except _NeedMore:
            stack += [pre + [False], pre + [True]]
            continue
        paths.append((pre, st["route"], st["tty"], st["start"], st["run"]))
    paths.sort(key=lambda p: (len(p[0]), p[0]))
    return paths, block[0].lineno


def coq_str(s: str) -> str:
    return '"' + s.replace('"', '""') + '"'


def build(repo: Path | None = None) -> str:
    repo = Path(repo or core.REPO)
    rows = []
    for path in sorted((repo / PKG).rglob("*.py")):
        rows += scan_module(repo, path)
    if not rows:
        raise Unsupported("no terminal site found")
    srows, version = scan_screen(repo)
    ho = scan_handover(repo)
    ipaths, iline = scan_import(repo)
    items = []
    for mod, qual, line, callee, kind, held, cont, same in rows:
        items.append("  {| s_mod := %s; s_func := %s; s_line := %d; s_callee := %s; s_kind := %s;\n"
                     "     s_held := %s; s_continues := %s; s_same_region := %s |}" % (
                         coq_str(mod), coq_str(qual), line, coq_str(callee), kind,
                         str(held).lower(), str(cont).lower(), str(same).lower()))
    return "\n".join([
        "(** GENERATED by harness/tx/tx_locks.py from the working tree of the library -- do not edit.",
        "    Where the terminal is touched, and whether under a hold of the terminal lock",
        "    (vocabulary and meaning: coq/model/LockSites.v). *)",
        "From Coq Require Import List String Bool.",
        "Import ListNotations.",
        "From TI Require Import model.LockSites model.LockImport.",
        "Open Scope string_scope.",
        "",
        "Definition lock_regions : list io_site := [",
        ";\n".join(items),
        "].",
        "",
        f"(* {SCREEN_REL}, class {SCREEN_CLASS}, against the installed urwid {version}: the methods of",
        "   urwid.raw_display.Screen that reach the terminal's files, then the library's other methods *)",
        "Definition screen_regions : list screen_method := [",
        ";\n".join("  {| m_name := %s; m_in_base := %s; m_touches_tty := %s; m_direct := %s; m_overridden := %s; m_locked := %s |}"
                    % ((coq_str(r[0]),) + tuple(str(x).lower() for x in r[1:])) for r in srows),
        "].",
        "",
        f"(* {UTILS_REL}:{ho['line']}, _process_start_wrapper / _process_run_wrapper: what the child process is handed *)",
        "Definition start_handover : handover_table :=",
        "  {| h_under_lock := %s;" % str(ho["under"]).lower(),
        "     h_branches := [%s];" % "; ".join("(%s, %s)" % b for b in ho["branches"]),
        "     h_else := %s;" % ho["else"],
        "     h_run_installs := %s |}." % str(ho["installs"]).lower(),
        "",
        f"(* {UTILS_REL}:{iline}ff, the module initialisation: every execution path (outcomes of the os.open attempts) *)",
        "Definition import_paths : list import_path := [",
        ";\n".join("  {| ip_outcomes := [%s]; ip_route := %s; ip_tty := %s; ip_start := %s; ip_run := %s |}" % (
            "; ".join(str(b).lower() for b in o),
            "FStream %d" % r[1] if r[0] == "stream" else "FDevTty" if r[0] == "devtty" else "FNone",
            str(t).lower(), str(a).lower(), str(b).lower()) for o, r, t, a, b in ipaths),
        "].",
        "",
    ])


def main():
    try:
        text = build()
    except (Unsupported, OSError, SyntaxError, RecursionError) as e:
        print(f"tx_locks: source outside the translatable subset: {e}", file=sys.stderr)
        core.write_if_changed(OUT, "(* tx_locks.py refused the current source: " + str(e).replace("*)", "* )").replace("(*", "( *")
                              + " *)\nFrom TI Require Import model.LockSites.\n"
                              "(* no [lock_regions]: proofs/LockRegionsProofs.v does not build *)\n")
        sys.exit(0)
    core.write_if_changed(OUT, text)


if __name__ == "__main__":
    main()
