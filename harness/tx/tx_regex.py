#!/venv/bin/python
"""tx_regex.py — fail-closed translator: the format-specifier regular expressions of
$VERIF_REPO (default /repo) -> /verif/coq/gen/Regexes.v.

Run by core.regenerate() on every check run (cwd=/verif, PYTHONPATH=$VERIF_REPO/src:...).
The compiled pattern objects are taken from the *imported working tree*
(`term_image.image.common._FORMAT_SPEC`, `_NO_VERTICAL_SPEC`, `_ALPHA_BG_FORMAT`, and the
`_FORMAT_SPEC` tuples of the style classes), their `.pattern` / `.flags` are parsed with
CPython's own `re._parser`, and emitted as character-level expressions (`lib/CRe.v: cre`)
whose atoms are inclusive code-point ranges.  Nothing about the alphabet is trusted
downstream: the class table emitted here is re-checked inside Coq (`cover_ok`, `mask_of`).

Supported subset (anything else -> message + exit status 1, which the driver reports as a
broken obligation): literals, classes `[...]` of literals / ranges / `\\d`, `\\d`, `.`,
`?  +  *  {n}  {n,m}` (greedy only), capturing groups, alternation; flags: none or
re.ASCII (`\\d` is [0-9] under re.ASCII and the engine's Unicode decimal digits otherwise).

Also emitted
  * FORMAT_SPEC_h: `_FORMAT_SPEC` with the group bound to `style_spec` in
    `_check_format_spec` (found through the `ast` of the tuple assignment) intersected with
    a parameter [h] — this is how "the style part must be accepted by the style class" is
    composed in coq/model/FmtSpec.v;
  * per style class (BlockImage, KittyImage, ITerm2Image): None if the effective
    `_check_style_format_spec` is BaseImage's (any non-empty style part is an error), else
    the list of field patterns with, for each, the set of its trailing greedy repetition
    (needed to model "the engine's match is the longest one"); the shape restrictions
    under which that model is exact are checked here (see `field_shape`);
  * the class table = coarsest partition of [0, 0x10FFFF] refining every character set of
    the source regexes and every `ranges` definition of coq/model/FmtSpec.v (the documented
    grammar), and two representatives per class for the enumeration;
  * the default alpha threshold as an exact ratio, the engine's decimal-digit ranges and
    the zero of every decimal-digit run (digit values for `int()`).
"""
from __future__ import annotations

import ast
import os
import re
import sys
import unicodedata
import warnings
from pathlib import Path

VERIF = Path(__file__).resolve().parent.parent.parent
sys.path.insert(0, str(VERIF / "harness"))
import core  # noqa: E402

REPO = Path(os.environ.get("VERIF_REPO", "/repo"))
OUT = VERIF / "coq" / "gen" / "Regexes.v"
FMTSPEC_V = VERIF / "coq" / "model" / "FmtSpec.v"
MAXCP = 0x10FFFF
MAXREP = 16


class Refuse(Exception):
    pass


def need(cond, msg):
    if not cond:
        raise Refuse(msg)


# ------------------------------------------------------------------ sets of code points


def norm(rs):
    """Sorted, merged list of inclusive ranges."""
    out = []
    for lo, hi in sorted(rs):
        need(0 <= lo <= hi <= MAXCP, f"bad range {(lo, hi)}")
        if out and lo <= out[-1][1] + 1:
            out[-1] = (out[-1][0], max(out[-1][1], hi))
        else:
            out.append((lo, hi))
    return tuple(out)


_UNICODE_DIGITS = None


def unicode_digits():
    """What `\\d` matches in a str pattern without re.ASCII — asked of the engine itself."""
    global _UNICODE_DIGITS
    if _UNICODE_DIGITS is None:
        m = re.compile(r"\d").match
        cps = [cp for cp in range(MAXCP + 1) if m(chr(cp))]
        _UNICODE_DIGITS = norm([(c, c) for c in cps])
    return _UNICODE_DIGITS


def digit_zeros():
    """Zero of every run of decimal digits; checks that int() of a digit is its offset in
    the run (so that Coq's [digit_val] is Python's)."""
    zeros = []
    for lo, hi in unicode_digits():
        need((hi - lo + 1) % 10 == 0, f"decimal digit run {lo:#x}-{hi:#x} is not a multiple of 10")
        for cp in range(lo, hi + 1):
            v = unicodedata.decimal(chr(cp), None)
            need(v is not None and v == (cp - lo) % 10 and int(chr(cp)) == v,
                 f"decimal digit U+{cp:04X} does not have value (cp - run start) mod 10")
            if v == 0:
                zeros.append(cp)
    return zeros


# ------------------------------------------------------------------ regex -> cre text

import re._constants as C  # noqa: E402
import re._parser as P  # noqa: E402

ALLOWED_FLAGS = re.ASCII | re.UNICODE


class Tx:
    """Translates one parsed pattern; records every character set it meets."""

    def __init__(self, name, pattern: re.Pattern, sets: list, hole_group=None):
        need(isinstance(pattern, re.Pattern), f"{name}: not a compiled pattern object: {pattern!r}")
        need(isinstance(pattern.pattern, str), f"{name}: bytes pattern")
        self.name = name
        self.flags = pattern.flags
        need(self.flags & ~ALLOWED_FLAGS == 0,
             f"{name}: unsupported flags {re.RegexFlag(self.flags & ~ALLOWED_FLAGS)!r}")
        self.ascii = bool(self.flags & re.ASCII)
        self.sets = sets
        self.hole_group = hole_group
        self.hole_seen = 0
        self.tree = P.parse(pattern.pattern, self.flags & re.ASCII)
        need(self.tree.state.flags & ~ALLOWED_FLAGS == 0, f"{name}: inline flags are not supported")
        self.groups = pattern.groups

    # -- sets
    def digits(self):
        return ((48, 57),) if self.ascii else unicode_digits()

    def set_of(self, op, av):
        if op is C.LITERAL:
            return norm([(av, av)])
        if op is C.ANY:
            # no re.DOTALL (flags checked): everything but the line feed
            return norm([(0, 9), (11, MAXCP)])
        if op is C.IN:
            rs = []
            for o, a in av:
                if o is C.LITERAL:
                    rs.append((a, a))
                elif o is C.RANGE:
                    rs.append((a[0], a[1]))
                elif o is C.CATEGORY and a is C.CATEGORY_DIGIT:
                    rs += list(self.digits())
                else:
                    raise Refuse(f"{self.name}: unsupported item in a character class: {o} {a}")
            need(rs, f"{self.name}: empty character class")
            return norm(rs)
        return None

    def emit_set(self, rs):
        if rs not in self.sets:
            self.sets.append(rs)
        return "(CSet " + coq_ranges(rs) + ")"

    # -- expressions
    def seq(self, items):
        parts = [self.item(op, av) for op, av in items]
        return cat(parts)

    def item(self, op, av):
        rs = self.set_of(op, av)
        if rs is not None:
            return self.emit_set(rs)
        if op is C.MAX_REPEAT:
            lo, hi, sub = av
            body = self.seq(sub)
            if hi is C.MAXREPEAT:
                need(lo <= MAXREP, f"{self.name}: repetition count {lo} too large")
                return cat([body] * lo + [f"(CStar {body})"])
            need(lo <= hi <= MAXREP, f"{self.name}: repetition bound {hi} too large")
            return cat([body] * lo + [f"(CAlt CEps {body})"] * (hi - lo))
        if op is C.SUBPATTERN:
            group, add_flags, del_flags, sub = av
            need(not add_flags and not del_flags, f"{self.name}: scoped inline flags")
            body = self.seq(sub)
            if group is not None and group == self.hole_group:
                self.hole_seen += 1
                return f"(CAnd {body} h)"
            return body
        if op is C.BRANCH:
            _, alts = av
            parts = [self.seq(a) for a in alts]
            out = parts[-1]
            for p in reversed(parts[:-1]):
                out = f"(CAlt {p} {out})"
            return out
        raise Refuse(f"{self.name}: unsupported regular-expression construct {op} "
                     f"in pattern {self.tree!r}")

    def top(self):
        return self.seq(self.tree)


def cat(parts):
    parts = [p for p in parts if p != "CEps"]
    if not parts:
        return "CEps"
    out = parts[-1]
    for p in reversed(parts[:-1]):
        out = f"(CCat {p} {out})"
    return out


def coq_ranges(rs):
    return "[" + "; ".join(f"({lo}, {hi})" for lo, hi in rs) + "]"


# --------------------------------------------------- shape of a style field pattern


def field_shape(name, tx: Tx):
    """A field pattern of `_get_style_format_spec` is used with `search` / `match(pos=)`,
    i.e. the *engine's* match counts, not mere membership.  FmtSpec.v models the engine's
    match as the longest one; that is exact when the pattern is

        atom ... atom [ set+ | set* | set{n,} ]      atom ::= set | set?

    where an optional atom is directly followed by a mandatory element whose set is
    disjoint from it (so the optional is decided by one character of look-ahead), at least
    one element is mandatory, and there is no group.  Returns the trailing repeated set
    (or ())."""
    need(tx.groups == 0, f"{name}: groups inside a style field pattern are not modelled")
    items = list(tx.tree)
    need(items, f"{name}: empty pattern")
    elems = []  # (kind, set) kind in {'one','opt','rep0','rep1'}
    for k, (op, av) in enumerate(items):
        rs = tx.set_of(op, av)
        if rs is not None:
            elems.append(("one", rs))
            continue
        need(op is C.MAX_REPEAT, f"{name}: element {op} not of the supported shape")
        lo, hi, sub = av
        need(len(sub) == 1, f"{name}: repetition of a sequence is not of the supported shape")
        rs = tx.set_of(*sub[0])
        need(rs is not None, f"{name}: repetition of a non-set is not of the supported shape")
        if (lo, hi) == (0, 1):
            elems.append(("opt", rs))
        elif hi is C.MAXREPEAT:
            need(k == len(items) - 1, f"{name}: unbounded repetition is only modelled at the end of a field pattern")
            elems.append(("rep1" if lo >= 1 else "rep0", rs))
        else:
            need(lo == hi, f"{name}: bounded repetition {{{lo},{hi}}} is not of the supported shape")
            elems += [("one", rs)] * lo
    need(any(k in ("one", "rep1") for k, _ in elems), f"{name}: pattern can match the empty string")
    for (k1, s1), nxt in zip(elems, elems[1:] + [None]):
        if k1 == "opt":
            need(nxt is not None and nxt[0] in ("one", "rep1"),
                 f"{name}: optional element must be followed by a mandatory one")
            need(not overlaps(s1, nxt[1]), f"{name}: optional element overlaps the element after it")
    last = elems[-1]
    return last[1] if last[0] in ("rep0", "rep1") else ()


def overlaps(a, b):
    return any(lo1 <= hi2 and lo2 <= hi1 for lo1, hi1 in a for lo2, hi2 in b)


# ------------------------------------------------------------------ source structure


def style_spec_group(common_path: Path, ngroups: int):
    """Group number bound to `style_spec` in BaseImage._check_format_spec."""
    tree = ast.parse(common_path.read_text(), filename=str(common_path))
    cls = [n for n in tree.body if isinstance(n, ast.ClassDef) and n.name == "BaseImage"]
    need(len(cls) == 1, "common.py: class BaseImage not found")
    fn = [n for n in cls[0].body if isinstance(n, ast.FunctionDef) and n.name == "_check_format_spec"]
    need(len(fn) == 1, "common.py: BaseImage._check_format_spec not found")
    fn = fn[0]
    names = None
    uses = {"_FORMAT_SPEC": 0, "_NO_VERTICAL_SPEC": 0}
    for n in ast.walk(fn):
        if (isinstance(n, ast.Assign) and len(n.targets) == 1 and isinstance(n.targets[0], ast.Tuple)
                and isinstance(n.value, ast.Call) and isinstance(n.value.func, ast.Attribute)
                and n.value.func.attr == "groups"):
            need(names is None, "_check_format_spec: more than one `.groups()` unpacking")
            need(all(isinstance(e, ast.Name) for e in n.targets[0].elts), "_check_format_spec: odd unpacking target")
            names = [e.id for e in n.targets[0].elts]
        if (isinstance(n, ast.Call) and isinstance(n.func, ast.Attribute) and isinstance(n.func.value, ast.Name)
                and n.func.value.id in uses):
            need(n.func.attr == "fullmatch", f"_check_format_spec: {n.func.value.id}.{n.func.attr} (fullmatch expected)")
            uses[n.func.value.id] += 1
    need(names is not None, "_check_format_spec: `(...) = match_.groups()` not found")
    need(uses == {"_FORMAT_SPEC": 1, "_NO_VERTICAL_SPEC": 1},
         f"_check_format_spec: expected one fullmatch of each regex, found {uses}")
    need(len(names) == ngroups, f"_check_format_spec unpacks {len(names)} groups, _FORMAT_SPEC has {ngroups}")
    expected = ["h_align", "width", "v_align", "height", "alpha", "threshold_or_bg", "style_spec"]
    got = [n for n in names if n != "_"]
    need(got == expected, f"_check_format_spec: group names {got} (the field model of FmtSpec.v expects {expected})")
    return names.index("style_spec") + 1, names


EXPECTED_STYLE_FIELDS = {
    "KittyImage": ["method", "z_index", "mix", "compress"],
    "ITerm2Image": ["method", "mix", "compress"],
}


def style_info(cls, base):
    """None if the effective _check_style_format_spec is BaseImage's; else the field
    pattern tuple, after checking the call chain assumed by the model (own method parses
    with BaseImage._get_style_format_spec and hands a non-empty parent to BaseImage)."""
    definers = [k for k in cls.__mro__ if "_check_style_format_spec" in vars(k)]
    need(definers and definers[-1] is base, f"{cls.__name__}: BaseImage does not end the _check_style_format_spec chain")
    if definers[0] is base:
        return None
    need(definers == [cls, base],
         f"{cls.__name__}: _check_style_format_spec chain is {[k.__name__ for k in definers]}; the model "
         "assumes [the class itself, BaseImage] (parent portion must then be empty)")
    getters = [k for k in cls.__mro__ if "_get_style_format_spec" in vars(k)]
    need(getters == [base], f"{cls.__name__}: _get_style_format_spec overridden")
    # field names, from the unpacking in the class's own method
    import inspect
    import textwrap
    src = textwrap.dedent(inspect.getsource(vars(cls)["_check_style_format_spec"].__func__))
    fn = ast.parse(src).body[0]
    names = None
    for n in ast.walk(fn):
        if (isinstance(n, ast.Assign) and len(n.targets) == 1 and isinstance(n.targets[0], ast.Tuple)
                and len(n.targets[0].elts) == 2 and isinstance(n.targets[0].elts[1], ast.Tuple)
                and isinstance(n.value, ast.Call) and isinstance(n.value.func, ast.Attribute)
                and n.value.func.attr == "_get_style_format_spec"):
            names = [e.id for e in n.targets[0].elts[1].elts]
    need(names is not None, f"{cls.__name__}._check_style_format_spec: field unpacking not found")
    need(names == EXPECTED_STYLE_FIELDS.get(cls.__name__),
         f"{cls.__name__}: style fields {names}; the interpretation model of FmtSpec.v expects "
         f"{EXPECTED_STYLE_FIELDS.get(cls.__name__)}")
    pats = cls._FORMAT_SPEC
    need(isinstance(pats, tuple) and len(pats) == len(names), f"{cls.__name__}._FORMAT_SPEC: {len(pats)} patterns for {len(names)} fields")
    return pats


# ------------------------------------------------------------------ documented sets


def doc_sets():
    """Every `Definition <name> : ranges := [...]` of coq/model/FmtSpec.v (the documented
    grammar's character sets).  A set missed here only makes the Coq-side check fail."""
    need(FMTSPEC_V.is_file(), f"{FMTSPEC_V} missing")
    txt = core.strip_comments(FMTSPEC_V.read_text())
    out = []
    for m in re.finditer(r"Definition\s+(\w+)\s*:\s*ranges\s*:=\s*(.*?)\.\s", txt, flags=re.S):
        body = m.group(2).strip()
        if re.fullmatch(r"[A-Z_a-z0-9]+", body):  # alias of a generated set
            continue
        need(re.fullmatch(r"\[\s*(\(\s*\d+\s*,\s*\d+\s*\)\s*;?\s*)*\]", body), f"FmtSpec.v: cannot read ranges {m.group(1)} := {body[:60]}")
        rs = [(int(a), int(b)) for a, b in re.findall(r"\(\s*(\d+)\s*,\s*(\d+)\s*\)", body)]
        out.append(norm(rs))
    need(out, "FmtSpec.v: no `ranges` definition found")
    return out


# ------------------------------------------------------------------ class table


def partition(sets):
    cuts = {0, MAXCP + 1}
    for rs in sets:
        for lo, hi in rs:
            cuts.add(lo)
            cuts.add(hi + 1)
    cuts = sorted(cuts)
    sig_class, table = {}, []
    for lo, nxt in zip(cuts, cuts[1:]):
        sig = tuple(any(a <= lo <= b for a, b in rs) for rs in sets)
        c = sig_class.setdefault(sig, len(sig_class))
        if table and table[-1][2] == c:
            table[-1] = (table[-1][0], nxt - 1, c)
        else:
            table.append((lo, nxt - 1, c))
    return table, len(sig_class)


def representatives(table, ncls):
    """[first, second?] per class.  first: the smallest printable-ASCII member, else the
    smallest member; second (classes with more than one member): the largest member.
    Never a surrogate."""
    reps = []
    for c in range(ncls):
        ivs = [(lo, hi) for lo, hi, k in table if k == c]

        def member(cp):
            return any(lo <= cp <= hi for lo, hi in ivs)

        def usable(cp):
            return not 0xD800 <= cp <= 0xDFFF

        first = next((cp for cp in range(33, 127) if member(cp)), None)
        if first is None:
            first = next((cp for lo, hi in ivs for cp in range(lo, min(hi, lo + 0x900) + 1) if usable(cp)), None)
        need(first is not None, f"class {c} has no usable representative")
        r = [first]
        second = next((cp for lo, hi in ivs[::-1] for cp in range(hi, max(lo, hi - 0x900) - 1, -1)
                       if usable(cp) and cp != first), None)
        if second is not None:
            r.append(second)
        reps.append(r)
    return reps


# ------------------------------------------------------------------ main


def translate_source(common, classes):
    sets: list = []
    fmt = common._FORMAT_SPEC
    hole, group_names = style_spec_group(REPO / "src/term_image/image/common.py", fmt.groups)
    t_fmt = Tx("_FORMAT_SPEC", fmt, sets)
    FORMAT = t_fmt.top()
    t_fmt_h = Tx("_FORMAT_SPEC", fmt, sets, hole_group=hole)
    FORMAT_H = t_fmt_h.top()
    need(t_fmt_h.hole_seen == 1, f"_FORMAT_SPEC: group {hole} (style_spec) occurs {t_fmt_h.hole_seen} times")
    t_nov = Tx("_NO_VERTICAL_SPEC", common._NO_VERTICAL_SPEC, sets)
    NOVERT = t_nov.top()
    t_abg = Tx("_ALPHA_BG_FORMAT", common._ALPHA_BG_FORMAT, sets)
    ALPHABG = t_abg.top()

    styles = {}
    for cls in classes:
        pats = style_info(cls, common.BaseImage)
        if pats is None:
            styles[cls.__name__] = None
            continue
        fields = []
        for k, pat in enumerate(pats):
            nm = f"{cls.__name__}._FORMAT_SPEC[{k}]"
            tx = Tx(nm, pat, sets)
            tail = field_shape(nm, tx)
            if tail and tail not in sets:
                sets.append(tail)
            fields.append((tx.top(), tail, pat.pattern, pat.flags))
        styles[cls.__name__] = fields
    return {"sets": sets, "FORMAT": FORMAT, "FORMAT_H": FORMAT_H, "NOVERT": NOVERT, "ALPHABG": ALPHABG,
            "styles": styles, "hole": hole, "group_names": group_names,
            "patterns": [("_FORMAT_SPEC", fmt), ("_NO_VERTICAL_SPEC", common._NO_VERTICAL_SPEC),
                         ("_ALPHA_BG_FORMAT", common._ALPHA_BG_FORMAT)]}


def main():
    warnings.simplefilter("ignore")
    for p in (str(REPO / "src"),):
        if p in sys.path:
            sys.path.remove(p)
        sys.path.insert(0, p)
    import term_image
    need(Path(term_image.__file__).resolve().is_relative_to((REPO / "src").resolve()),
         f"term_image imported from {term_image.__file__}, not from {REPO}/src")
    from term_image.image import BlockImage, ITerm2Image, KittyImage
    from term_image.image import common

    refused = None
    try:
        src = translate_source(common, (BlockImage, KittyImage, ITerm2Image))
    except Refuse as e:
        # Fail closed, but keep the documentation side alive: the implementation's
        # expressions become the empty language (no equivalence theorem can hold), the
        # class table still refines the documented sets, so that the correspondence can
        # judge the real format() against the documented grammar and find a failing input.
        refused = str(e)
        src = {"sets": [], "FORMAT": "CEmp", "FORMAT_H": "CEmp", "NOVERT": "CEmp", "ALPHABG": "CEmp",
               "styles": {"BlockImage": None, "KittyImage": None, "ITerm2Image": None},
               "hole": 0, "group_names": [], "patterns": []}
    sets, FORMAT, FORMAT_H, NOVERT, ALPHABG = src["sets"], src["FORMAT"], src["FORMAT_H"], src["NOVERT"], src["ALPHABG"]
    styles, hole, group_names = src["styles"], src["hole"], src["group_names"]

    thr = common._ALPHA_THRESHOLD
    need(isinstance(thr, float) and 0.0 <= thr < 1.0, f"_ALPHA_THRESHOLD = {thr!r}")
    thr_num, thr_den = thr.as_integer_ratio()

    nd = unicode_digits()
    zeros = digit_zeros()
    all_sets = list(sets)
    for rs in doc_sets() + [nd]:
        if rs not in all_sets:
            all_sets.append(rs)
    table, ncls = partition(all_sets)
    need(ncls <= 60, f"{ncls} character classes")
    reps = representatives(table, ncls)

    def flagname(f):
        return "re.ASCII" if f & re.ASCII else "(none)"

    L = []
    A = L.append
    A("(** GENERATED by harness/tx/tx_regex.py from the working tree of the library")
    A("    (src/term_image/image/common.py, kitty.py, iterm2.py) — do not edit; regenerated")
    A("    by every check run and by setup.sh.")
    A("")
    if refused:
        A("    *** THE TRANSLATOR REFUSED THE CURRENT SOURCE: " + coq_comment(refused))
        A("    *** the implementation's expressions below are stubs (empty language)")
    for nm, p in src["patterns"]:
        A(f"    {nm} = {coq_comment(p.pattern)}   flags {flagname(p.flags)}")
    A(f"    groups of _FORMAT_SPEC as unpacked by _check_format_spec: {', '.join(group_names)}")
    for nm, fs in styles.items():
        if fs is None:
            A(f"    {nm}: no style-specific specifier (BaseImage._check_style_format_spec)")
        else:
            A(f"    {nm}._FORMAT_SPEC = " + "  ".join(coq_comment(f[2]) + f" [{flagname(f[3])}]" for f in fs))
    A("*)")
    A("From Coq Require Import List NArith ZArith.")
    A("Import ListNotations.")
    A("From TI Require Import lib.Re lib.CRe.")
    A("Local Open Scope N_scope.")
    A("")
    A(f"Definition translation_refused : bool := {'true' if refused else 'false'}.")
    A("")
    A(f"Definition FORMAT_SPEC : cre :=\n  {FORMAT}.")
    A("")
    A(f"(** the same with the group bound to [style_spec] (group {hole}) intersected with [h] *)")
    A(f"Definition FORMAT_SPEC_h (h : cre) : cre :=\n  {FORMAT_H}.")
    A("")
    A(f"Definition NO_VERTICAL_SPEC : cre :=\n  {NOVERT}.")
    A("")
    A(f"Definition ALPHA_BG_FORMAT : cre :=\n  {ALPHABG}.")
    A("")
    A("(** style field patterns: (pattern, set of its trailing greedy repetition or []) *)")
    for nm, fs in styles.items():
        ident = nm.upper().replace("IMAGE", "") + "_STYLE"
        if fs is None:
            A(f"Definition {ident} : option (list (cre * ranges)) := None.")
        else:
            body = ";\n    ".join(f"({f[0]}, {coq_ranges(f[1])})" for f in fs)
            A(f"Definition {ident} : option (list (cre * ranges)) := Some\n  [ {body} ].")
    A("")
    A("(** the engine's decimal digits ([\\d] without re.ASCII = what int() accepts) *)")
    A(f"Definition UNICODE_DIGITS : ranges :=\n  {coq_ranges(nd)}.")
    A("(** the zero of every run of decimal digits, descending *)")
    A("Definition DIGIT_ZEROS : list N :=\n  [" + "; ".join(str(z) for z in sorted(zeros, reverse=True)) + "].")
    A("")
    A("(** _ALPHA_THRESHOLD as an exact ratio *)")
    A(f"Definition ALPHA_THRESHOLD_num : Z := {thr_num}%Z.")
    A(f"Definition ALPHA_THRESHOLD_den : Z := {thr_den}%Z.")
    A("")
    A(f"(** class table: coarsest partition of [0, {MAXCP}] refining the {len(all_sets)} sets above and in FmtSpec.v;")
    A("    untrusted — re-checked by [CRe.cover_ok] / [CRe.mask_of] *)")
    A(f"Definition ncls : nat := {ncls}%nat.")
    A("Definition class_table : table :=\n  [ " + ";\n    ".join(f"({lo}, {hi}, {c}%nat)" for lo, hi, c in table) + " ].")
    A("")
    A("(** representatives used by the enumeration (harness only) *)")
    A("Definition class_reps : list (list N) :=\n  [ " + "; ".join("[" + "; ".join(map(str, r)) + "]" for r in reps) + " ].")
    A("")
    core.write_if_changed(OUT, "\n".join(L))
    if refused:
        raise Refuse(refused)


def coq_comment(s):
    return repr(s).replace("(*", "( *").replace("*)", "* )")


if __name__ == "__main__":
    try:
        main()
    except Refuse as e:
        # (the generated file already carries the stubs; if the refusal happened before it
        # could be written, make sure that no stale translation keeps the theorems alive)
        if not (OUT.exists() and "translation_refused : bool := true" in OUT.read_text()):
            core.write_if_changed(OUT, "(* tx_regex.py REFUSED the current source: " + coq_comment(str(e)) + " *)\n"
                                  "Definition translation_refused : False := the_source_is_outside_the_supported_subset.\n")
        print(f"tx_regex: REFUSED: {e}")
        sys.exit(1)
    except Exception as e:  # cannot even import / inspect the source
        core.write_if_changed(OUT, "(* tx_regex.py FAILED on the current source: " + coq_comment(repr(e)) + " *)\n"
                              "Definition translation_failed : False := the_source_could_not_be_read.\n")
        raise
