#!/venv/bin/python
"""tx_sizing.py — fail-closed translator: `BaseImage._valid_size` and `_width_height_px`
(image/common.py), `GraphicsImage._pixel_ratio`, `TextImage._pixel_ratio` and
`term_image.get_cell_ratio` -> /verif/coq/gen/SizingSrc.v, Gallina over the float interface
`FloatArith` (lib/FArith.v), regenerated on every check run.

`proofs/SizingSrcTie.v` proves, FOR ALL ARGUMENTS inside the API's domain and for every float
arithmetic FA, that the translated function equals the hand-written model `Sizing.valid_size`
the C04 theorems are stated about.  So the tie of the sizing *algorithm* to the source is a
theorem about what the source says now; what remains for the correspondence is that CPython's
float operations are the FPrim instance (bit-exactness, checked on every case).

Typed subset (anything else -> refusal = broken obligation).  Types: Z (Python int), F (Python
float), bool, dim (the `width` / `height` arguments: None | int | Size member).
  statements   assignments (also chained, also tuple targets from a `map(lambda ...)` over two
               known pairs), if / elif / else (joined by duplicating the continuation, so a name
               may change type along one path), return, docstrings, declared bindings
  expressions  int literals, integral float literals (-> ofZ), names, * and / on floats (ints are
               converted with ofZ; `/` on two ints is a float division), + - * on ints,
               comparisons on ints or on floats, and / or / not, `e or <int>`, min / max on ints,
               min on floats, round(float), conditional expressions, tuples of ints,
               `isinstance(x, int)`, `x is None`, `Size.M`, `Size.M in (width, height)`,
               `all(<e> for x in (a, b))`, `self._pixel_ratio`, `self._pixels_cols/_lines(k=e)`,
               `self._width_height_px(w=e | h=e)`
Semantics relied upon: Python int = Z; float operations = the FloatArith record's; `min(a, b)`
returns b if b < a else a; an int operand of a float operation is converted exactly (below 2^53:
the conversion, and `round` of an int-valued min() result, are the model's ofZ / fround);
evaluation order is irrelevant (no side effects in the subset).
"""
from __future__ import annotations

import ast
import copy
import os
import sys
from pathlib import Path

sys.path.insert(0, str(Path(__file__).resolve().parent))
from tx_pure import Refuse, Tr, V, find_class, find_method, need, parse  # noqa: E402

VERIF = Path(__file__).resolve().parent.parent.parent
OUT = VERIF / "coq" / "gen" / "SizingSrc.v"

SIZE_MEMBERS = ("AUTO", "FIT", "FIT_TO_WIDTH", "ORIGINAL")
METHODS = {  # (method, keyword) -> section variable (Z -> Z)
    ("_pixels_cols", "cols"): "px_of_cols",
    ("_pixels_cols", "pixels"): "cols_of_px",
    ("_pixels_lines", "lines"): "px_of_lines",
    ("_pixels_lines", "pixels"): "lines_of_px",
}


class Subst(ast.NodeTransformer):
    def __init__(self, mapping):
        self.mapping = mapping

    def visit_Name(self, node):
        if node.id in self.mapping:
            return copy.deepcopy(self.mapping[node.id])
        return node


class TrF(Tr):
    """typed translator: Z | F | bool | dim"""

    def __init__(self, fname, bindings, pairs=None, whpx=True):
        super().__init__(fname, {}, bindings)
        self.pairs = pairs or {}  # unparse(expr) -> (term0, term1) of type Z
        self.whpx = whpx

    def toF(self, t, ty):
        if ty == "F":
            return t
        need(ty == "Z", f"{self.fname}: {ty} used as a float")
        return f"(ofZ {t})"

    def toZ(self, t, ty, what):
        if ty == "Z":
            return t
        need(ty == "dim", f"{self.fname}: {ty} used as an integer in {what}")
        return f"(dim_z {t})"

    def expr(self, e, env):
        src = ast.unparse(e)
        if isinstance(e, ast.Constant) and isinstance(e.value, float):
            need(e.value == int(e.value) and abs(e.value) < 2 ** 53, f"{self.fname}: float literal {e.value!r}")
            return f"(ofZ {int(e.value)})", "F"
        if isinstance(e, ast.Constant) and e.value is None:
            return "DNone", "dim"
        if isinstance(e, ast.Attribute) and isinstance(e.value, ast.Name):
            if e.value.id == "Size":
                need(e.attr in SIZE_MEMBERS, f"{self.fname}: unknown Size member {e.attr}")
                return f"(DSize {e.attr})", "dim"
            if e.value.id == "self" and e.attr == "_pixel_ratio":
                return "pixel_ratio", "F"
        if isinstance(e, ast.BinOp):
            a, ta = self.expr(e.left, env)
            b, tb = self.expr(e.right, env)
            if isinstance(e.op, ast.Div):
                return f"(fdiv {self.toF(a, ta)} {self.toF(b, tb)})", "F"
            if "F" in (ta, tb):
                need(isinstance(e.op, ast.Mult), f"{self.fname}: float operator {type(e.op).__name__} in `{src}`")
                return f"(fmul {self.toF(a, ta)} {self.toF(b, tb)})", "F"
            return super().expr(e, env)
        if isinstance(e, ast.Compare):
            if len(e.ops) == 1 and isinstance(e.ops[0], (ast.Is, ast.IsNot)) \
                    and isinstance(e.comparators[0], ast.Constant) and e.comparators[0].value is None:
                a, ta = self.expr(e.left, env)
                need(ta == "dim", f"{self.fname}: `is None` on {ta} in `{src}`")
                t = f"(is_none {a})"
                return (t if isinstance(e.ops[0], ast.Is) else f"(negb {t})"), "bool"
            if len(e.ops) == 1 and isinstance(e.ops[0], ast.In):
                a, ta = self.expr(e.left, env)
                c = e.comparators[0]
                need(ta == "dim" and a.startswith("(DSize ") and isinstance(c, ast.Tuple) and len(c.elts) == 2,
                     f"{self.fname}: membership test `{src}`")
                x, tx = self.expr(c.elts[0], env)
                y, ty = self.expr(c.elts[1], env)
                need(tx == "dim" and ty == "dim", f"{self.fname}: membership among non-dims `{src}`")
                return f"(has {a[len('(DSize '):-1]} {x} {y})", "bool"
            terms = [self.expr(x, env) for x in [e.left] + e.comparators]
            if any(t == "F" for _, t in terms):
                need(len(e.ops) == 1, f"{self.fname}: float comparison chain `{src}`")
                a, b = (self.toF(*terms[0]), self.toF(*terms[1]))
                op = e.ops[0]
                if isinstance(op, ast.Lt):
                    return f"(fltb {a} {b})", "bool"
                if isinstance(op, ast.Gt):
                    return f"(fltb {b} {a})", "bool"
                if isinstance(op, ast.LtE):
                    return f"(fleb {a} {b})", "bool"
                if isinstance(op, ast.GtE):
                    return f"(fleb {b} {a})", "bool"
                raise Refuse(f"{self.fname}: float comparison {type(op).__name__} in `{src}`")
            return super().expr(e, env)
        if isinstance(e, ast.BoolOp) and isinstance(e.op, ast.Or) and len(e.values) == 2:
            a, ta = self.expr(e.values[0], env)
            b, tb = self.expr(e.values[1], env)
            if ta == "dim" and tb == "Z":
                # `width or 1` where width is still the argument: an int inside the API's domain
                return f"(let o_ := (dim_z {a}) in if o_ =? 0 then {b} else o_)", "Z"
            return super().expr(e, env)
        if isinstance(e, ast.IfExp):
            c, tc = self.expr(e.test, env)
            need(tc == "bool", f"{self.fname}: non-boolean condition `{ast.unparse(e.test)}`")
            a, ta = self.expr(e.body, env)
            b, tb = self.expr(e.orelse, env)
            if ta != tb and {ta, tb} == {"Z", "F"}:
                a, b, ta = self.toF(a, ta), self.toF(b, tb), "F"
                tb = "F"
            need(ta == tb, f"{self.fname}: branches of `{src}` differ in type")
            return f"(if {c} then {a} else {b})", ta
        if isinstance(e, ast.Call):
            f = e.func
            if isinstance(f, ast.Name) and f.id == "isinstance" and len(e.args) == 2 and not e.keywords:
                need(ast.unparse(e.args[1]) == "int", f"{self.fname}: isinstance against `{ast.unparse(e.args[1])}`")
                a, ta = self.expr(e.args[0], env)
                need(ta == "dim", f"{self.fname}: isinstance on {ta}")
                return f"(is_int {a})", "bool"
            if isinstance(f, ast.Name) and f.id in ("all", "any") and len(e.args) == 1 \
                    and isinstance(e.args[0], ast.GeneratorExp) and not e.keywords:
                g = e.args[0]
                need(len(g.generators) == 1 and not g.generators[0].ifs and isinstance(g.generators[0].target, ast.Name)
                     and isinstance(g.generators[0].iter, ast.Tuple) and g.generators[0].iter.elts,
                     f"{self.fname}: generator `{src}`")
                var = g.generators[0].target.id
                parts = []
                for elt in g.generators[0].iter.elts:
                    inst = Subst({var: elt}).visit(copy.deepcopy(g.elt))
                    ast.fix_missing_locations(inst)
                    t, ty = self.expr(inst, env)
                    need(ty == "bool", f"{self.fname}: non-boolean element in `{src}`")
                    parts.append(t)
                return "(" + (" && " if f.id == "all" else " || ").join(parts) + ")", "bool"
            if isinstance(f, ast.Name) and f.id == "round" and len(e.args) == 1 and not e.keywords:
                a, ta = self.expr(e.args[0], env)
                need(ta == "F", f"{self.fname}: round of {ta} in `{src}`")
                return f"(fround {a})", "Z"
            if isinstance(f, ast.Name) and f.id == "min" and len(e.args) == 2 and not e.keywords:
                a, ta = self.expr(e.args[0], env)
                b, tb = self.expr(e.args[1], env)
                if "F" in (ta, tb):
                    return f"(fmin {self.toF(a, ta)} {self.toF(b, tb)})", "F"
                return super().expr(e, env)
            if isinstance(f, ast.Attribute) and isinstance(f.value, ast.Name) and f.value.id == "self" \
                    and not e.args and len(e.keywords) == 1:
                kw = e.keywords[0]
                if (f.attr, kw.arg) in METHODS:
                    a, ta = self.expr(kw.value, env)
                    return f"({METHODS[(f.attr, kw.arg)]} {self.toZ(a, ta, src)})", "Z"
                if f.attr == "_width_height_px" and kw.arg in ("w", "h") and self.whpx:
                    a, ta = self.expr(kw.value, env)
                    return f"(src_width_height_px_{kw.arg} {self.toZ(a, ta, src)})", "F"
        return super().expr(e, env)

    def block(self, stmts, env, tail, ind):
        pad = "  " * ind
        if stmts:
            s, rest = stmts[0], stmts[1:]
            src = ast.unparse(s)
            # columns, lines = map(lambda a, b: body, PAIR1, PAIR2)
            if isinstance(s, ast.Assign) and len(s.targets) == 1 and isinstance(s.targets[0], ast.Tuple) \
                    and isinstance(s.value, ast.Call) and isinstance(s.value.func, ast.Name) \
                    and s.value.func.id == "map" and src not in self.bindings:
                names = s.targets[0].elts
                c = s.value
                need(len(names) == 2 and all(isinstance(n, ast.Name) for n in names) and len(c.args) == 3
                     and isinstance(c.args[0], ast.Lambda) and not c.keywords, f"{self.fname}: map form `{src}`")
                lam = c.args[0]
                largs = [a.arg for a in lam.args.args]
                need(len(largs) == 2 and not lam.args.defaults and not lam.args.vararg and not lam.args.kwarg,
                     f"{self.fname}: lambda parameters in `{src}`")
                ps = []
                for a in c.args[1:]:
                    need(ast.unparse(a) in self.pairs, f"{self.fname}: map over an unknown pair `{ast.unparse(a)}`")
                    ps.append(self.pairs[ast.unparse(a)])
                lines, env2 = "", dict(env)
                for i, n in enumerate(names):
                    envl = dict(env)
                    envl[largs[0]] = "Z"
                    envl[largs[1]] = "Z"
                    body, tb = self.expr(lam.body, envl)
                    need(tb == "Z", f"{self.fname}: lambda body of type {tb}")
                    lines += (f"{pad}let {V(n.id)} := (let {V(largs[0])} := {ps[0][i]} in "
                              f"let {V(largs[1])} := {ps[1][i]} in {body}) in\n")
                    env2[n.id] = "Z"
                return lines + self.block(rest, env2, tail, ind)
            if isinstance(s, ast.Assign) and all(isinstance(t, ast.Name) for t in s.targets) \
                    and src not in self.bindings:
                t, ty = self.expr(s.value, env)
                need(ty in ("Z", "bool", "F", "dim"), f"{self.fname}: assignment of {ty} `{src}`")
                env2 = dict(env)
                first = s.targets[0].id
                lines = f"{pad}let {V(first)} := {t} in\n"
                env2[first] = ty
                for other in s.targets[1:]:
                    lines += f"{pad}let {V(other.id)} := {V(first)} in\n"
                    env2[other.id] = ty
                return lines + self.block(rest, env2, tail, ind)
            if isinstance(s, ast.If) and not (self.terminates(s.body) and self.terminates(s.orelse)):
                # join by duplicating the continuation (a name may change type along one path)
                c, tc = self.expr(s.test, env)
                need(tc == "bool", f"{self.fname}: non-boolean condition `{ast.unparse(s.test)}`")
                need(rest or tail is not None, f"{self.fname}: control falls off the end after line {s.lineno}")
                tb = list(s.body) + ([] if self.terminates(s.body) else rest)
                to = list(s.orelse) + ([] if self.terminates(s.orelse) else rest)
                return (f"{pad}if {c} then\n" + self.block(tb, env, tail, ind + 1) + f"\n{pad}else\n"
                        + self.block(to, env, tail, ind + 1))
        return super().block(stmts, env, tail, ind)


def fn_body(fn):
    return [s for s in fn.body if not (isinstance(s, ast.Expr) and isinstance(s.value, ast.Constant))]


def main():
    com = parse("src/term_image/image/common.py")
    base = find_class(com, "BaseImage")
    out = ["(** GENERATED by harness/tx/tx_sizing.py from the working tree of the repository —\n"
           "    do not edit.  Regenerated (and rewritten only if changed) on every check run.\n"
           "    Python int = Z; Python float = F FA with the operations of the FloatArith record. *)\n"
           "From Coq Require Import ZArith Bool.\nFrom TI Require Import lib.FArith model.Sizing.\n"
           "Open Scope Z_scope.\nOpen Scope bool_scope.\n\n"
           "(** an argument that the API's domain guarantees to be an int, read as one *)\n"
           "Definition dim_z (d : dim) : Z := match d with DInt z => z | _ => 0 end.\n\n"
           "Section Src.\nContext {FA : FloatArith}.\n"
           "(** the style family's unit conversions and pixel ratio (self._pixels_cols(cols=), (pixels=),\n"
           "    self._pixels_lines(lines=), (pixels=), self._pixel_ratio), the source size and the terminal size *)\n"
           "Variables (px_of_cols cols_of_px px_of_lines lines_of_px : Z -> Z) (pixel_ratio : F FA).\n"
           "Variables (v_ori_width v_ori_height v_term_cols v_term_lines : Z).\n"]

    # ---- _width_height_px: one conditional-expression return
    fn = find_method(base, "_width_height_px")
    need([a.arg for a in fn.args.kwonlyargs] == ["w", "h"] and [a.arg for a in fn.args.args] == ["self"],
         "_width_height_px: parameter list changed")
    st = fn_body(fn)
    need(len(st) == 2 and ast.unparse(st[0]) == "ori_width, ori_height = self._original_size"
         and isinstance(st[1], ast.Return) and isinstance(st[1].value, ast.IfExp)
         and ast.unparse(st[1].value.test) == "w is not None", "_width_height_px: shape changed")
    for which, e in (("w", st[1].value.body), ("h", st[1].value.orelse)):
        tr = TrF(f"src_width_height_px_{which}", {}, whpx=False)
        t, ty = tr.expr(e, {which: "Z", "ori_width": "Z", "ori_height": "Z"})
        need(ty == "F", f"_width_height_px: {which}= branch has type {ty}")
        out.append(f"(** image/common.py: BaseImage._width_height_px, {which}= branch *)\n"
                   f"Definition src_width_height_px_{which} ({V(which)} : Z) : F FA :=\n  {t}.\n")

    # ---- _valid_size
    fn = find_method(base, "_valid_size")
    need([a.arg for a in fn.args.args] == ["self", "width", "height", "frame_size"] and not fn.args.kwonlyargs,
         "_valid_size: parameter list changed")
    need([ast.unparse(d) for d in fn.args.defaults] == ["None", "None", "(0, -2)"], "_valid_size: defaults changed")
    bind = {"ori_width, ori_height = self._original_size": {"ori_width": "Z", "ori_height": "Z"}}
    tr = TrF("src_valid_size", bind,
             pairs={"frame_size": ("v_frame0", "v_frame1"), "get_terminal_size()": ("v_term_cols", "v_term_lines")})
    env = {"width": "dim", "height": "dim"}
    term = tr.block(list(fn.body), env, None, 1)
    need(set(bind) <= tr.used_bindings, "_valid_size: `ori_width, ori_height = self._original_size` not found")
    out.append("(** image/common.py: BaseImage._valid_size(width, height, frame_size) *)\n"
               "Definition src_valid_size (v_width v_height : dim) (v_frame0 v_frame1 : Z) : Z * Z :=\n"
               + term + ".\n")
    out.append("Definition src_default_frame : Z * Z := (0, -2).\n")
    out.append("End Src.\n")

    # ---- pixel ratios and the cell ratio
    gi = find_class(com, "GraphicsImage")
    pr = [s for s in gi.body if isinstance(s, ast.AnnAssign) and isinstance(s.target, ast.Name)
          and s.target.id == "_pixel_ratio"]
    need(len(pr) == 1 and pr[0].value is not None, "GraphicsImage._pixel_ratio: class attribute not found")
    t, ty = TrF("graphics_pixel_ratio", {}).expr(pr[0].value, {})
    need(ty == "F", "GraphicsImage._pixel_ratio: not a float")
    out.append("(** image/common.py: GraphicsImage._pixel_ratio *)\n"
               f"Definition src_graphics_pixel_ratio {{FA : FloatArith}} : F FA := {t}.\n")
    ti = find_class(com, "TextImage")
    pr = [s for s in ti.body if isinstance(s, ast.Assign) and len(s.targets) == 1
          and isinstance(s.targets[0], ast.Name) and s.targets[0].id == "_pixel_ratio"]
    need(len(pr) == 1 and isinstance(pr[0].value, ast.Call) and ast.unparse(pr[0].value.func) == "property"
         and len(pr[0].value.args) == 1 and isinstance(pr[0].value.args[0], ast.Lambda)
         and len(pr[0].value.args[0].args.args) == 1, "TextImage._pixel_ratio: not `property(lambda _: ...)`")
    body = pr[0].value.args[0].body
    body = Subst({}).visit(copy.deepcopy(body))

    class CR(ast.NodeTransformer):
        def visit_Call(self, node):
            if ast.unparse(node) == "get_cell_ratio()":
                return ast.Name(id="cell_ratio", ctx=ast.Load())
            return self.generic_visit(node)
    body = CR().visit(body)
    ast.fix_missing_locations(body)
    t, ty = TrF("text_pixel_ratio", {}).expr(body, {"cell_ratio": "F"})
    need(ty == "F", "TextImage._pixel_ratio: not a float")
    out.append("(** image/common.py: TextImage._pixel_ratio (cell_ratio = get_cell_ratio()) *)\n"
               f"Definition src_text_pixel_ratio {{FA : FloatArith}} (v_cell_ratio : F FA) : F FA := {t}.\n")
    ini = parse("src/term_image/__init__.py")
    fs = [n for n in ini.body if isinstance(n, ast.FunctionDef) and n.name == "get_cell_ratio"]
    need(len(fs) == 1, "get_cell_ratio: expected one definition")
    st = fn_body(fs[0])
    need(len(st) == 1 and isinstance(st[0], ast.Return)
         and ast.unparse(st[0].value) == "_cell_ratio or truediv(*(get_cell_size() or (1, 2)))",
         f"get_cell_ratio: body changed: `{ast.unparse(st[0]) if st else ''}`")
    out.append("(** __init__.py: get_cell_ratio = `_cell_ratio or truediv(<unpacked> get_cell_size() or (1, 2))`\n"
               "    (matched verbatim; `_cell_ratio` is None for DYNAMIC, a positive float otherwise;\n"
               "    get_cell_size() is None when the terminal does not answer) *)\n"
               "Definition src_get_cell_ratio {FA : FloatArith} (ratio : option (F FA)) (cell : option (Z * Z)) : F FA :=\n"
               "  match ratio with\n  | Some r => r\n"
               "  | None => let '(cw, ch) := match cell with Some c => c | None => (1, 2) end in fdiv (ofZ cw) (ofZ ch)\n"
               "  end.\n")

    text = "\n".join(out)
    if not OUT.exists() or OUT.read_text() != text:
        OUT.parent.mkdir(parents=True, exist_ok=True)
        OUT.write_text(text)


if __name__ == "__main__":
    try:
        main()
    except Refuse as e:
        print(f"tx_sizing: REFUSED: {e}")
        OUT.write_text(f"(* tx_sizing refused the current source: {str(e).replace('*)', '* )')} *)\n"
                       "Definition refused : True := I I.\n")
        sys.exit(1)
