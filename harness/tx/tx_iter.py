#!/venv/bin/python
"""tx_iter.py — fail-closed translator: `RenderIterator.seek` (render/_iterator.py) ->
/verif/coq/gen/IterSrc.v, regenerated on every check run.

`proofs/IterSrcTie.v` proves, FOR ALL ARGUMENTS and states, that the model's `Iter.seek` (the
function the C08 refinement theorems are about) does exactly what the translated statement list
says: which exception (finalized / out of range) or which update of (frame_offset, seek_whence).

Subset: `if <cond>: raise <Exc>(...)` (Exc in {FinalizedIteratorError -> SFinalized, the
`arg_value_error_range(...)` helper -> SValue}), `name = expr`, if / else,
`if frame_count is FrameCount.INDEFINITE: ... else: ...` (-> match on `option Z`), and a final
`renderable_data.update(frame_offset=e1, seek_whence=e2)`; expressions of tx_pure plus
`whence is Seek.X`, `Seek.X`, `renderable_data.frame_offset`, `self._closed`.  Error messages
(the arguments of the exception constructors) are not modelled.
"""
from __future__ import annotations

import ast
import os
import sys
from pathlib import Path

sys.path.insert(0, str(Path(__file__).resolve().parent))
from tx_pure import Refuse, Tr, V, find_class, need, parse  # noqa: E402

VERIF = Path(__file__).resolve().parent.parent.parent
OUT = VERIF / "coq" / "gen" / "IterSrc.v"
SEEK = {"START": "WStart", "CURRENT": "WCurrent", "END": "WEnd"}


class TrI(Tr):
    def expr(self, e, env):
        src = ast.unparse(e)
        if src == "self._closed":
            return "v_closed", "bool"
        if src == "renderable_data.frame_offset":
            need(env.get("renderable_data") == "rd", f"{self.fname}: renderable_data used before `renderable_data = self._renderable_data`")
            return "v_frame_offset", "Z"
        if isinstance(e, ast.Attribute) and isinstance(e.value, ast.Name) and e.value.id == "Seek":
            need(e.attr in SEEK, f"{self.fname}: unknown Seek member {e.attr}")
            return SEEK[e.attr], "whence"
        if isinstance(e, ast.Compare) and len(e.ops) == 1 and isinstance(e.ops[0], (ast.Is, ast.IsNot, ast.Eq, ast.NotEq)):
            a, ta = self.expr(e.left, env)
            b, tb = self.expr(e.comparators[0], env)
            if ta == "whence" or tb == "whence":
                need(ta == tb == "whence", f"{self.fname}: comparison of a Seek member with {ta}/{tb}")
                t = f"(whence_eqb {a} {b})"
                return (t if isinstance(e.ops[0], (ast.Is, ast.Eq)) else f"(negb {t})"), "bool"
        if isinstance(e, ast.IfExp):
            c, tc = self.expr(e.test, env)
            need(tc == "bool", f"{self.fname}: non-boolean condition `{ast.unparse(e.test)}`")
            a, ta = self.expr(e.body, env)
            b, tb = self.expr(e.orelse, env)
            need(ta == tb, f"{self.fname}: branches of `{src}` differ in type")
            return f"(if {c} then {a} else {b})", ta
        return super().expr(e, env)

    def raise_kind(self, s):
        need(isinstance(s, ast.Raise) and s.exc is not None, f"{self.fname}: bare raise")
        f = s.exc.func if isinstance(s.exc, ast.Call) else s.exc
        name = ast.unparse(f)
        if name == "FinalizedIteratorError":
            return "SFinalized"
        if name == "arg_value_error_range":
            return "SValue"
        raise Refuse(f"{self.fname}: raise of `{name}` (line {s.lineno})")

    def stmts(self, body, env, ind):
        pad = "  " * ind
        if not body:
            raise Refuse(f"{self.fname}: control falls off the end without an update")
        s, rest = body[0], body[1:]
        if isinstance(s, ast.Expr) and isinstance(s.value, ast.Constant) and isinstance(s.value.value, str):
            return self.stmts(rest, env, ind)
        src = ast.unparse(s)
        if src == "frame_count = self._renderable.frame_count":
            env2 = dict(env)
            env2["frame_count"] = "fc"
            return self.stmts(rest, env2, ind)
        if src == "renderable_data = self._renderable_data":
            env2 = dict(env)
            env2["renderable_data"] = "rd"
            return self.stmts(rest, env2, ind)
        if isinstance(s, ast.Raise):
            need(not rest, f"{self.fname}: statements after raise")
            return pad + self.raise_kind(s)
        if isinstance(s, ast.Expr) and isinstance(s.value, ast.Call) and ast.unparse(s.value.func) == "renderable_data.update":
            need(not rest, f"{self.fname}: statements after the update of the render data")
            need(env.get("renderable_data") == "rd", f"{self.fname}: update of an unknown object")
            kw = {k.arg: k.value for k in s.value.keywords}
            need(not s.value.args and set(kw) == {"frame_offset", "seek_whence"}, f"{self.fname}: update arguments `{src}`")
            a, ta = self.expr(kw["frame_offset"], env)
            b, tb = self.expr(kw["seek_whence"], env)
            need(ta == "Z" and tb == "whence", f"{self.fname}: update argument types {ta}, {tb}")
            return pad + f"SUpdate {a} {b}"
        if isinstance(s, ast.Assign) and len(s.targets) == 1 and isinstance(s.targets[0], ast.Name):
            t, ty = self.expr(s.value, env)
            need(ty in ("Z", "bool", "whence"), f"{self.fname}: assignment of {ty}")
            env2 = dict(env)
            env2[s.targets[0].id] = ty
            return f"{pad}let {V(s.targets[0].id)} := {t} in\n" + self.stmts(rest, env2, ind)
        if isinstance(s, ast.If):
            if ast.unparse(s.test) == "frame_count is FrameCount.INDEFINITE":
                need(env.get("frame_count") == "fc" and s.orelse, f"{self.fname}: INDEFINITE test shape")
                env2 = dict(env)
                env2["frame_count"] = "Z"
                return (f"{pad}match v_frame_count with\n{pad}| None =>\n" + self.stmts(list(s.body) + rest, env, ind + 1)
                        + f"\n{pad}| Some v_frame_count =>\n" + self.stmts(list(s.orelse) + rest, env2, ind + 1) + f"\n{pad}end")
            c, tc = self.expr(s.test, env)
            need(tc == "bool", f"{self.fname}: non-boolean condition `{ast.unparse(s.test)}`")
            tb = list(s.body) + ([] if self.terminates(s.body) else rest)
            to = list(s.orelse) + ([] if (s.orelse and self.terminates(s.orelse)) else rest)
            return (f"{pad}if {c} then\n" + self.stmts(tb, env, ind + 1) + f"\n{pad}else\n" + self.stmts(to, env, ind + 1))
        raise Refuse(f"{self.fname}: statement outside the subset: `{src.splitlines()[0]}` (line {s.lineno})")

    def terminates(self, stmts):
        if not stmts:
            return False
        s = stmts[-1]
        if isinstance(s, ast.Raise):
            return True
        if isinstance(s, ast.Expr) and isinstance(s.value, ast.Call) and ast.unparse(s.value.func) == "renderable_data.update":
            return True
        if isinstance(s, ast.If):
            return bool(s.orelse) and self.terminates(s.body) and self.terminates(s.orelse)
        return False


def main():
    it = parse("src/term_image/render/_iterator.py")
    cls = find_class(it, "RenderIterator")
    fs = [n for n in cls.body if isinstance(n, ast.FunctionDef) and n.name == "seek"]
    need(len(fs) == 1, f"RenderIterator.seek: {len(fs)} definitions")
    fn = fs[0]
    need([a.arg for a in fn.args.args] == ["self", "offset", "whence"] and not fn.args.kwonlyargs,
         "RenderIterator.seek: parameter list changed")
    need([ast.unparse(d) for d in fn.args.defaults] == ["Seek.START"], "RenderIterator.seek: default of whence changed")
    # the Seek enum: START / CURRENT / END are three distinct members
    en = parse("src/term_image/renderable/_enum.py")
    sk = find_class(en, "Seek")
    members = {}
    for st in sk.body:
        if isinstance(st, ast.Assign):
            for t in st.targets:
                members[ast.unparse(t)] = ast.unparse(st.value)
    need({"START", "CURRENT", "END"} <= set(members)
         and len({members["START"], members["CURRENT"], members["END"]}) == 3, f"Seek members: {members}")
    tr = TrI("src_seek", {}, {})
    term = tr.stmts(list(fn.body), {"offset": "Z", "whence": "whence"}, 1)
    text = ("(** GENERATED by harness/tx/tx_iter.py from the working tree of the repository — do not edit.\n"
            "    Regenerated (and rewritten only if changed) on every check run. *)\n"
            "From Coq Require Import ZArith Bool List.\nFrom TI Require Import model.Iter.\n"
            "Open Scope Z_scope.\nOpen Scope bool_scope.\n\n"
            "(** what one call of [seek] does: raise FinalizedIteratorError, raise ValueError, or\n"
            "    [renderable_data.update(frame_offset=, seek_whence=)] and return *)\n"
            "Inductive seek_res := SFinalized | SValue | SUpdate (frame_offset : Z) (seek_whence : whence).\n\n"
            "(** render/_iterator.py: RenderIterator.seek(offset, whence); v_closed = self._closed,\n"
            "    v_frame_count = self._renderable.frame_count (None = FrameCount.INDEFINITE),\n"
            "    v_frame_offset = self._renderable_data.frame_offset *)\n"
            "Definition src_seek (v_closed : bool) (v_frame_count : option Z) (v_frame_offset : Z)\n"
            "           (v_offset : Z) (v_whence : whence) : seek_res :=\n" + term + ".\n")
    # ---- set_frame_duration (translated) and the position of the finalized check in every control method
    CLOSED = "if self._closed:\n    raise FinalizedIteratorError('This iterator has been finalized') from None"

    def body_of(name):
        gs = [n for n in cls.body if isinstance(n, ast.FunctionDef) and n.name == name]
        need(len(gs) == 1, f"RenderIterator.{name}: {len(gs)} definitions")
        return [st for st in gs[0].body if not (isinstance(st, ast.Expr) and isinstance(st.value, ast.Constant)
                                                and isinstance(st.value.value, str))], gs[0]
    positions = []
    for name in ("seek", "set_frame_duration", "set_padding", "set_render_args", "set_render_size"):
        b, _ = body_of(name)
        idx = [k for k, st in enumerate(b) if ast.unparse(st) == CLOSED]
        need(len(idx) == 1, f"RenderIterator.{name}: expected exactly one finalized check "
                            f"`if self._closed: raise FinalizedIteratorError(...)`, found {len(idx)}")
        positions.append((name, idx[0]))
    b, g = body_of("set_frame_duration")
    need([a.arg for a in g.args.args] == ["self", "duration"], "RenderIterator.set_frame_duration: parameter list changed")
    # statements other than the finalized check, in order: the range check, the assignment
    rest = [ast.unparse(st) for st in b if ast.unparse(st) != CLOSED]
    need(rest == ["if isinstance(duration, int) and duration <= 0:\n    raise arg_value_error_range('duration', duration)",
                  "self._renderable_data.duration = duration"],
         f"RenderIterator.set_frame_duration: body outside the subset: {rest}")
    sfd = []
    for st in b:
        u = ast.unparse(st)
        if u == CLOSED:
            sfd.append("if v_closed then FFinalized else")
        elif u.startswith("if isinstance(duration, int)"):
            sfd.append("if (match v_duration with DStatic ms => ms <=? 0 | DDynamic => false end) then FValue else")
        else:
            sfd.append("FAssign v_duration")
    need(sfd[-1] == "FAssign v_duration", "RenderIterator.set_frame_duration: the assignment is not the last statement")
    text += ("\n(** render/_iterator.py: RenderIterator.set_frame_duration(duration), statement by statement\n"
             "    ([DStatic ms]: an int; [DDynamic]: FrameDuration.DYNAMIC) *)\n"
             "Inductive sfd_res := FFinalized | FValue | FAssign (d : dur).\n"
             "Definition src_set_frame_duration (v_closed : bool) (v_duration : dur) : sfd_res :=\n  "
             + "\n  ".join(sfd) + ".\n"
             "\n(** position (0 = first statement) of the finalized check in each control method *)\n"
             "Definition src_finalized_check_position : list (nat * nat) := (* method index, position *)\n  "
             + "(" + " :: ".join(f"({k}, {pos})%nat" for k, (_, pos) in enumerate(positions)) + " :: nil).\n"
             "(* method index: " + ", ".join(f"{k} = {nm}" for k, (nm, _) in enumerate(positions)) + " *)\n")
    if not OUT.exists() or OUT.read_text() != text:
        OUT.parent.mkdir(parents=True, exist_ok=True)
        OUT.write_text(text)


if __name__ == "__main__":
    try:
        main()
    except Refuse as e:
        print(f"tx_iter: REFUSED: {e}")
        OUT.write_text(f"(* tx_iter refused the current source: {str(e).replace('*)', '* )')} *)\n"
                       "Definition refused : True := I I.\n")
        sys.exit(1)
