#!/venv/bin/python
"""tx_skel.py -- FAIL-CLOSED translator: Python source of /repo -> coq/gen/Skeletons.v.

For each function that must clean up after itself (DESIGN 3.2) the try/except/finally +
effect-call skeleton is re-derived from the CURRENT source with `ast` and written as a
`prog` term of coq/lib/Eff.v:

  * a call matched by the module's call table          -> `Op <tracked op>`
  * a call of a known library function                 -> its skeleton inlined (`Call`),
                                                          clean-up blocks unprotected
  * a call of a callback parameter                     -> the bound skeleton / a Gallina parameter
  * any other call                                     -> `Op Other` (no tracked effect, may raise)
  * `if`/`while`/conditional expressions on data       -> `Choice` / `Loop`
  * `if NAME` on an immutable boolean local            -> `IfVar` (assignments: SetVar / Havoc)
  * try/except/finally                                 -> TryExcept / TryFinally, structurally

Anything outside the subset (with, break, continue, yield, match, walrus, unknown
decorators, a tracked name that is rebound, a handler with control flow, ...) makes the
translator exit non-zero with file:line and the reason; nothing is guessed.

Run with cwd=/verif by harness/core.regenerate(); also importable (`build()` returns the
text and the metadata the plugins need)."""
from __future__ import annotations

import ast
import os
import sys
from pathlib import Path

HERE = Path(__file__).resolve().parent
sys.path.insert(0, str(HERE.parent))
import core  # noqa: E402


class Unsupported(Exception):
    pass


# --------------------------------------------------------------------------- tables

SRC = "src/term_image"

# key -> (file, qualified name, allowed decorators)
FUNCS = {
    "write_tty": ("utils.py", "write_tty", {"unix_tty_only", "lock_tty"}),
    "read_tty": ("utils.py", "read_tty", {"unix_tty_only", "lock_tty"}),
    "query_terminal": ("utils.py", "query_terminal", {"unix_tty_only", "lock_tty"}),
    "Renderable._init_render_": ("renderable/_renderable.py", "Renderable._init_render_", set()),
    "Renderable.render": ("renderable/_renderable.py", "Renderable.render", set()),
    "Renderable.__str__": ("renderable/_renderable.py", "Renderable.__str__", set()),
    "Renderable._animate_": ("renderable/_renderable.py", "Renderable._animate_", set()),
    "Renderable.draw": ("renderable/_renderable.py", "Renderable.draw", set()),
    "BaseImage.draw": ("image/common.py", "BaseImage.draw", set()),
    "BaseImage.draw.render": ("image/common.py", "BaseImage.draw.render", set()),
    "BaseImage._display_animated": ("image/common.py", "BaseImage._display_animated", set()),
    "BaseImage._renderer": ("image/common.py", "BaseImage._renderer", set()),
    "BaseImage._close_image": ("image/common.py", "BaseImage._close_image", set()),
    "BaseImage._get_render_data": ("image/common.py", "BaseImage._get_render_data", set()),
    "BaseImage._get_render_data.convert_resize_img": ("image/common.py", "BaseImage._get_render_data.convert_resize_img", set()),
    "KittyImage._handle_interrupted_draw": ("image/kitty.py", "KittyImage._handle_interrupted_draw", {"staticmethod"}),
    "ITerm2Image._handle_interrupted_draw": ("image/iterm2.py", "ITerm2Image._handle_interrupted_draw", {"staticmethod"}),
}

# module-level bindings a table entry relies on: file -> {name: expected import}
EXPECT_IMPORTS = {
    "utils.py": {"termios": "import termios", "os": "import os", "select": "from select import select",
                 "monotonic": "from time import monotonic"},
    "renderable/_renderable.py": {"termios": "import termios", "sleep": "from time import sleep", "sys": "import sys",
                                  "HIDE_CURSOR": "from .._ctlseqs import HIDE_CURSOR",
                                  "SHOW_CURSOR": "from .._ctlseqs import SHOW_CURSOR"},
    "image/common.py": {"time": "import time", "sys": "import sys",
                        "HIDE_CURSOR": "from .._ctlseqs import HIDE_CURSOR",
                        "SHOW_CURSOR": "from .._ctlseqs import SHOW_CURSOR"},
    "image/kitty.py": {},
    "image/iterm2.py": {},
}

# call tables: unparse(func) -> action
#   ("op", "<Coq op>")        tracked call
#   ("getattr",)              x = termios.tcgetattr(..)   (must be assigned to a plain name)
#   ("setattr",)              termios.tcsetattr(fd, when, NAME)
#   ("write",) ("flush",) ("print",)
#   ("next",)                 next(<iterator>)
#   ("inline", key)           library function whose skeleton is inlined
#   ("inline_cb", key)        the same, first argument is a callback
#   ("closeimg",) ("openimg",) ("render_img",)
CALLS_UTILS = {
    "termios.tcgetattr": ("getattr",),
    "termios.tcsetattr": ("setattr",),
    "os.read": ("op", "TtyRead"),
    "os.write": ("op", "TtyWrite"),
    "select": ("op", "Select"),
    "termios.tcdrain": ("op", "Drain"),
    "monotonic": ("op", "Clock"),
    "write_tty": ("inline", "write_tty"),
    "read_tty": ("inline", "read_tty"),
}
CALLS_RENDERABLE = {
    "termios.tcgetattr": ("getattr",),
    "termios.tcsetattr": ("setattr",),
    "output.write": ("write",),
    "output.flush": ("flush",),
    "sleep": ("op", "Sleep"),
    "self._render_": ("op", "Render"),
    "next": ("next",),
    "self._handle_interrupted_draw_": ("op", "HandleInterrupt"),
    "self._get_render_data_": ("op", "NewData"),
    "render_data.finalize": ("op", "Finalize"),
    "RenderIterator._from_render_data_": ("openiter",),
    "self._animate_": ("inline", "Renderable._animate_"),
    "self._init_render_": ("inline_cb", "Renderable._init_render_"),
}
CALLS_COMMON = {
    "print": ("print",),
    "time.sleep": ("op", "Sleep"),
    "self._render_image": ("render_img",),
    "next": ("next",),
    "self._handle_interrupted_draw": ("op", "HandleInterrupt"),
    "ImageIterator": ("openiter",),
    "self.set_size": ("op", "FixSize"),
    "self._get_image": ("openimg",),
    "self._close_image": ("closeimg",),
    "self._display_animated": ("inline", "BaseImage._display_animated"),
    "self._renderer": ("inline_cb", "BaseImage._renderer"),
}
CALLS_STYLE = {"print": ("print",)}
TABLES = {
    "utils.py": CALLS_UTILS,
    "renderable/_renderable.py": CALLS_RENDERABLE,
    "image/common.py": CALLS_COMMON,
    "image/kitty.py": CALLS_STYLE,
    "image/iterm2.py": CALLS_STYLE,
}
# iterators whose next() is a tracked call: unparse(iterator expr) -> op
ITER_OPS = {"render_iter": "Render", "image_it._animator": "AnimNext"}
# callback parameters: (function key, parameter) -> treatment
CALLBACK_PARAMS = {("read_tty", "more"): ("op", "More"),
                   ("query_terminal", "more"): ("op", "More"),
                   ("Renderable._init_render_", "renderer"): ("cb",),
                   ("BaseImage._renderer", "renderer"): ("cb",)}
# attribute reads / writes that save and restore a resource
ATTR_SNAP = {"self._size": "RSize", "self._seek_position": "RSeek"}
ATTR_PUT = {"self.size": "RSize", "self._seek_position": "RSeek"}
ATTR_MOD = {"self._size": "RSize", "self.size": "RSize", "self._seek_position": "RSeek"}
# expressions assumed to have one stable truth value during one call (listed as assumptions)
STABLE_EXPRS = {"sys.stdout.isatty()"}
# names of the tracked low-level API: they may only occur as the callee of a call matched by
# the table; an untracked helper of the same module that mentions them is refused
SENSITIVE_ATTR_OF = {"termios"}                       # any termios.<x>
SENSITIVE_NAMES = {"HIDE_CURSOR", "SHOW_CURSOR", "tcgetattr", "tcsetattr", "tcdrain"}
SENSITIVE_STORES = {"_seek_position", "_size", "size"}  # self.<x> = ...


def sensitive_mentions(fn) -> list[str]:
    """Mentions of the tracked low-level API inside an (untranslated) function."""
    out = []
    for n in ast.walk(fn):
        if isinstance(n, ast.Attribute) and isinstance(n.value, ast.Name) and n.value.id in SENSITIVE_ATTR_OF:
            out.append(f"{n.value.id}.{n.attr} (line {n.lineno})")
        elif isinstance(n, ast.Name) and n.id in SENSITIVE_NAMES:
            out.append(f"{n.id} (line {n.lineno})")
        elif isinstance(n, ast.Attribute) and isinstance(n.ctx, ast.Store) and n.attr in SENSITIVE_STORES \
                and isinstance(n.value, ast.Name) and n.value.id == "self":
            out.append(f"self.{n.attr} = ... (line {n.lineno})")
    return out


# --------------------------------------------------------------------------- source access


class Module:
    def __init__(self, repo: Path, rel: str):
        self.rel = rel
        self.path = repo / SRC / rel
        try:
            self.src = self.path.read_text()
        except OSError as e:
            raise Unsupported(f"{self.path}: cannot read source: {e}")
        try:
            self.tree = ast.parse(self.src)
        except SyntaxError as e:
            raise Unsupported(f"{self.path}: syntax error: {e}")
        self.bindings: dict[str, set[str]] = {}
        for node in ast.walk(self.tree):
            if isinstance(node, ast.Import):
                for a in node.names:
                    self.bindings.setdefault((a.asname or a.name).split(".")[0], set()).add(f"import {a.name}")
            elif isinstance(node, ast.ImportFrom):
                mod = "." * node.level + (node.module or "")
                for a in node.names:
                    self.bindings.setdefault(a.asname or a.name, set()).add(f"from {mod} import {a.name}")
        # module-level rebinding of an expected import is refused
        for node in self.tree.body:
            for t in assigned_names(node):
                self.bindings.setdefault(t, set()).add("assigned at module level")
        for name, srcs in self.bindings.items():
            for s in srcs:
                if s.startswith("from termios import") or (s.startswith("import termios") and name != "termios"):
                    raise Unsupported(f"{self.path}: `{s}` binds part of the tracked API to the name `{name}`")
        # helpers an untracked call may reach: module-level functions and methods, by name
        self.helpers: dict[str, list] = {}
        for node in self.tree.body:
            if isinstance(node, ast.FunctionDef):
                self.helpers.setdefault(node.name, []).append(node)
            elif isinstance(node, ast.ClassDef):
                for m in node.body:
                    if isinstance(m, ast.FunctionDef):
                        self.helpers.setdefault("." + m.name, []).append(m)
        for name, want in EXPECT_IMPORTS.get(rel, {}).items():
            got = self.bindings.get(name, set())
            if got != {want}:
                raise Unsupported(f"{self.path}: `{name}` is expected to be bound only by `{want}`, found {sorted(got)}")

    def find(self, qual: str) -> ast.FunctionDef:
        body = self.tree.body
        node = None
        parts = qual.split(".")
        for i, part in enumerate(parts):
            cands = [n for n in body if isinstance(n, (ast.FunctionDef, ast.ClassDef)) and n.name == part]
            cands = [n for n in cands if not (isinstance(n, ast.FunctionDef) and "overload" in decorator_names(n))]
            if len(cands) != 1:
                raise Unsupported(f"{self.path}: expected exactly one definition of `{'.'.join(parts[:i + 1])}`, found {len(cands)}")
            node = cands[0]
            body = node.body
        if not isinstance(node, ast.FunctionDef):
            raise Unsupported(f"{self.path}: `{qual}` is not a plain function")
        return node


def decorator_names(fn) -> set[str]:
    return {ast.unparse(d) for d in fn.decorator_list}


def assigned_names(node) -> list[str]:
    """Names (re)bound directly by this statement (not descending into nested statements)."""
    out = []

    def tgt(t):
        if isinstance(t, ast.Name):
            out.append(t.id)
        elif isinstance(t, (ast.Tuple, ast.List)):
            for e in t.elts:
                tgt(e)
        elif isinstance(t, ast.Starred):
            tgt(t.value)

    if isinstance(node, ast.Assign):
        for t in node.targets:
            tgt(t)
    elif isinstance(node, (ast.AugAssign, ast.AnnAssign)):
        if not (isinstance(node, ast.AnnAssign) and node.value is None):
            tgt(node.target)
    elif isinstance(node, (ast.For,)):
        tgt(node.target)
    elif isinstance(node, (ast.FunctionDef, ast.ClassDef)):
        out.append(node.name)
    return out


# --------------------------------------------------------------------------- program terms

def Seq(items):
    flat = []
    for it in items:
        if it is None or it == ("Skip",):
            continue
        if it[0] == "Seq":
            flat.extend(it[1])
        else:
            flat.append(it)
    if not flat:
        return ("Skip",)
    if len(flat) == 1:
        return flat[0]
    return ("Seq", flat)


def Choice(a, b):
    if a == b:
        return a
    return ("Choice", a, b)


def Maybe(p):
    return ("Skip",) if p == ("Skip",) else ("Choice", ("Skip",), p)


def show(p, ind=2) -> str:
    sp = " " * ind
    k = p[0]
    if k == "Skip":
        return "Skip"
    if k == "Op":
        c = f" (* :{p[2]} *)" if len(p) > 2 and p[2] else ""
        return f"Op ({p[1]})" + c if " " in p[1] else f"Op {p[1]}" + c
    if k == "Seq":
        inner = (";\n" + sp + "    ").join(show(x, ind + 4) for x in p[1])
        return f"sq [ {inner} ]"
    if k == "Choice":
        return f"Choice\n{sp}  ({show(p[1], ind + 2)})\n{sp}  ({show(p[2], ind + 2)})"
    if k == "Loop":
        return f"Loop\n{sp}  ({show(p[1], ind + 2)})"
    if k == "TryFinally":
        return f"TryFinally {b(p[1])}\n{sp}  ({show(p[2], ind + 2)})\n{sp}  (* finally *)\n{sp}  ({show(p[3], ind + 2)})"
    if k == "TryExcept":
        _, prot, body, mk, hk, me, he = p
        return (f"TryExcept {b(prot)}\n{sp}  ({show(body, ind + 2)})\n{sp}  (* except KeyboardInterrupt *) {mk}\n{sp}  ({show(hk, ind + 2)})"
                f"\n{sp}  (* except Exception *) {me}\n{sp}  ({show(he, ind + 2)})")
    if k == "Raise":
        return f"Raise {p[1]}"
    if k == "Return":
        return "Return"
    if k == "IfVar":
        return f"IfVar {p[1]} (* {p[4]} *)\n{sp}  ({show(p[2], ind + 2)})\n{sp}  ({show(p[3], ind + 2)})"
    if k == "SetVar":
        return f"SetVar {p[1]} {b(p[2])} (* {p[3]} *)"
    if k == "Havoc":
        return f"Havoc {p[1]} (* {p[2]} *)"
    if k == "CopyVar":
        return f"{'CopyNotVar' if p[3] else 'CopyVar'} {p[1]} {p[2]} (* {p[4]} *)"
    if k == "Call":
        return f"Call ({show(p[1], ind + 2)})"
    if k == "Ref":
        return f"({p[1]}{REF_ARGS[0]})" if REF_ARGS[0] and p[1].startswith("sk_") else p[1]
    raise AssertionError(p)


REF_ARGS = [""]  # callback arguments passed on to auxiliary definitions of the current root


def b(x):
    return "true" if x else "false"


# --------------------------------------------------------------------------- per-function facts


class FnInfo:
    """Syntactic facts about one function, computed before translation."""

    def __init__(self, tx: "Translator", key: str):
        rel, qual, allowed = FUNCS[key]
        self.key, self.rel = key, rel
        self.mod = tx.module(rel)
        self.fn = self.mod.find(qual)
        self.table = TABLES[rel]
        extra = decorator_names(self.fn) - allowed
        if extra:
            raise Unsupported(f"{self.where(self.fn)}: decorator(s) {sorted(extra)} of `{qual}` are not known to be transparent")
        a = self.fn.args
        if a.posonlyargs:
            raise Unsupported(f"{self.where(self.fn)}: positional-only parameters")
        self.params = [x.arg for x in a.args + a.kwonlyargs]
        self.pos_params = [x.arg for x in a.args]
        self.defaults: dict[str, ast.expr] = {}
        for p, d in zip(a.args[len(a.args) - len(a.defaults):], a.defaults):
            self.defaults[p.arg] = d
        for p, d in zip(a.kwonlyargs, a.kw_defaults):
            if d is not None:
                self.defaults[p.arg] = d
        self.annot = {x.arg: (ast.unparse(x.annotation) if x.annotation else "") for x in a.args + a.kwonlyargs}
        self.nested = {n.name: n for n in self.fn.body if isinstance(n, ast.FunctionDef)}
        self.own_nodes = list(self.walk_own(self.fn))
        # enclosing function (for closures)
        self.parent = None
        if "." in qual:
            pk = key.rsplit(".", 1)[0]
            if pk in FUNCS and FUNCS[pk][0] == rel:
                pm = self.mod.find(FUNCS[pk][1]) if FUNCS[pk][1].count(".") or True else None
                if isinstance(pm, ast.FunctionDef) and self.fn in pm.body:
                    self.parent = tx.info(pk)
        self._scan()
        # tracked booleans of the enclosing function that this (nested) function tests
        self.free_flags: set[str] = set()
        if self.parent is not None:
            for name in self.bare_tested(self.own_nodes):
                if name not in self.params and name not in self.assigns and name not in self.nonlocal_names \
                        and name in self.parent.flags:
                    self.free_flags.add(name)

    def where(self, node) -> str:
        return f"{self.mod.path}:{getattr(node, 'lineno', '?')}"

    def walk_own(self, fn):
        """All nodes of the function body, not descending into nested defs / lambdas / classes."""
        todo = list(fn.body)
        while todo:
            n = todo.pop()
            yield n
            for c in ast.iter_child_nodes(n):
                if isinstance(c, (ast.FunctionDef, ast.AsyncFunctionDef, ast.ClassDef, ast.Lambda)):
                    continue
                todo.append(c)

    def _scan(self):
        fn = self.fn
        # names rebound by nested functions (nonlocal) -- such names are never tracked
        self.nonlocal_names: set[str] = set()
        for n in ast.walk(fn):
            if isinstance(n, (ast.Nonlocal, ast.Global)):
                self.nonlocal_names.update(n.names)
        # assignments per name (own body only)
        self.assigns: dict[str, list] = {}
        for n in self.own_nodes:
            for name in assigned_names(n):
                self.assigns.setdefault(name, []).append(n)
            if isinstance(n, ast.NamedExpr):
                raise Unsupported(f"{self.where(n)}: assignment expression (:=)")
            if isinstance(n, ast.ExceptHandler) and n.name:
                self.assigns.setdefault(n.name, []).append(n)
            if isinstance(n, (ast.With, ast.AsyncWith)):
                raise Unsupported(f"{self.where(n)}: `with` statement")
            if isinstance(n, ast.Delete):
                raise Unsupported(f"{self.where(n)}: `del` statement")
        # ---- termios snapshot variables: x = termios.tcgetattr(...)
        self.tsnaps: set[str] = set()
        self.rsnaps: dict[str, str] = {}  # size / seek snapshot variables -> resource
        for n in self.own_nodes:
            if isinstance(n, ast.Assign) and len(n.targets) == 1 and isinstance(n.targets[0], ast.Name):
                v = n.value
                if isinstance(v, ast.Call) and self.table.get(ast.unparse(v.func)) == ("getattr",):
                    self.tsnaps.add(n.targets[0].id)
                elif isinstance(v, ast.Attribute) and ast.unparse(v) in ATTR_SNAP:
                    self.rsnaps[n.targets[0].id] = ATTR_SNAP[ast.unparse(v)]
        for x in self.tsnaps | set(self.rsnaps):
            if x in self.nonlocal_names:
                raise Unsupported(f"{self.where(fn)}: snapshot variable `{x}` is nonlocal/global")
        for x, r in self.rsnaps.items():
            if len(self.assigns.get(x, [])) != 1 or x in self.params:
                raise Unsupported(f"{self.where(fn)}: snapshot variable `{x}` ({r}) must be assigned exactly once")
        # a snapshot variable mentioned inside a nested function could be changed there
        for nf in ast.walk(fn):
            if nf is not fn and isinstance(nf, (ast.FunctionDef, ast.Lambda)):
                for n in ast.walk(nf):
                    if isinstance(n, ast.Name) and n.id in self.tsnaps:
                        raise Unsupported(f"{self.where(n)}: termios snapshot `{n.id}` used in a nested function")
        # ---- stream aliases: write = output.write / flush = output.flush
        self.aliases: dict[str, str] = {}
        for n in self.own_nodes:
            if isinstance(n, ast.Assign) and len(n.targets) == 1 and isinstance(n.targets[0], ast.Name):
                src = ast.unparse(n.value)
                if isinstance(n.value, ast.Attribute) and self.table.get(src, (None,))[0] in ("write", "flush"):
                    name = n.targets[0].id
                    if len(self.assigns[name]) != 1 or name in self.params or name in self.nonlocal_names:
                        raise Unsupported(f"{self.where(n)}: stream alias `{name}` is rebound")
                    self.aliases[name] = src
        # ---- iterator variables: x = RenderIterator._from_render_data_(...) / ImageIterator(...)
        self.iters: set[str] = set()
        for n in self.own_nodes:
            if isinstance(n, ast.Assign) and len(n.targets) == 1 and isinstance(n.targets[0], ast.Name):
                v = n.value
                if isinstance(v, ast.Call) and self.table.get(ast.unparse(v.func)) == ("openiter",):
                    name = n.targets[0].id
                    if len(self.assigns[name]) != 1 or name in self.nonlocal_names:
                        raise Unsupported(f"{self.where(n)}: iterator variable `{name}` is rebound")
                    self.iters.add(name)
        # ---- boolean flags: names tested bare in an `if` (possibly negated), here or in a closure
        cand: set[str] = set(self.bare_tested(self.own_nodes))
        for nf in self.nested.values():
            bound = {x.arg for x in nf.args.args + nf.args.kwonlyargs}
            for n in ast.walk(nf):
                bound.update(assigned_names(n))
            cand |= {x for x in self.bare_tested(list(ast.walk(nf))) if x not in bound}
        self.flags: set[str] = set()
        self.flag_why: dict[str, str] = {}
        for name in sorted(cand):
            why = self._flag_ok(name)
            if why is None:
                self.flags.add(name)
            else:
                self.flag_why[name] = why
        # ---- stable expressions used as flags
        self.expr_flags: set[str] = set()
        for n in self.own_nodes:
            if isinstance(n, ast.Call):
                s = ast.unparse(n)
                if s in STABLE_EXPRS:
                    self.expr_flags.add(s)
                elif (ast.unparse(n.func) == "isinstance" and len(n.args) == 2 and all(isinstance(x, ast.Name) for x in n.args)
                      and not n.keywords and self._single_assignment(n.args[0].id) and n.args[1].id not in self.assigns
                      and n.args[1].id not in self.params and "isinstance" not in self.assigns):
                    self.expr_flags.add(s)
        # ---- names carrying frame data (render output): assigned from a render call, transitively
        self.frame_names: set[str] = set()
        changed = True
        while changed:
            changed = False
            for n in self.own_nodes:
                val, tg = None, []
                if isinstance(n, ast.Assign):
                    val, tg = n.value, [x for t in n.targets for x in names_in_target(t)]
                elif isinstance(n, ast.For):
                    val, tg = n.iter, names_in_target(n.target)
                if val is not None and self.is_frame_expr(val):
                    for x in tg:
                        if x not in self.frame_names:
                            self.frame_names.add(x)
                            changed = True

    @staticmethod
    def bare_tested(nodes) -> set[str]:
        out = set()
        for n in nodes:
            tests = []
            if isinstance(n, (ast.If, ast.IfExp, ast.While)):
                tests.append(n.test)
            elif isinstance(n, ast.Expr) and isinstance(n.value, ast.BoolOp):
                tests.append(n.value.values[0])
            for t in tests:
                while isinstance(t, ast.UnaryOp) and isinstance(t.op, ast.Not):
                    t = t.operand
                if isinstance(t, ast.Name):
                    out.add(t.id)
        return out

    def _single_assignment(self, name) -> bool:
        """A never-assigned parameter, or a local assigned exactly once by a top-level
        statement of the function body (so: once per call, before any later use)."""
        a = self.assigns.get(name, [])
        if name in self.nonlocal_names:
            return False
        if name in self.params:
            return not a
        return len(a) == 1 and any(a[0] is s for s in self.fn.body)

    def is_frame_expr(self, e) -> bool:
        """Does the value of e (possibly) carry render output?"""
        for n in ast.walk(e):
            if isinstance(n, ast.Name) and n.id in self.frame_names:
                return True
            if isinstance(n, (ast.Name, ast.Attribute)) and ast.unparse(n) in ITER_OPS:
                return True  # iterating a frame iterator
            if isinstance(n, ast.Call):
                act = self.table.get(ast.unparse(n.func))
                if act in (("op", "Render"), ("render_img",)):
                    return True
        return False

    def _flag_ok(self, name) -> str | None:
        """None if `name` may be tracked as an immutable-between-assignments boolean."""
        if name in self.nonlocal_names:
            return "nonlocal/global"
        if name in self.nested:
            return "is a function"
        # every use must be a truth test, a boolean operand or a call argument
        parents = {}
        allnodes = list(ast.walk(self.fn))
        for n in allnodes:
            for c in ast.iter_child_nodes(n):
                parents[c] = n
        for n in allnodes:
            if isinstance(n, ast.Name) and n.id == name and isinstance(n.ctx, ast.Load):
                p = parents.get(n)
                ok = False
                if isinstance(p, (ast.If, ast.IfExp, ast.While)) and p.test is n:
                    ok = True
                elif isinstance(p, ast.BoolOp) or (isinstance(p, ast.UnaryOp) and isinstance(p.op, ast.Not)):
                    ok = True
                elif isinstance(p, ast.Call) and (n in p.args):
                    ok = True
                elif isinstance(p, ast.keyword):
                    ok = True
                elif isinstance(p, ast.FormattedValue):
                    ok = True
                if not ok:
                    return f"used as data at line {n.lineno}"
        # nested functions must not use it other than by reading (they cannot rebind it: no nonlocal)
        # boolean-valued: parameter annotated bool / default bool, or assigned boolean expressions only
        for a in self.assigns.get(name, []):
            if not isinstance(a, (ast.Assign, ast.AnnAssign)) or a.value is None:
                return f"assigned by a non-simple statement at line {a.lineno}"
            if isinstance(a, ast.Assign) and not (len(a.targets) == 1 and isinstance(a.targets[0], ast.Name)):
                return f"assigned by unpacking at line {a.lineno}"
            if not booleanish(a.value):
                return f"assigned a non-boolean expression at line {a.lineno}"
        if name in self.params:
            d = self.defaults.get(name)
            if not (self.annot.get(name) == "bool" or (isinstance(d, ast.Constant) and isinstance(d.value, bool))):
                return "parameter not annotated bool"
        elif not self.assigns.get(name):
            return "not a local"
        return None


def booleanish(e) -> bool:
    if isinstance(e, ast.Constant):
        return isinstance(e.value, bool)
    if isinstance(e, ast.BoolOp):
        return True
    if isinstance(e, ast.UnaryOp) and isinstance(e.op, ast.Not):
        return True
    if isinstance(e, ast.Compare):
        return True
    return False


def names_in_target(t) -> list[str]:
    if isinstance(t, ast.Name):
        return [t.id]
    if isinstance(t, (ast.Tuple, ast.List)):
        return [x for e in t.elts for x in names_in_target(e)]
    if isinstance(t, ast.Starred):
        return names_in_target(t.value)
    return []


# --------------------------------------------------------------------------- translation


class Root:
    """One emitted skeleton: its variable index spaces and auxiliary definitions."""

    def __init__(self, name: str):
        self.name = name
        self.flag_idx: dict[str, int] = {}
        self.snap_idx: dict[str, int] = {}
        self.img_idx: dict[str, int] = {}
        self.aux: list[tuple[str, tuple, str]] = []  # (coq name, term, comment)
        self.assumed: set[str] = set()
        self.untracked_flags: dict[str, str] = {}
        self.ninline = 0

    def flag(self, q):
        return self.flag_idx.setdefault(q, len(self.flag_idx))

    def snap(self, q):
        return self.snap_idx.setdefault(q, len(self.snap_idx))

    def img(self, q):
        return self.img_idx.setdefault(q, len(self.img_idx))


class Frame:
    """Translation of one function body (root or inlined)."""

    def __init__(self, tx, root: Root, info: FnInfo, prefix: str, prot: bool, callbacks: dict, img_bind: dict, depth: int,
                 closure: "Frame | None" = None):
        self.tx, self.root, self.info = tx, root, info
        self.prefix, self.prot = prefix, prot
        self.closure = closure  # frame of the enclosing function (for a nested function)
        self.last_opened = None
        self.callbacks = callbacks  # param name -> term
        self.img_bind = dict(img_bind)  # local name -> image index
        self.depth = depth
        self.handler_kind = None
        for name, why in info.flag_why.items():
            if name not in info.free_flags:
                root.untracked_flags[prefix + name] = why
        for s in info.expr_flags:
            if s in STABLE_EXPRS:
                root.assumed.add(s)

    # -- helpers
    def fail(self, node, msg):
        raise Unsupported(f"{self.info.where(node)}: in `{self.info.key}`: {msg}")

    def q(self, name):
        return self.prefix + name

    def flag_of(self, e):
        """(index, negated, label) if expression e is a tracked boolean."""
        neg = False
        while isinstance(e, ast.UnaryOp) and isinstance(e.op, ast.Not):
            e, neg = e.operand, not neg
        if isinstance(e, ast.Name) and e.id in self.info.flags:
            return self.root.flag(self.q(e.id)), neg, e.id
        if isinstance(e, ast.Name) and e.id in self.info.free_flags:
            # variable of the enclosing function, read through the closure
            owner = self.closure if self.closure is not None else self
            return self.root.flag(owner.q(e.id)), neg, e.id
        if isinstance(e, ast.Call):
            s = ast.unparse(e)
            if s in self.info.expr_flags:
                # module-level stable expressions are shared by all frames of the root
                qn = s if s in STABLE_EXPRS else self.q(s)
                return self.root.flag(qn), neg, s
        return None

    def op(self, name, node):
        return ("Op", name, getattr(node, "lineno", None))

    # -- expressions: tracked calls in evaluation order
    def ops(self, e) -> list:
        if e is None:
            return []
        I = self.info
        if isinstance(e, ast.Constant):
            return []
        if isinstance(e, ast.Attribute) and isinstance(e.value, ast.Name) and e.value.id in SENSITIVE_ATTR_OF \
                and e.attr.startswith("tc"):
            self.fail(e, f"`{ast.unparse(e)}` used other than as the callee of a tracked call (aliasing a tracked function)")
        if isinstance(e, ast.Name) and e.id in ("tcgetattr", "tcsetattr", "tcdrain"):
            self.fail(e, f"bare `{e.id}`")
        if isinstance(e, ast.Name):
            if e.id in I.tsnaps and isinstance(e.ctx, ast.Load):
                # any use other than as tcsetattr's argument may change the list
                return [self.op(f"MutAttr {self.root.snap(self.q(e.id))}", e)]
            return []
        if isinstance(e, ast.Lambda):
            return []
        if isinstance(e, ast.Call):
            return self.call(e)
        if isinstance(e, ast.BoolOp):
            first, rest = e.values[0], e.values[1:]
            restops = []
            for v in rest:
                restops += self.ops(v)
            # later operands are evaluated or not
            tail = Seq(restops)
            fl = self.flag_of(first)
            if fl is not None and tail != ("Skip",):
                idx, neg, label = fl
                run_if_true = isinstance(e.op, ast.And)
                if neg:
                    run_if_true = not run_if_true
                return [("IfVar", idx, tail, ("Skip",), label) if run_if_true else ("IfVar", idx, ("Skip",), tail, label)]
            out = self.ops(first) if fl is None else []
            if len(rest) > 1 and tail != ("Skip",):
                # nested short-circuit: any prefix of the remaining operands may be evaluated
                t = ("Skip",)
                for v in reversed(rest):
                    t = Seq(self.ops(v) + [t])
                    t = Maybe(t)
                return out + [t]
            return out + [Maybe(tail)]
        if isinstance(e, ast.IfExp):
            fl = self.flag_of(e.test)
            a, c = Seq(self.ops(e.body)), Seq(self.ops(e.orelse))
            if fl is not None:
                idx, neg, label = fl
                if a == c:
                    return [a]
                return [("IfVar", idx, c, a, label) if neg else ("IfVar", idx, a, c, label)]
            return self.ops(e.test) + [Choice(a, c)]
        if isinstance(e, (ast.ListComp, ast.SetComp, ast.GeneratorExp, ast.DictComp)):
            out = self.ops(e.generators[0].iter)
            inner = []
            for i, g in enumerate(e.generators):
                if i:
                    inner += self.ops(g.iter)
                for c in g.ifs:
                    inner += self.ops(c)
            if isinstance(e, ast.DictComp):
                inner += self.ops(e.key) + self.ops(e.value)
            else:
                inner += self.ops(e.elt)
            body = Seq(inner)
            return out + ([("Loop", body)] if body != ("Skip",) else [])
        if isinstance(e, (ast.NamedExpr, ast.Await, ast.Yield, ast.YieldFrom)):
            self.fail(e, f"unsupported expression {type(e).__name__}")
        if isinstance(e, (ast.Compare, ast.BinOp, ast.UnaryOp, ast.Subscript, ast.Attribute, ast.Starred, ast.JoinedStr,
                          ast.FormattedValue, ast.Tuple, ast.List, ast.Set, ast.Dict, ast.Slice)):
            out = []
            for c in ast.iter_child_nodes(e):
                if isinstance(c, ast.expr):
                    out += self.ops(c)
            return out
        self.fail(e, f"unsupported expression {type(e).__name__}")

    def args_ops(self, call, skip=()) -> list:
        out = []
        for i, a in enumerate(call.args):
            if i not in skip:
                out += self.ops(a)
        for k in call.keywords:
            out += self.ops(k.value)
        return out

    def write_kind(self, call, args) -> tuple:
        """Op for a stream write whose data expressions are `args`."""
        I = self.info
        names = set()
        for a in args:
            for n in ast.walk(a):
                if isinstance(n, ast.Name):
                    names.add(n.id)
        hide, show_ = "HIDE_CURSOR" in names, "SHOW_CURSOR" in names
        for nm in ("HIDE_CURSOR", "SHOW_CURSOR"):
            if nm in names and (nm in I.assigns or nm in I.params):
                self.fail(call, f"`{nm}` is rebound locally")
        frame = any(I.is_frame_expr(a) for a in args)
        if hide + show_ + frame > 1:
            self.fail(call, "a write mixing HIDE_CURSOR / SHOW_CURSOR / frame data")
        if hide:
            if not all(isinstance(a, (ast.Name, ast.Constant)) for a in args):
                self.fail(call, "HIDE_CURSOR inside a compound expression")
            return self.op("HideCursor", call)
        if show_:
            # plain, or `SHOW_CURSOR * <stable flag>`
            cond = None
            for a in args:
                if isinstance(a, ast.Name) or isinstance(a, ast.Constant):
                    continue
                if isinstance(a, ast.BinOp) and isinstance(a.op, ast.Mult):
                    l, r = a.left, a.right
                    if isinstance(r, ast.Name) and r.id == "SHOW_CURSOR":
                        l, r = r, l
                    if isinstance(l, ast.Name) and l.id == "SHOW_CURSOR" and self.flag_of(r) is not None:
                        cond = self.flag_of(r)
                        continue
                self.fail(call, "SHOW_CURSOR inside an expression other than `SHOW_CURSOR * <stable flag>`")
            if cond is None:
                return self.op("ShowCursor", call)
            idx, neg, label = cond
            a_, b_ = self.op("ShowCursor", call), self.op("Write WCtl", call)
            return ("IfVar", idx, b_, a_, label) if neg else ("IfVar", idx, a_, b_, label)
        if frame:
            return self.op("Write WFrame", call)
        return self.op("Write WCtl", call)

    def call(self, e: ast.Call) -> list:
        I = self.info
        f = ast.unparse(e.func)
        s = ast.unparse(e)
        if s in I.expr_flags:
            return []  # pure read of a stable flag expression
        # a local name shadowing a table entry?
        root_name = f.split(".")[0].split("(")[0]
        act = None
        if f in I.aliases:
            act = I.table[I.aliases[f]]
        elif isinstance(e.func, ast.Name) and (I.key, f) in CALLBACK_PARAMS and f in I.params:
            if I.assigns.get(f):
                self.fail(e, f"callback parameter `{f}` is rebound")
            act = CALLBACK_PARAMS[(I.key, f)]
        elif isinstance(e.func, ast.Name) and f in I.nested:
            act = ("local", f)
        elif f in I.table:
            if root_name not in ("self", "output", "render_data") and (root_name in I.assigns or root_name in I.params) \
                    and not (root_name in I.iters):
                self.fail(e, f"`{root_name}` (used in tracked call `{f}`) is a local name")
            act = I.table[f]
        elif isinstance(e.func, ast.Attribute) and isinstance(e.func.value, ast.Name) and e.func.value.id in I.iters \
                and e.func.attr == "close":
            act = ("op", "CloseIter")
        if act is None:
            # an untracked helper of this module must not touch the tracked low-level API itself
            helper = None
            if isinstance(e.func, ast.Name) and e.func.id not in I.assigns and e.func.id not in I.params:
                helper = I.mod.helpers.get(e.func.id)
            elif isinstance(e.func, ast.Attribute) and isinstance(e.func.value, ast.Name) and e.func.value.id in ("self", "cls"):
                helper = I.mod.helpers.get("." + e.func.attr)
            for h in helper or []:
                m = sensitive_mentions(h)
                if m:
                    self.fail(e, f"untracked helper `{f}` (defined at line {h.lineno}) uses the tracked API: {', '.join(m[:3])}; "
                                 "it must be added to the translator's tables")
            # untracked call: evaluate callee expression and arguments, then the call itself
            pre = []
            if isinstance(e.func, ast.Attribute):
                pre += self.ops(e.func.value)
            elif not isinstance(e.func, ast.Name):
                pre += self.ops(e.func)
            return pre + self.args_ops(e) + [self.op("Other", e)]
        kind = act[0]
        if kind == "op":
            return self.args_ops(e) + [self.op(act[1], e)]
        if kind == "getattr":
            self.fail(e, "termios.tcgetattr() whose result is not assigned to a plain local name")
        if kind == "setattr":
            if len(e.args) != 3 or e.keywords or not isinstance(e.args[2], ast.Name):
                self.fail(e, "termios.tcsetattr() must be called as tcsetattr(fd, when, NAME)")
            x = e.args[2].id
            if x not in I.tsnaps:
                self.fail(e, f"tcsetattr() argument `{x}` is not a local obtained from tcgetattr()")
            return self.args_ops(e, skip=(2,)) + [self.op(f"SetAttr {self.root.snap(self.q(x))}", e)]
        if kind == "write":
            if len(e.args) != 1 or e.keywords:
                self.fail(e, "stream write with other than one positional argument")
            return self.args_ops(e) + [self.write_kind(e, e.args)]
        if kind == "flush":
            if e.args or e.keywords:
                self.fail(e, "flush() with arguments")
            return [self.op("Flush", e)]
        if kind == "print":
            if "print" in I.assigns or "print" in I.params:
                self.fail(e, "`print` is rebound")
            out = self.args_ops(e)
            for k in e.keywords:
                if k.arg == "file" or k.arg is None:
                    self.fail(e, "print() to another stream / with **kwargs")
            out.append(self.write_kind(e, e.args))
            fl = [k.value for k in e.keywords if k.arg == "flush"]
            if fl:
                if isinstance(fl[0], ast.Constant) and isinstance(fl[0].value, bool):
                    if fl[0].value:
                        out.append(self.op("Flush", e))
                else:
                    out.append(Maybe(self.op("Flush", e)))
            return out
        if kind == "next":
            if len(e.args) >= 1 and ast.unparse(e.args[0]) in ITER_OPS:
                self.check_iter_expr(e.args[0])
                return self.args_ops(e, skip=(0,)) + [self.op(ITER_OPS[ast.unparse(e.args[0])], e)]
            return self.args_ops(e) + [self.op("Other", e)]
        if kind == "openiter":
            return self.args_ops(e) + [self.op("OpenIter", e)]
        if kind == "openimg":
            # result bound by the caller of ops() (assignment / argument passing)
            idx = self.root.img(self.q(f"<image opened at line {e.lineno}>"))
            self.last_opened = idx
            return self.args_ops(e) + [self.op(f"OpenImg {idx}", e)]
        if kind == "closeimg":
            if len(e.args) != 1 or not isinstance(e.args[0], ast.Name):
                self.fail(e, "_close_image() of something other than a local name")
            return [self.op(f"CloseImg {self.img_of(e.args[0].id, e)}", e)]
        if kind == "render_img":
            # ownership of the image passed to _render_image goes to the style's method
            out = self.args_ops(e)
            if e.args and isinstance(e.args[0], ast.Name) and e.args[0].id in self.img_bind:
                out.append(self.op(f"CloseImg {self.img_bind[e.args[0].id]}", e))
            return out + [self.op("Render", e)]
        if kind == "cb":
            cb = self.callbacks.get(f)
            if cb is None:
                self.fail(e, f"callback `{f}` is not bound")
            pre = []
            img_args = {}
            for i, a in enumerate(e.args):
                self.last_opened = None
                pre += self.ops(a)
                if self.last_opened is not None and isinstance(a, ast.Call):
                    img_args[i] = self.last_opened
                elif isinstance(a, ast.Name) and a.id in self.img_bind:
                    img_args[i] = self.img_bind[a.id]
            for k in e.keywords:
                pre += self.ops(k.value)
            return pre + [cb(self, e, img_args)]
        if kind == "local":
            return self.args_ops(e) + [self.inline_node(I.nested[f], f"{I.key}.{f}", e, {}, {}, closure=self)]
        if kind in ("inline", "inline_cb"):
            return self.inline(act[1], e, with_cb=(kind == "inline_cb"))
        raise AssertionError(act)

    def check_iter_expr(self, it):
        s = ast.unparse(it)
        base = s.split(".")[0]
        if base not in self.info.iters:
            self.fail(it, f"`{s}`: `{base}` is not a local bound once to a frame iterator")

    def img_of(self, name, node):
        if name not in self.img_bind:
            # a parameter holding an image owned by this function (ownership passed in)
            if name in self.info.params and not self.info.assigns.get(name):
                self.img_bind[name] = self.root.img(self.q(name))
            else:
                self.fail(node, f"`{name}` is not known to hold an image")
        return self.img_bind[name]

    # -- inlining
    def inline(self, key, call: ast.Call, with_cb: bool) -> list:
        if self.depth > 6:
            self.fail(call, "inlining too deep (recursion?)")
        info = self.tx.info(key)
        pre = []
        img_args: dict[int, int] = {}
        cb_term = None
        args = list(call.args)
        if any(isinstance(a, ast.Starred) for a in args):
            star_at = min(i for i, a in enumerate(args) if isinstance(a, ast.Starred))
        else:
            star_at = len(args)
        for i, a in enumerate(args):
            if with_cb and i == 0:
                cb_term = self.callback_term(a, call)
                continue
            self.last_opened = None
            pre += self.ops(a)
            if isinstance(a, ast.Name) and a.id in self.img_bind:
                img_args[i] = self.img_bind[a.id]
        for k in call.keywords:
            pre += self.ops(k.value)
        # parameter binding (methods called through self: skip `self`)
        params = list(info.pos_params)
        if params and params[0] in ("self", "cls"):
            params = params[1:]
        bound: dict[str, ast.expr] = {}
        for i, a in enumerate(args[:star_at]):
            if i < len(params):
                bound[params[i]] = a
        unknown = set(params[star_at:]) if star_at < len(args) else set()
        for k in call.keywords:
            if k.arg is None:
                unknown |= set(info.params)
            else:
                bound[k.arg] = k.value
        img_bind = {}
        for i, idx in img_args.items():
            if i < len(params):
                img_bind[params[i]] = idx
        callbacks = {}
        if with_cb:
            cbname = params[0]
            if (key, cbname) not in CALLBACK_PARAMS:
                self.fail(call, f"`{key}`: first parameter `{cbname}` is not a registered callback")
            callbacks[cbname] = cb_term
        return pre + [self.inline_node(info.fn, key, call, callbacks, img_bind, info=info, bound=bound, unknown=unknown)]

    def callback_term(self, a, call):
        """Skeleton of calling the callback expression `a`."""
        I = self.info
        if isinstance(a, ast.Lambda):
            ops_ = self.ops(a.body)
            t = Seq(ops_)
            return lambda fr, node, img_args: t
        if isinstance(a, ast.Name) and a.id in I.nested:
            nf = I.nested[a.id]

            def run(fr, node, img_args, nf=nf, name=a.id):
                params = [x.arg for x in nf.args.args]
                ib = {params[i]: idx for i, idx in img_args.items() if i < len(params)}
                return self.inline_node(nf, f"{I.key}.{name}", node, {}, ib, closure=self)
            return run
        src = ast.unparse(a)
        act = I.table.get(src)
        if act and act[0] == "op":
            return lambda fr, node, img_args: fr.op(act[1], node)
        self.fail(call, f"callback argument `{src}` is not a lambda, a local function or a tracked method")

    def inline_node(self, fn, key, call, callbacks, img_bind, info=None, bound=None, unknown=(), closure=None):
        info = info or self.tx.info(key)
        self.root.ninline += 1
        short = key.replace(".", "_")
        aux_name = f"sk_{self.root.name}__{short}_{self.root.ninline}"
        prefix = f"{self.prefix}{key}#{self.root.ninline}."
        fr = Frame(self.tx, self.root, info, prefix, False, callbacks, img_bind, self.depth + 1, closure=closure)
        entry = []
        for name in sorted(info.flags):
            idx = self.root.flag(prefix + name)
            label = f"{key}.{name}"
            if name in info.params:
                arg = (bound or {}).get(name)
                if arg is None and name not in unknown:
                    arg = info.defaults.get(name)
                if name in unknown or arg is None:
                    entry.append(("Havoc", idx, label))
                elif isinstance(arg, ast.Constant):
                    entry.append(("SetVar", idx, bool(arg.value), label))
                else:
                    fl = self.flag_of(arg)
                    if fl is not None:
                        entry.append(("CopyVar", idx, fl[0], fl[1], f"{label} := {'not ' if fl[1] else ''}{fl[2]}"))
                    else:
                        entry.append(("Havoc", idx, label))
            # locals are assigned before use by the callee itself; be safe anyway
            else:
                entry.append(("Havoc", idx, label))
        for s in sorted(info.expr_flags):
            if s not in STABLE_EXPRS:
                entry.append(("Havoc", self.root.flag(prefix + s), f"{key}: {s}"))
        body = fr.block(fn.body)
        self.root.aux.append((aux_name, body, f"{info.mod.rel}:{fn.lineno} `{key}` inlined at line {call.lineno} of `{self.info.key}`"))
        return Seq(entry + [("Call", ("Ref", aux_name))])

    # -- statements
    def block(self, stmts) -> tuple:
        return Seq([self.stmt(s) for s in stmts])

    def cond(self, test, a, c):
        fl = self.flag_of(test)
        if fl is not None:
            idx, neg, label = fl
            return ("IfVar", idx, c, a, label) if neg else ("IfVar", idx, a, c, label)
        return Seq(self.ops(test) + [Choice(a, c)])

    def assign_target(self, t, value, node) -> list:
        """Effects of storing into target t (value already evaluated)."""
        I = self.info
        if isinstance(t, ast.Name):
            name = t.id
            if name in I.flags:
                idx = self.root.flag(self.q(name))
                if isinstance(value, ast.Constant) and isinstance(value.value, bool):
                    return [("SetVar", idx, value.value, name)]
                fl = self.flag_of(value) if value is not None else None
                if fl is not None:
                    return [("CopyVar", idx, fl[0], fl[1], f"{name} := {'not ' if fl[1] else ''}{fl[2]}")]
                return [("Havoc", idx, name)]
            if name in I.tsnaps:
                return [self.op(f"MutAttr {self.root.snap(self.q(name))}", node)]
            if name in self.img_bind:
                del self.img_bind[name]
            return []
        if isinstance(t, (ast.Tuple, ast.List)):
            out = []
            for x in t.elts:
                out += self.assign_target(x, None, node)
            return out
        if isinstance(t, ast.Starred):
            return self.assign_target(t.value, None, node)
        if isinstance(t, ast.Subscript):
            base = t
            while isinstance(base, (ast.Subscript, ast.Attribute)):
                base = base.value
            if isinstance(base, ast.Name) and base.id in I.tsnaps:
                out = []
                # index expressions
                n = t
                while isinstance(n, ast.Subscript):
                    out += self.ops(n.slice)
                    n = n.value
                return out + [self.op(f"MutAttr {self.root.snap(self.q(base.id))}", node)]
            return self.ops(t.value) + self.ops(t.slice) + [self.op("Other", node)]
        if isinstance(t, ast.Attribute):
            s = ast.unparse(t)
            if s in ATTR_PUT and isinstance(value, ast.Name) and I.rsnaps.get(value.id) == ATTR_PUT[s]:
                r = ATTR_PUT[s]
                return [self.op(f"Put {r} {self.root.snap(self.q(value.id))}", node)]
            if s in ATTR_MOD:
                return [self.op(f"Modify {ATTR_MOD[s]}", node)]
            # attribute store on an untracked object (may be a property: may raise)
            return self.ops(t.value) + [self.op("Other", node)]
        self.fail(node, f"unsupported assignment target {type(t).__name__}")

    def stmt(self, s) -> tuple:
        I = self.info
        if isinstance(s, ast.Expr):
            if isinstance(s.value, ast.Constant):
                return ("Skip",)
            return Seq(self.ops(s.value))
        if isinstance(s, ast.Pass):
            return ("Skip",)
        if isinstance(s, (ast.Import, ast.ImportFrom)):
            for a in s.names:
                nm = (a.asname or a.name).split(".")[0]
                if nm in I.table or nm in EXPECT_IMPORTS.get(I.rel, {}):
                    self.fail(s, f"local import rebinding tracked name `{nm}`")
            return self.op("Other", s)
        if isinstance(s, (ast.FunctionDef,)):
            if s.decorator_list:
                self.fail(s, "decorated nested function")
            return ("Skip",)
        if isinstance(s, (ast.Nonlocal, ast.Global)):
            return ("Skip",)
        if isinstance(s, ast.Assign):
            v = s.value
            # tracked forms first
            if len(s.targets) == 1 and isinstance(s.targets[0], ast.Name):
                name = s.targets[0].id
                if isinstance(v, ast.Call) and I.table.get(ast.unparse(v.func)) == ("getattr",):
                    if v.keywords or len(v.args) != 1:
                        self.fail(s, "tcgetattr() with unexpected arguments")
                    return Seq(self.args_ops(v) + [self.op(f"GetAttr {self.root.snap(self.q(name))}", s)])
                if isinstance(v, ast.Attribute) and ast.unparse(v) in ATTR_SNAP and name in I.rsnaps:
                    r = ATTR_SNAP[ast.unparse(v)]
                    return self.op(f"Snap {r} {self.root.snap(self.q(name))}", s)
                if name in I.aliases:
                    return ("Skip",)
                if name in I.iters:
                    return Seq(self.ops(v))
                if isinstance(v, ast.Call) and I.table.get(ast.unparse(v.func)) == ("openimg",):
                    pre = self.ops(v)
                    self.img_bind[name] = self.last_opened
                    return Seq(pre)
            pre = self.ops(v)
            out = []
            for t in s.targets:
                out += self.assign_target(t, v, s)
            return Seq(pre + out)
        if isinstance(s, ast.AnnAssign):
            if s.value is None:
                return ("Skip",)
            return Seq(self.ops(s.value) + self.assign_target(s.target, s.value, s))
        if isinstance(s, ast.AugAssign):
            return Seq(self.ops(s.value) + self.assign_target(s.target, None, s))
        if isinstance(s, ast.Return):
            return Seq(self.ops(s.value) + [("Return",)])
        if isinstance(s, ast.Raise):
            if s.exc is None:
                if self.handler_kind is None:
                    self.fail(s, "bare `raise` outside an exception handler")
                return ("Raise", self.handler_kind)
            pre = self.ops(s.exc) + self.ops(s.cause)
            nm = ast.unparse(s.exc.func if isinstance(s.exc, ast.Call) else s.exc)
            kind = "KI" if nm == "KeyboardInterrupt" else "Exc"
            if nm in ("BaseException", "SystemExit", "GeneratorExit"):
                self.fail(s, f"raise {nm}")
            return Seq(pre + [("Raise", kind)])
        if isinstance(s, ast.Assert):
            return Seq(self.ops(s.test) + [Maybe(Seq(self.ops(s.msg) + [("Raise", "Exc")]))])
        if isinstance(s, ast.If):
            return self.cond(s.test, self.block(s.body), self.block(s.orelse))
        if isinstance(s, ast.While):
            if s.orelse:
                self.fail(s, "while ... else")
            self.no_break(s)
            fl = self.flag_of(s.test)
            if fl is not None:
                self.fail(s, "loop on a tracked boolean")
            c = Seq(self.ops(s.test))
            return Seq([("Loop", Seq([c, self.block(s.body)])), c])
        if isinstance(s, ast.For):
            if s.orelse:
                self.fail(s, "for ... else")
            self.no_break(s)
            it = ast.unparse(s.iter)
            pre = []
            if it in ITER_OPS:
                self.check_iter_expr(s.iter)
                nxt = self.op(ITER_OPS[it], s)
            elif isinstance(s.iter, (ast.Tuple, ast.List, ast.Constant)):
                pre, nxt = self.ops(s.iter), None
            else:
                pre, nxt = self.ops(s.iter), self.op("Other", s)
            tgt = self.assign_target(s.target, None, s)
            body = self.block(s.body)
            if nxt is None:
                return Seq(pre + [("Loop", Seq(tgt + [body]))])
            # the last next() raises StopIteration, which ends the loop
            last = ("TryExcept", False, nxt, "CNo", ("Skip",), "CMay", ("Skip",))
            return Seq(pre + [("Loop", Seq([nxt] + tgt + [body])), last])
        if isinstance(s, ast.Try):
            return self.try_(s)
        self.fail(s, f"unsupported statement {type(s).__name__}")

    def no_break(self, loop):
        todo = list(loop.body)
        while todo:
            n = todo.pop()
            if isinstance(n, (ast.Break, ast.Continue)):
                self.fail(n, f"`{type(n).__name__.lower()}` in a loop")
            if isinstance(n, (ast.For, ast.While, ast.FunctionDef, ast.Lambda)):
                if isinstance(n, (ast.For, ast.While)):
                    self.no_break(n)
                continue
            todo.extend(ast.iter_child_nodes(n))

    def classify(self, t, node):
        """exception type expression -> {slot: mode}"""
        if t is None:
            return {"KI": "CYes", "Exc": "CYes"}
        if isinstance(t, ast.Tuple):
            out = {}
            for e in t.elts:
                for k, m in self.classify(e, node).items():
                    out[k] = "CYes" if "CYes" in (m, out.get(k)) else m
            return out
        nm = ast.unparse(t)
        if nm == "KeyboardInterrupt":
            return {"KI": "CYes"}
        if nm == "Exception":
            return {"Exc": "CYes"}
        if nm == "BaseException":
            return {"KI": "CYes", "Exc": "CYes"}
        if nm in ("SystemExit", "GeneratorExit"):
            return {}
        if isinstance(t, (ast.Name, ast.Attribute)):
            return {"Exc": "CMay"}  # a specific Exception subclass
        self.fail(node, f"unsupported exception type expression `{nm}`")

    def handler_body(self, h, kind):
        for st in h.body:
            if not isinstance(st, (ast.Pass, ast.Return, ast.Raise, ast.Expr)):
                self.fail(st, "exception handler with control flow / assignments (handlers must be small clean-up blocks)")
        saved = self.handler_kind
        self.handler_kind = kind
        try:
            return self.block(h.body)
        finally:
            self.handler_kind = saved

    def try_(self, s: ast.Try):
        body = self.block(s.body)
        t = body
        if s.handlers:
            slots = {"KI": None, "Exc": None}
            for h in s.handlers:
                for slot, mode in self.classify(h.type, h).items():
                    if slots[slot] is None:
                        slots[slot] = (mode, h)
                    elif slots[slot][0] == "CYes":
                        pass  # shadowed by an earlier handler that certainly catches this kind
                    else:
                        self.fail(h, "two handlers may catch the same kind of exception (not representable)")
            if s.orelse:
                for h in s.handlers:
                    if not isinstance(h.body[-1], (ast.Return, ast.Raise)):
                        self.fail(s, "try/except/else whose handler falls through")
            mk, hk = ("CNo", ("Skip",))
            me, he = ("CNo", ("Skip",))
            if slots["KI"]:
                mk, hk = slots["KI"][0], self.handler_body(slots["KI"][1], "KI")
            if slots["Exc"]:
                me, he = slots["Exc"][0], self.handler_body(slots["Exc"][1], "Exc")
            t = ("TryExcept", self.prot, body, mk, hk, me, he)
            if s.orelse:
                t = Seq([t, self.block(s.orelse)])
        elif s.orelse:
            self.fail(s, "try/else without handlers")
        if s.finalbody:
            t = ("TryFinally", self.prot, t, self.block(s.finalbody))
        return t


class Translator:
    def __init__(self, repo: Path):
        self.repo = repo
        self._mods: dict[str, Module] = {}
        self._infos: dict[str, FnInfo] = {}

    def module(self, rel) -> Module:
        if rel not in self._mods:
            self._mods[rel] = Module(self.repo, rel)
        return self._mods[rel]

    def info(self, key) -> FnInfo:
        if key not in self._infos:
            self._infos[key] = FnInfo(self, key)
        return self._infos[key]

    def root(self, name: str, key: str, cb_params=(), fn=None):
        """Translate function `key` as a root skeleton called `sk_<name>`."""
        info = self.info(key)
        root = Root(name)
        callbacks = {}
        for p in cb_params:
            callbacks[p] = (lambda fr, node, img_args, p=p: ("Ref", f"cb_{p}"))
        fr = Frame(self, root, info, "", True, callbacks, {}, 0)
        for n in sorted(info.flags):
            root.flag(n)
        body = fr.block(info.fn.body)
        return root, info, body, cb_params


# roots: (coq name, function key, callback parameters left abstract)
ROOTS = [
    ("write_tty", "write_tty", ()),
    ("read_tty", "read_tty", ()),
    ("query_terminal", "query_terminal", ()),
    ("Renderable__init_render_", "Renderable._init_render_", ("renderer",)),
    ("Renderable_render", "Renderable.render", ()),
    ("Renderable___str__", "Renderable.__str__", ()),
    ("Renderable__animate_", "Renderable._animate_", ()),
    ("Renderable_draw", "Renderable.draw", ()),
    ("BaseImage__display_animated", "BaseImage._display_animated", ()),
    ("BaseImage__renderer", "BaseImage._renderer", ("renderer",)),
    ("BaseImage_draw_render", "BaseImage.draw.render", ()),
    ("BaseImage_draw", "BaseImage.draw", ()),
    ("KittyImage__handle_interrupted_draw", "KittyImage._handle_interrupted_draw", ()),
    ("ITerm2Image__handle_interrupted_draw", "ITerm2Image._handle_interrupted_draw", ()),
]


def build(repo: Path | None = None):
    """-> (text of Skeletons.v, metadata)"""
    repo = Path(repo or core.REPO)
    tx = Translator(repo)
    out = [
        "(** GENERATED by harness/tx/tx_skel.py from the working tree of the library -- do not edit.",
        "    Effect skeletons (coq/lib/Eff.v) of the functions that must clean up after themselves. *)",
        "From Coq Require Import List Bool.",
        "Import ListNotations.",
        "From TI Require Import lib.Eff.",
        "",
    ]
    meta = {"roots": {}, "assumed_stable": set(), "untracked_flags": {}}
    for name, key, cbs in ROOTS:
        root, info, body, cbs = tx.root(name, key, cbs)
        out.append(f"(** ** {key}  ({SRC}/{info.rel}:{info.fn.lineno}) *)")
        for q, i in sorted(root.flag_idx.items(), key=lambda kv: kv[1]):
            out.append(f"(* tracked boolean {i}: {q} *)")
        for q, i in sorted(root.snap_idx.items(), key=lambda kv: kv[1]):
            out.append(f"(* snapshot variable {i}: {q} *)")
        for q, i in sorted(root.img_idx.items(), key=lambda kv: kv[1]):
            out.append(f"(* image {i}: {q} *)")
        for q, why in sorted(root.untracked_flags.items()):
            out.append(f"(* condition on `{q}` is a Choice: {why} *)")
        params = "".join(f" (cb_{p} : prog)" for p in cbs)
        REF_ARGS[0] = "".join(f" cb_{p}" for p in cbs)  # auxiliary definitions take the same callbacks
        for aux_name, term, comment in root.aux:
            out.append(f"(* {comment} *)")
            out.append(f"Definition {aux_name}{params} : prog :=\n  {show(term)}.")
        text = show(body)
        REF_ARGS[0] = ""
        out.append(f"Definition sk_{name}{params} : prog :=\n  {text}.")
        out.append(f"Definition nv_{name} : nat := {len(root.flag_idx)}.")
        for q, i in sorted(root.flag_idx.items(), key=lambda kv: kv[1]):
            ident = "".join(ch if ch.isalnum() else "_" for ch in q).strip("_")
            while "__" in ident:
                ident = ident.replace("__", "_")
            out.append(f"Definition fv_{name}__{ident} : nat := {i}.")
        out.append("")
        meta["roots"][name] = {
            "key": key, "file": f"{SRC}/{info.rel}", "line": info.fn.lineno,
            "flags": dict(root.flag_idx), "snaps": dict(root.snap_idx), "imgs": dict(root.img_idx),
            "callbacks": list(cbs),
        }
        meta["assumed_stable"] |= root.assumed
        meta["untracked_flags"].update({f"{key}:{q}": w for q, w in root.untracked_flags.items()})
    meta["assumed_stable"] = sorted(meta["assumed_stable"])
    return "\n".join(out) + "\n", meta


def main():
    try:
        text, _ = build()
    except Unsupported as e:
        print(f"tx_skel: source outside the translatable subset: {e}", file=sys.stderr)
        # make sure a stale translation is not used
        p = core.COQ / "gen" / "Skeletons.v"
        core.write_if_changed(p, "(* tx_skel.py refused the current source: " + str(e).replace("*)", "* )") + " *)\n"
                                 "From TI Require Import lib.Eff.\nDefinition skeletons_unavailable : False := I.\n")
        sys.exit(2)
    core.write_if_changed(core.COQ / "gen" / "Skeletons.v", text)


if __name__ == "__main__":
    main()
