#!/venv/bin/python
"""tx_pure.py — fail-closed translator: small PURE integer functions of /repo's source ->
/verif/coq/gen/Pure.v (Gallina over Z / bool), regenerated on every check run.

The theorems `proofs/PureTie.v` then prove, FOR ALL ARGUMENTS, that each generated function
equals the hand-written model function the property theorems are stated about
(`Padding.aligned_dims`, `Padding.resolve`, `Trim.calc_trim`, `Sizing.cols_of_px` ...).
So for these functions the tie between model and code is a proof about what the source
says now, not a sample: an edit of the source that changes the function's value anywhere
breaks the equivalence lemma (a harmless rewrite may break it too; the check then searches
for a failing input with the correspondence).

Subset (anything else -> refusal, reported as a broken obligation):
  statements   x = e | x = y = e | a, b = e1, e2 | a, b = TABLE[i] | x op= e |
               if / elif / else | return e | raise (function result becomes `option`) |
               docstrings; declared "binding" statements (unpacking of self / arguments)
  expressions  int literals, names, + - * // %, unary -, comparisons (chains of two),
               and / or / not on booleans, `e or <int>` on integers, min / max,
               conditional expressions, tuples, `ceil(e)` of an integer expression (identity)
               and `ceil(e / 2**k)` (exact: division by a power of two of an int below 2^53)
Semantics relied upon: Python int = Z (unbounded); `//` and `%` are floor division and its
remainder = Coq's Z.div / Z.modulo; evaluation order is irrelevant (no side effects in the
subset).
"""
from __future__ import annotations

import ast
import os
import sys
from pathlib import Path

VERIF = Path(__file__).resolve().parent.parent.parent
REPO = Path(os.environ.get("VERIF_REPO", "/repo"))
OUT = VERIF / "coq" / "gen" / "Pure.v"


class Refuse(Exception):
    pass


def need(cond, msg):
    if not cond:
        raise Refuse(msg)


def parse(rel):
    p = REPO / rel
    need(p.is_file(), f"{rel}: file not found")
    return ast.parse(p.read_text(), filename=str(p))


def find_class(tree, name):
    cs = [n for n in tree.body if isinstance(n, ast.ClassDef) and n.name == name]
    need(len(cs) == 1, f"class {name}: expected exactly one top-level definition, found {len(cs)}")
    return cs[0]


def find_method(cls, name):
    fs = [n for n in cls.body if isinstance(n, ast.FunctionDef) and n.name == name]
    need(len(fs) == 1, f"{cls.name}.{name}: expected exactly one definition, found {len(fs)}")
    return fs[0]


def V(name):
    return "v_" + name


class Tr:
    """Translator of one function body."""

    def __init__(self, fname, tables, bindings, cell_exprs=None):
        self.fname = fname
        self.tables = tables  # name -> coq function name (Z -> Z*Z)
        self.bindings = bindings  # unparse(stmt) -> dict(var -> type) introduced as parameters
        self.can_raise = False
        self.used_bindings = set()
        self.cell_exprs = cell_exprs or {}  # unparse(expr) -> parameter name

    # ------------------------------------------------------------ expressions
    def expr(self, e, env):
        """-> (term, type) with type 'Z' | 'bool' | ('tuple', n)"""
        src = ast.unparse(e)
        if src in self.cell_exprs:
            return V(self.cell_exprs[src]), "Z"
        if isinstance(e, ast.Constant):
            need(isinstance(e.value, int) and not isinstance(e.value, bool), f"{self.fname}: constant {e.value!r}")
            return (f"{e.value}" if e.value >= 0 else f"({e.value})"), "Z"
        if isinstance(e, ast.Name):
            need(e.id in env, f"{self.fname}: name `{e.id}` used before definition (line {e.lineno})")
            return V(e.id), env[e.id]
        if isinstance(e, ast.UnaryOp):
            t, ty = self.expr(e.operand, env)
            if isinstance(e.op, ast.USub):
                need(ty == "Z", f"{self.fname}: unary minus on {ty}")
                return f"(- {t})", "Z"
            if isinstance(e.op, ast.Not):
                need(ty == "bool", f"{self.fname}: `not` on {ty}")
                return f"(negb {t})", "bool"
            raise Refuse(f"{self.fname}: unary operator {type(e.op).__name__}")
        if isinstance(e, ast.BinOp):
            a, ta = self.expr(e.left, env)
            b, tb = self.expr(e.right, env)
            need(ta == "Z" and tb == "Z", f"{self.fname}: arithmetic on non-integers in `{src}`")
            ops = {ast.Add: "+", ast.Sub: "-", ast.Mult: "*", ast.FloorDiv: "/", ast.Mod: "mod"}
            need(type(e.op) in ops, f"{self.fname}: operator {type(e.op).__name__} in `{src}`")
            return f"({a} {ops[type(e.op)]} {b})", "Z"
        if isinstance(e, ast.Compare):
            need(len(e.ops) in (1, 2), f"{self.fname}: comparison chain `{src}`")
            terms = [self.expr(x, env) for x in [e.left] + e.comparators]
            need(all(t == "Z" for _, t in terms), f"{self.fname}: comparison of non-integers `{src}`")
            ops = {ast.Lt: "<?", ast.LtE: "<=?", ast.Gt: ">?", ast.GtE: ">=?", ast.Eq: "=?"}
            parts = []
            for i, op in enumerate(e.ops):
                if isinstance(op, ast.NotEq):
                    parts.append(f"(negb ({terms[i][0]} =? {terms[i + 1][0]}))")
                else:
                    need(type(op) in ops, f"{self.fname}: comparison {type(op).__name__}")
                    parts.append(f"({terms[i][0]} {ops[type(op)]} {terms[i + 1][0]})")
            return (parts[0] if len(parts) == 1 else f"({parts[0]} && {parts[1]})"), "bool"
        if isinstance(e, ast.BoolOp):
            vals = [self.expr(x, env) for x in e.values]
            if all(t == "bool" for _, t in vals):
                op = " && " if isinstance(e.op, ast.And) else " || "
                return "(" + op.join(t for t, _ in vals) + ")", "bool"
            # integer `a or b`: a if a != 0 else b
            need(isinstance(e.op, ast.Or) and len(vals) == 2 and vals[0][1] == "Z" and vals[1][1] == "Z",
                 f"{self.fname}: boolean operator on mixed types `{src}`")
            return f"(let o_ := {vals[0][0]} in if o_ =? 0 then {vals[1][0]} else o_)", "Z"
        if isinstance(e, ast.IfExp):
            c, tc = self.expr(e.test, env)
            need(tc == "bool", f"{self.fname}: non-boolean condition `{ast.unparse(e.test)}`")
            a, ta = self.expr(e.body, env)
            b, tb = self.expr(e.orelse, env)
            need(ta == tb, f"{self.fname}: branches of `{src}` differ in type")
            return f"(if {c} then {a} else {b})", ta
        if isinstance(e, ast.Tuple):
            vals = [self.expr(x, env) for x in e.elts]
            need(all(t == "Z" for _, t in vals), f"{self.fname}: tuple of non-integers `{src}`")
            return "(" + ", ".join(t for t, _ in vals) + ")", ("tuple", len(vals))
        if isinstance(e, ast.Call) and isinstance(e.func, ast.Name) and not e.keywords:
            if e.func.id in ("min", "max") and len(e.args) == 2:
                a, ta = self.expr(e.args[0], env)
                b, tb = self.expr(e.args[1], env)
                need(ta == "Z" and tb == "Z", f"{self.fname}: {e.func.id} of non-integers")
                return f"(Z.{e.func.id} {a} {b})", "Z"
            if e.func.id == "ceil" and len(e.args) == 1:
                a = e.args[0]
                if isinstance(a, ast.BinOp) and isinstance(a.op, ast.Div):
                    need(isinstance(a.right, ast.Constant) and isinstance(a.right.value, int)
                         and a.right.value > 0 and a.right.value & (a.right.value - 1) == 0,
                         f"{self.fname}: ceil of a true division by something else than a power of two: `{src}`")
                    x, tx = self.expr(a.left, env)
                    need(tx == "Z", f"{self.fname}: ceil(x / k) with non-integer x")
                    return f"(- ((- {x}) / {a.right.value}))", "Z"
                x, tx = self.expr(a, env)
                need(tx == "Z", f"{self.fname}: ceil of a non-integer expression `{src}`")
                return x, "Z"
        raise Refuse(f"{self.fname}: expression outside the subset: `{src}` (line {getattr(e, 'lineno', '?')})")

    # ------------------------------------------------------------- statements
    def assigned(self, stmts):
        out = []

        def add(n):
            if n not in out:
                out.append(n)

        for s in stmts:
            if isinstance(s, ast.Assign):
                for t in s.targets:
                    for n in (t.elts if isinstance(t, ast.Tuple) else [t]):
                        need(isinstance(n, ast.Name), f"{self.fname}: assignment target `{ast.unparse(n)}`")
                        add(n.id)
            elif isinstance(s, ast.AugAssign):
                need(isinstance(s.target, ast.Name), f"{self.fname}: augmented target")
                add(s.target.id)
            elif isinstance(s, ast.If):
                for n in self.assigned(s.body) + self.assigned(s.orelse):
                    add(n)
        return out

    def terminates(self, stmts):
        if not stmts:
            return False
        s = stmts[-1]
        if isinstance(s, (ast.Return, ast.Raise)):
            return True
        if isinstance(s, ast.If):
            return self.terminates(s.body) and self.terminates(s.orelse)
        return False

    def ret(self, term):
        return f"Some {term}" if self.can_raise else term

    def block(self, stmts, env, tail, ind):
        pad = "  " * ind
        if not stmts:
            need(tail is not None, f"{self.fname}: control falls off the end of the function")
            return pad + tail(env)
        s, rest = stmts[0], stmts[1:]
        if isinstance(s, ast.Expr) and isinstance(s.value, ast.Constant) and isinstance(s.value.value, str):
            return self.block(rest, env, tail, ind)
        src = ast.unparse(s)
        if src in self.bindings:
            self.used_bindings.add(src)
            env2 = dict(env)
            env2.update(self.bindings[src])
            return self.block(rest, env2, tail, ind)
        if isinstance(s, ast.Return):
            need(not rest, f"{self.fname}: statements after return")
            need(s.value is not None, f"{self.fname}: bare return")
            t, _ = self.expr(s.value, env)
            return pad + self.ret(t)
        if isinstance(s, ast.Raise):
            need(not rest, f"{self.fname}: statements after raise")
            need(self.can_raise, f"{self.fname}: internal: raise in a function not marked as raising")
            return pad + "None"
        if isinstance(s, ast.AugAssign):
            need(isinstance(s.target, ast.Name) and s.target.id in env and env[s.target.id] == "Z",
                 f"{self.fname}: augmented assignment `{src}`")
            fake = ast.BinOp(left=ast.Name(id=s.target.id, ctx=ast.Load()), op=s.op, right=s.value)
            ast.fix_missing_locations(fake)
            t, ty = self.expr(fake, env)
            return f"{pad}let {V(s.target.id)} := {t} in\n" + self.block(rest, env, tail, ind)
        if isinstance(s, ast.Assign):
            # x = y = e
            if all(isinstance(t, ast.Name) for t in s.targets):
                t, ty = self.expr(s.value, env)
                need(ty in ("Z", "bool"), f"{self.fname}: assignment of a tuple to a name `{src}`")
                env2 = dict(env)
                lines = ""
                first = s.targets[0].id
                lines += f"{pad}let {V(first)} := {t} in\n"
                env2[first] = ty
                for other in s.targets[1:]:
                    lines += f"{pad}let {V(other.id)} := {V(first)} in\n"
                    env2[other.id] = ty
                return lines + self.block(rest, env2, tail, ind)
            need(len(s.targets) == 1 and isinstance(s.targets[0], ast.Tuple)
                 and all(isinstance(n, ast.Name) for n in s.targets[0].elts), f"{self.fname}: assignment `{src}`")
            names = [n.id for n in s.targets[0].elts]
            v = s.value
            if (isinstance(v, ast.Subscript) and isinstance(v.value, ast.Name) and v.value.id in self.tables):
                i, ti = self.expr(v.slice, env)
                need(ti == "Z" and len(names) == 2, f"{self.fname}: table lookup `{src}`")
                t = f"{self.tables[v.value.id]} {i}"
            else:
                t, ty = self.expr(v, env)
                need(ty == ("tuple", len(names)), f"{self.fname}: tuple assignment arity `{src}`")
            env2 = dict(env)
            for n in names:
                env2[n] = "Z"
            pat = ", ".join(V(n) for n in names)
            return f"{pad}let '({pat}) := {t} in\n" + self.block(rest, env2, tail, ind)
        if isinstance(s, ast.If):
            c, tc = self.expr(s.test, env)
            need(tc == "bool", f"{self.fname}: non-boolean condition `{ast.unparse(s.test)}`")
            if self.terminates(s.body) and self.terminates(s.orelse):
                need(not rest, f"{self.fname}: statements after an if whose branches all return")
                return (f"{pad}if {c} then\n" + self.block(s.body, env, None, ind + 1) + f"\n{pad}else\n"
                        + self.block(s.orelse, env, None, ind + 1))
            if self.terminates(s.body) and not s.orelse:
                return (f"{pad}if {c} then\n" + self.block(s.body, env, None, ind + 1) + f"\n{pad}else\n"
                        + self.block(rest, env, tail, ind))
            need(not self.terminates(s.body) and not self.terminates(s.orelse) and not self._has_exit(s.body)
                 and not self._has_exit(s.orelse), f"{self.fname}: return/raise inside a joining if (line {s.lineno})")
            names = self.assigned([s])
            need(names, f"{self.fname}: if without effect (line {s.lineno})")
            ab, ao = self.assigned(s.body), self.assigned(s.orelse)
            # a name assigned in one branch only and not defined before is local to that branch:
            # it is not joined, hence not in scope afterwards (a later use is refused as undefined)
            names = [n for n in names if n in env or (n in ab and n in ao)]
            need(names, f"{self.fname}: if without joined effect (line {s.lineno})")
            types = {}

            def mk_tail(e2):
                for n in names:
                    need(n in e2, f"{self.fname}: `{n}` undefined at the end of a branch (line {s.lineno})")
                    if n in types:
                        need(types[n] == e2[n], f"{self.fname}: `{n}` has different types in two branches")
                    types[n] = e2[n]
                return "(" + ", ".join(V(n) for n in names) + ")" if len(names) > 1 else V(names[0])

            tb = self.block(s.body, env, mk_tail, ind + 2)
            to = self.block(s.orelse, env, mk_tail, ind + 2)
            env2 = dict(env)
            env2.update(types)
            pat = ("'(" + ", ".join(V(n) for n in names) + ")") if len(names) > 1 else V(names[0])
            return (f"{pad}let {pat} :=\n{pad}  if {c} then\n{tb}\n{pad}  else\n{to} in\n"
                    + self.block(rest, env2, tail, ind))
        raise Refuse(f"{self.fname}: statement outside the subset: `{src.splitlines()[0]}` (line {s.lineno})")

    def _has_exit(self, stmts):
        for s in stmts:
            for n in ast.walk(s):
                if isinstance(n, (ast.Return, ast.Raise)):
                    return True
        return False


def has_raise(fn):
    return any(isinstance(n, ast.Raise) for n in ast.walk(fn))


def translate(fn, coq_name, params, *, tables=None, bindings=None, guards=None, cell_exprs=None, comment=""):
    """params: list of (python name, type) in Coq parameter order.  bindings: statements that only
    unpack self / arguments, mapped to the names they introduce (which must be params).
    guards: {unparse(test): param} for `if <test>: raise` on object state modelled by a bool param."""
    tr = Tr(coq_name, tables or {}, bindings or {}, cell_exprs)
    tr.can_raise = has_raise(fn)
    body = list(fn.body)
    if guards:
        new = []
        for s in body:
            if isinstance(s, ast.If) and ast.unparse(s.test) in guards and not s.orelse:
                s2 = ast.If(test=ast.Name(id=guards[ast.unparse(s.test)], ctx=ast.Load()), body=s.body, orelse=[])
                ast.copy_location(s2, s)
                ast.fix_missing_locations(s2)
                new.append(s2)
            else:
                new.append(s)
        body = new
    env = {}
    declared = dict(params)
    # parameters introduced by binding statements become visible only after that statement
    bound_later = set()
    for b in (bindings or {}).values():
        for n, ty in b.items():
            need(n in declared and declared[n] == ty, f"{coq_name}: binding introduces undeclared parameter {n}")
            bound_later.add(n)
    for n, ty in params:
        if n not in bound_later:
            env[n] = ty
    term = tr.block(body, env, None, 1)
    missing = set(bindings or {}) - tr.used_bindings
    need(not missing, f"{coq_name}: expected statement(s) not found in the source: {sorted(missing)}")
    ps = " ".join(f"({V(n)} : {ty})" for n, ty in params)
    return f"(** {comment} *)\nDefinition {coq_name} {ps} :=\n{term}.\n"


def table_of_pairs(tree, name, coq_name):
    """module-level NAME = ((a, b), (c, d), ...)  ->  Definition coq_name (i : Z) : Z * Z;
    out-of-range index (IndexError in Python; negative indices are not modelled) -> (0, 0)"""
    for st in tree.body:
        if isinstance(st, ast.Assign) and len(st.targets) == 1 and isinstance(st.targets[0], ast.Name) \
                and st.targets[0].id == name:
            v = ast.literal_eval(st.value)
            need(isinstance(v, tuple) and v and all(isinstance(p, tuple) and len(p) == 2
                 and all(isinstance(x, int) and not isinstance(x, bool) for x in p) for p in v),
                 f"{name}: not a tuple of integer pairs")
            arms = " ".join(f"| {i} => ({a}, {b})" for i, (a, b) in enumerate(v))
            return (f"(** {name} = {v!r}; index outside 0..{len(v) - 1} is not modelled (-> (0, 0)) *)\n"
                    f"Definition {coq_name} (i : Z) : Z * Z :=\n  match i with {arms} | _ => (0, 0) end.\n"
                    f"Definition {coq_name}_len : Z := {len(v)}.\n")
    raise Refuse(f"{name}: module-level assignment not found")


def enum_values(tree, cls_name):
    """IntEnum class with first member = <int> and the rest auto(): name -> value"""
    cls = find_class(tree, cls_name)
    vals, cur = {}, None
    for st in cls.body:
        if isinstance(st, ast.Expr):
            continue
        need(isinstance(st, ast.Assign) and len(st.targets) == 1 and isinstance(st.targets[0], ast.Name),
             f"enum {cls_name}: unexpected statement at line {st.lineno}")
        if isinstance(st.value, ast.Constant) and isinstance(st.value.value, int):
            cur = st.value.value
        else:
            need(isinstance(st.value, ast.Call) and ast.unparse(st.value) == "auto()" and cur is not None,
                 f"enum {cls_name}: member {st.targets[0].id} is neither an int nor auto()")
            cur += 1
        vals[st.targets[0].id] = cur
    return vals


def dataclass_fields(cls):
    return [st.target.id for st in cls.body if isinstance(st, ast.AnnAssign) and isinstance(st.target, ast.Name)]


def main():
    out = ["(** GENERATED by harness/tx/tx_pure.py from the working tree of the repository —\n"
           "    do not edit.  Regenerated (and rewritten only if changed) on every check run.\n"
           "    Python integers are Z; // and % are Z.div and Z.modulo. *)\n"
           "From Coq Require Import ZArith Bool.\nOpen Scope Z_scope.\nOpen Scope bool_scope.\n"]
    Z6 = ["size", "image_size", "trim_side1", "pad_side1", "trim_side2", "pad_side2"]

    # ---- widget/_urwid.py
    urw = parse("src/term_image/widget/_urwid.py")
    fn = find_method(find_class(urw, "UrwidImageCanvas"), "_ti_calc_trim")
    need([a.arg for a in fn.args.args] == Z6, "_ti_calc_trim: parameter list changed")
    out.append(translate(fn, "ti_calc_trim", [(n, "Z") for n in Z6],
                         comment="widget/_urwid.py: UrwidImageCanvas._ti_calc_trim"))

    # ---- padding.py
    pad = parse("src/term_image/padding.py")
    out.append(table_of_pairs(pad, "_ALIGN_RATIOS", "align_ratios"))
    for en, members in (("HAlign", ["LEFT", "CENTER", "RIGHT"]), ("VAlign", ["TOP", "MIDDLE", "BOTTOM"])):
        vals = enum_values(pad, en)
        need(list(vals) == members, f"enum {en}: members {list(vals)}")
        for m in members:
            out.append(f"Definition {en.lower()}_{m.lower()} : Z := {vals[m]}.\n")
    ap = find_class(pad, "AlignedPadding")
    need(dataclass_fields(ap)[:4] == ["width", "height", "h_align", "v_align"],
         f"AlignedPadding: dataclass fields {dataclass_fields(ap)}")
    fn = find_method(ap, "_get_exact_dimensions_")
    out.append(translate(
        fn, "aligned_exact_dimensions",
        [("relative", "bool"), ("width", "Z"), ("height", "Z"), ("h_align", "Z"), ("v_align", "Z"),
         ("render_width", "Z"), ("render_height", "Z")],
        tables={"_ALIGN_RATIOS": "align_ratios"},
        bindings={"width, height, h_align, v_align = astuple(self)[:4]":
                  {"width": "Z", "height": "Z", "h_align": "Z", "v_align": "Z"},
                  "render_width, render_height = render_size": {"render_width": "Z", "render_height": "Z"}},
        guards={"self.relative": "relative"},
        comment="padding.py: AlignedPadding._get_exact_dimensions_ (None = RelativePaddingDimensionError)"))
    # relative property: `return self.width <= 0 or self.height <= 0` somewhere in the class
    rel = [n for n in ap.body if isinstance(n, ast.FunctionDef) and n.name == "relative"]
    if rel:
        rets = [n for n in ast.walk(rel[0]) if isinstance(n, ast.Return)]
        need(len(rets) == 1, "AlignedPadding.relative: expected one return")
        src = ast.unparse(rets[0].value)
        need(src in ("self._relative", "not self.width > 0 < self.height", "self.width <= 0 or self.height <= 0"),
             f"AlignedPadding.relative: unexpected body `{src}`")
    fn = find_method(ap, "resolve")
    # body: if not self.relative: return self ; unpack ; two ifs ; return type(self)(width, height, *args)
    stmts = [s for s in fn.body if not (isinstance(s, ast.Expr) and isinstance(s.value, ast.Constant))]
    need(len(stmts) == 6, f"AlignedPadding.resolve: {len(stmts)} statements, expected 6")
    need(ast.unparse(stmts[0]) == "if not self.relative:\n    return self", "AlignedPadding.resolve: first statement")
    need(ast.unparse(stmts[1]) == "width, height, *args, _ = astuple(self)", "AlignedPadding.resolve: unpacking")
    need(ast.unparse(stmts[2]) == "terminal_width, terminal_height = terminal_size", "AlignedPadding.resolve: terminal size")
    need(ast.unparse(stmts[5]) == "return type(self)(width, height, *args)", "AlignedPadding.resolve: return")
    fake = ast.parse("def f():\n    pass").body[0]
    ret = ast.parse("return (width, height)").body[0]
    fake.body = stmts[3:5] + [ret]
    ast.fix_missing_locations(fake)
    out.append(translate(fake, "aligned_resolve_relative",
                         [("width", "Z"), ("height", "Z"), ("terminal_width", "Z"), ("terminal_height", "Z")],
                         comment="padding.py: AlignedPadding.resolve, the branch taken when self.relative "
                                 "(new width, new height); otherwise self is returned unchanged"))
    pc = find_class(pad, "Padding")
    fn = find_method(pc, "get_padded_size")
    stmts = [s for s in fn.body if not (isinstance(s, ast.Expr) and isinstance(s.value, ast.Constant))]
    need(len(stmts) == 3 and ast.unparse(stmts[2]) == "return _Size(left + width + right, top + height + bottom)",
         "Padding.get_padded_size: shape changed")
    fake = ast.parse("def f():\n    pass").body[0]
    fake.body = stmts[:2] + [ast.parse("return (left + width + right, top + height + bottom)").body[0]]
    ast.fix_missing_locations(fake)
    out.append(translate(fake, "padded_size",
                         [("left", "Z"), ("top", "Z"), ("right", "Z"), ("bottom", "Z"), ("width", "Z"), ("height", "Z")],
                         bindings={"left, top, right, bottom = self._get_exact_dimensions_(render_size)":
                                   {"left": "Z", "top": "Z", "right": "Z", "bottom": "Z"},
                                   "width, height = render_size": {"width": "Z", "height": "Z"}},
                         comment="padding.py: Padding.get_padded_size"))

    # ---- image/block.py, image/common.py: pixels <-> cells
    blk = parse("src/term_image/image/block.py")
    bi = find_class(blk, "BlockImage")
    for meth, other in (("_pixels_cols", "cols"), ("_pixels_lines", "lines")):
        fn = find_method(bi, meth)
        rets = [s for s in fn.body if isinstance(s, ast.Return)]
        need(len(rets) == 1 and isinstance(rets[0].value, ast.IfExp)
             and ast.unparse(rets[0].value.test) == "pixels is not None", f"BlockImage.{meth}: shape changed")
        for which, e, p in (("of_px", rets[0].value.body, "pixels"), ("to_px", rets[0].value.orelse, other)):
            fake = ast.parse("def f():\n    pass").body[0]
            fake.body = [ast.Return(value=e)]
            ast.fix_missing_locations(fake)
            out.append(translate(fake, f"block{meth}_{which}", [(p, "Z")],
                                 comment=f"image/block.py: BlockImage.{meth}, {p}= branch"))
    com = parse("src/term_image/image/common.py")
    gi = find_class(com, "GraphicsImage")
    for meth, other, idx in (("_pixels_cols", "cols", 0), ("_pixels_lines", "lines", 1)):
        fn = find_method(gi, meth)
        rets = [s for s in fn.body if isinstance(s, ast.Return)]
        need(len(rets) == 1 and isinstance(rets[0].value, ast.IfExp)
             and ast.unparse(rets[0].value.test) == "pixels is not None", f"GraphicsImage.{meth}: shape changed")
        cell = {f"(get_cell_size() or (1, 2))[{idx}]": "cell"}
        for which, e, p in (("of_px", rets[0].value.body, "pixels"), ("to_px", rets[0].value.orelse, other)):
            fake = ast.parse("def f():\n    pass").body[0]
            fake.body = [ast.Return(value=e)]
            ast.fix_missing_locations(fake)
            out.append(translate(fake, f"graphics{meth}_{which}", [("cell", "Z"), (p, "Z")], cell_exprs=cell,
                                 comment=f"image/common.py: GraphicsImage.{meth}, {p}= branch; cell = "
                                         f"(get_cell_size() or (1, 2))[{idx}]"))

    text = "\n".join(out)
    if not OUT.exists() or OUT.read_text() != text:
        OUT.parent.mkdir(parents=True, exist_ok=True)
        OUT.write_text(text)


if __name__ == "__main__":
    try:
        main()
    except Refuse as e:
        print(f"tx_pure: REFUSED: {e}")
        # leave a file that does not compile, so that stale theorems cannot be re-used
        OUT.write_text(f"(* tx_pure refused the current source: {str(e).replace('*)', '* )')} *)\n"
                       "Definition refused : True := I I.\n")
        sys.exit(1)
