#!/venv/bin/python
"""tx_screen.py -- FAIL-CLOSED translator for C18: the try/finally skeleton of
UrwidImageScreen.draw_screen (src/term_image/widget/_urwid.py) -> coq/gen/ScreenSkel.v,
a `prog` of coq/lib/Eff.v in which

    self.write(BEGIN_SYNCED_UPDATE)   ->  Op (Write WHide)    (opens  a synchronized update)
    self.write(END_SYNCED_UPDATE)     ->  Op (Write WShow)    (closes a synchronized update)
    self.flush()                      ->  Op Flush
    any other call                    ->  Op Other            (no tracked effect, may raise)
    if <call-free test>: A else: B    ->  Choice A B
    try: A finally: B                 ->  TryFinally true A B
    return <expr>                     ->  calls of <expr> as Op Other, then Return
    <attribute> = <call-free expr>    ->  Skip

(Eff's obligation bit `hidden` is read as "a synchronized update is open"; it is set by
Write WHide and cleared by Write WShow, which is all C18 uses of it.)  Anything else makes
the translator write a stub WITHOUT the skeleton, so that only C18's proofs stop building;
the exit status stays 0 because every check runs every translator.

Also (second, independent part): the CALL skeletons of UrwidImageScreen._start / _stop / clear
-> `sprog`s of coq/model/ScreenCalls.v ([sk_start], [sk_stop], [sk_clear]) in which

    super().<the method itself>(...)  ->  PCall CBase       (urwid's method: switches the screen buffers)
    self.clear_images()               ->  PCall CClearAll   (no argument at all: every image is deleted)
    any other call                    ->  PCall CCall
    if <test>: A else: B              ->  calls of <test>, then PIf A B
    return <expr>                     ->  calls of <expr>, then PRet
    <target> = <expr>                 ->  calls of <expr>

so that "images are cleared on start, stop and clear" is checked on every path of the source,
whatever the conditions (proofs/ScreenSessionSrc.v).  A method outside this subset is left out of
the generated file, so that only that proof stops building.

Separate from tx_skel.py (shared by C07 C10 C11 C13) on purpose: nothing there changes."""
from __future__ import annotations

import ast
import os
import sys
from pathlib import Path

HERE = Path(__file__).resolve().parent
sys.path.insert(0, str(HERE.parent))
import core  # noqa: E402

REL = "src/term_image/widget/_urwid.py"
OUT = core.COQ / "gen" / "ScreenSkel.v"


class Unsupported(Exception):
    pass


def where(node):
    return f"{REL}:{getattr(node, 'lineno', '?')}"


def has_call(e) -> bool:
    return any(isinstance(n, (ast.Call, ast.Await, ast.Yield, ast.YieldFrom, ast.NamedExpr)) for n in ast.walk(e))


def calls_in(e):
    """calls of an expression in evaluation order (inner first)"""
    out = []
    for n in ast.iter_child_nodes(e):
        out += calls_in(n)
    if isinstance(e, ast.Call):
        out.append(e)
    if isinstance(e, (ast.Await, ast.Yield, ast.YieldFrom, ast.NamedExpr, ast.Lambda)):
        raise Unsupported(f"{where(e)}: {type(e).__name__} in an expression")
    return out


def call_op(c: ast.Call) -> str:
    f = ast.unparse(c.func)
    if f == "self.write":
        if len(c.args) == 1 and not c.keywords and isinstance(c.args[0], ast.Name):
            if c.args[0].id == "BEGIN_SYNCED_UPDATE":
                return "Op (Write WHide)"
            if c.args[0].id == "END_SYNCED_UPDATE":
                return "Op (Write WShow)"
        raise Unsupported(f"{where(c)}: self.write() of something other than the two synchronized-update markers")
    if f == "self.flush":
        if c.args or c.keywords:
            raise Unsupported(f"{where(c)}: self.flush() with arguments")
        return "Op Flush"
    return "Op Other"


def expr_ops(e) -> list[str]:
    ops = []
    for c in calls_in(e):
        if ast.unparse(c.func) in ("self.write", "self.flush") and c is not e:
            raise Unsupported(f"{where(c)}: tracked call nested inside an expression")
        ops.append(call_op(c))
    return ops


def seq(items: list[str]) -> str:
    items = [i for i in items if i != "Skip"]
    if not items:
        return "Skip"
    return "sq [" + "; ".join(items) + "]" if len(items) > 1 else items[0]


def block(stmts) -> str:
    out = []
    for s in stmts:
        if isinstance(s, ast.Expr):
            if isinstance(s.value, ast.Constant):  # docstring
                continue
            out += expr_ops(s.value)
        elif isinstance(s, ast.Assign):
            for t in s.targets:
                if has_call(t):
                    raise Unsupported(f"{where(s)}: call in an assignment target")
                if ast.unparse(t) in ("self.write", "self.flush") or any(
                    isinstance(n, ast.Name) and n.id in ("BEGIN_SYNCED_UPDATE", "END_SYNCED_UPDATE") for n in ast.walk(t)
                ):
                    raise Unsupported(f"{where(s)}: a tracked name is rebound")
            out += expr_ops(s.value)
        elif isinstance(s, ast.If):
            out += expr_ops(s.test)
            out.append(f"Choice ({block(s.body)}) ({block(s.orelse)})")
        elif isinstance(s, ast.Try):
            if s.handlers or s.orelse or not s.finalbody:
                raise Unsupported(f"{where(s)}: try statement with handlers / else, or without finally")
            out.append(f"TryFinally true ({block(s.body)}) ({block(s.finalbody)})")
        elif isinstance(s, ast.Return):
            if s.value is not None:
                out += expr_ops(s.value)
            out.append("Return")
        elif isinstance(s, ast.Pass):
            pass
        else:
            raise Unsupported(f"{where(s)}: statement {type(s).__name__} is outside the translatable subset")
    return seq(out)


# ------------------------------------------------------------------ _start / _stop / clear


def is_super_call(c: ast.Call) -> str | None:
    """`super().name(...)` -> name"""
    f = c.func
    if (isinstance(f, ast.Attribute) and isinstance(f.value, ast.Call) and isinstance(f.value.func, ast.Name)
            and f.value.func.id == "super" and not f.value.args and not f.value.keywords):
        return f.attr
    return None


def scalls_in(e, own: str) -> list[str]:
    """the calls of an expression, in evaluation order, as scall constructors"""
    out = []
    if isinstance(e, (ast.Await, ast.Yield, ast.YieldFrom, ast.NamedExpr, ast.Lambda, ast.IfExp, ast.BoolOp,
                      ast.ListComp, ast.SetComp, ast.DictComp, ast.GeneratorExp)):
        if any(isinstance(n, ast.Call) for n in ast.walk(e)):
            raise Unsupported(f"{where(e)}: a call inside a {type(e).__name__} (conditional evaluation)")
        return out
    if isinstance(e, ast.Call):
        sup = is_super_call(e)
        if sup is not None:
            for a in list(e.args) + [k.value for k in e.keywords]:
                out += scalls_in(a, own)
            if sup != own:
                raise Unsupported(f"{where(e)}: super().{sup}() inside {own}()")
            out.append("CBase")
            return out
        if isinstance(e.func, ast.Name) and e.func.id == "super":
            raise Unsupported(f"{where(e)}: super() used other than as super().{own}(...)")
        out += scalls_in(e.func, own)
        for a in list(e.args) + [k.value for k in e.keywords]:
            out += scalls_in(a, own)
        if ast.unparse(e.func) == "self.clear_images":
            if e.args or e.keywords:
                raise Unsupported(f"{where(e)}: self.clear_images() with arguments inside {own}()")
            out.append("CClearAll")
        else:
            out.append("CCall")
        return out
    for n in ast.iter_child_nodes(e):
        out += scalls_in(n, own)
    return out


def sblock(stmts, own: str) -> str:
    out = []
    for s in stmts:
        if isinstance(s, ast.Expr):
            if isinstance(s.value, ast.Constant):
                continue
            out += [f"PCall {c}" for c in scalls_in(s.value, own)]
        elif isinstance(s, (ast.Assign, ast.AnnAssign, ast.AugAssign)):
            targets = s.targets if isinstance(s, ast.Assign) else [s.target]
            for t in targets:
                if has_call(t):
                    raise Unsupported(f"{where(s)}: call in an assignment target")
                if "clear_images" in ast.unparse(t):
                    raise Unsupported(f"{where(s)}: clear_images is rebound")
            if s.value is not None:
                out += [f"PCall {c}" for c in scalls_in(s.value, own)]
        elif isinstance(s, ast.If):
            out += [f"PCall {c}" for c in scalls_in(s.test, own)]
            out.append(f"PIf ({sblock(s.body, own)}) ({sblock(s.orelse, own)})")
        elif isinstance(s, ast.Return):
            if s.value is not None:
                out += [f"PCall {c}" for c in scalls_in(s.value, own)]
            out.append("PRet")
        elif isinstance(s, ast.Pass):
            pass
        else:
            raise Unsupported(f"{where(s)}: statement {type(s).__name__} is outside the translatable subset")
    if not out:
        return "PSkip"
    return "psq [" + "; ".join(out) + "]" if len(out) > 1 else out[0]


def build_calls(repo: Path | None = None) -> list[str]:
    """Coq definitions of sk_start / sk_stop / sk_clear (a comment instead of a definition for a
    method outside the subset)"""
    repo = Path(repo or core.REPO)
    tree = ast.parse((repo / REL).read_text())
    cls = [n for n in tree.body if isinstance(n, ast.ClassDef) and n.name == "UrwidImageScreen"]
    lines = []
    for meth, name in (("_start", "sk_start"), ("_stop", "sk_stop"), ("clear", "sk_clear")):
        try:
            if len(cls) != 1:
                raise Unsupported(f"{REL}: class UrwidImageScreen not found exactly once")
            fns = [n for n in cls[0].body if isinstance(n, (ast.FunctionDef, ast.AsyncFunctionDef)) and n.name == meth]
            if len(fns) != 1 or not isinstance(fns[0], ast.FunctionDef):
                raise Unsupported(f"{REL}: UrwidImageScreen.{meth} not found exactly once as a plain method")
            fn = fns[0]
            if fn.decorator_list:
                raise Unsupported(f"{where(fn)}: {meth} is decorated")
            # clear_images must be the class' own method, not shadowed
            for n in ast.walk(cls[0]):
                if isinstance(n, ast.Attribute) and n.attr == "clear_images" and isinstance(n.ctx, (ast.Store, ast.Del)):
                    raise Unsupported(f"{where(n)}: clear_images is rebound")
            body = sblock(fn.body, meth)
            lines += [f"(** UrwidImageScreen.{meth} ({REL}:{fn.lineno}) *)", f"Definition {name} : sprog :=\n  {body}.", ""]
        except Unsupported as e:
            print(f"tx_screen: {meth}: source outside the translatable subset: {e}", file=sys.stderr)
            lines += [f"(* no [{name}]: tx_screen.py refused the current source: " + str(e).replace("*)", "* )") + " *)", ""]
    return lines


def build(repo: Path | None = None) -> str:
    repo = Path(repo or core.REPO)
    src = (repo / REL).read_text()
    tree = ast.parse(src)
    # the two markers must be the library's own constants, imported by name and not rebound
    imported = {}
    for n in tree.body:
        if isinstance(n, ast.ImportFrom) and n.module == "_ctlseqs" and n.level == 2:
            for a in n.names:
                imported[a.asname or a.name] = a.name
    for name in ("BEGIN_SYNCED_UPDATE", "END_SYNCED_UPDATE"):
        if imported.get(name) != name:
            raise Unsupported(f"{REL}: `{name}` is not imported from .._ctlseqs under its own name")
    for n in ast.walk(tree):
        if isinstance(n, ast.Name) and isinstance(n.ctx, (ast.Store, ast.Del)) and n.id in ("BEGIN_SYNCED_UPDATE", "END_SYNCED_UPDATE"):
            raise Unsupported(f"{where(n)}: `{n.id}` is rebound")
    cls = [n for n in tree.body if isinstance(n, ast.ClassDef) and n.name == "UrwidImageScreen"]
    if len(cls) != 1:
        raise Unsupported(f"{REL}: class UrwidImageScreen not found exactly once")
    fns = [n for n in cls[0].body if isinstance(n, ast.FunctionDef) and n.name == "draw_screen"]
    if len(fns) != 1:
        raise Unsupported(f"{REL}: UrwidImageScreen.draw_screen not found exactly once")
    fn = fns[0]
    decos = [ast.unparse(d) for d in fn.decorator_list]
    if decos != ["lock_tty"]:
        raise Unsupported(f"{where(fn)}: decorators {decos} (expected lock_tty only)")
    # write / flush must be the screen's own methods: the overrides in this class only delegate
    for m in ("write", "flush"):
        ms = [n for n in cls[0].body if isinstance(n, ast.FunctionDef) and n.name == m]
        for mm in ms:
            body = [s for s in mm.body if not (isinstance(s, ast.Expr) and isinstance(s.value, ast.Constant))]
            ok = (len(body) == 1 and isinstance(body[0], ast.Return) and isinstance(body[0].value, ast.Call)
                  and ast.unparse(body[0].value.func) == f"super().{m}")
            if not ok:
                raise Unsupported(f"{where(mm)}: UrwidImageScreen.{m} does more than delegating to the base class")
    body = block(fn.body)
    return "\n".join([
        "(** GENERATED by harness/tx/tx_screen.py from the working tree of the library -- do not edit.",
        f"    Effect skeleton (coq/lib/Eff.v) of UrwidImageScreen.draw_screen ({REL}:{fn.lineno}).",
        "    [Write WHide] = self.write(BEGIN_SYNCED_UPDATE), [Write WShow] = self.write(END_SYNCED_UPDATE). *)",
        "From Coq Require Import List Bool.",
        "Import ListNotations.",
        "From TI Require Import lib.Eff model.ScreenCalls.",
        "",
        f"Definition sk_draw_screen : prog :=\n  {body}.",
        "",
    ])


def main():
    try:
        calls = "\n".join(build_calls())
    except (OSError, SyntaxError) as e:
        calls = "(* no [sk_start] [sk_stop] [sk_clear]: " + str(e).replace("*)", "* )") + " *)\n"
    try:
        text = build()
    except (Unsupported, OSError, SyntaxError) as e:
        print(f"tx_screen: source outside the translatable subset: {e}", file=sys.stderr)
        core.write_if_changed(OUT, "(* tx_screen.py refused the current source: " + str(e).replace("*)", "* )") + " *)\n"
                              "From Coq Require Import List Bool.\nImport ListNotations.\n"
                              "From TI Require Import lib.Eff model.ScreenCalls.\n(* no [sk_draw_screen]: proofs/ScreenSync.v does not build *)\n\n"
                              + calls)
        sys.exit(0)
    core.write_if_changed(OUT, text + "\n" + calls)


if __name__ == "__main__":
    main()
