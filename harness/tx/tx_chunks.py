#!/venv/bin/python
"""tx_chunks.py — fail-closed translator: the generator `Transmission.get_chunks` (image/kitty.py)
-> /verif/coq/gen/ChunksSrc.v (a Gallina function over character lists), regenerated on every run.

`proofs/ChunksSrcTie.v` proves, FOR ALL payloads and chunk sizes, that the translated generator
yields exactly the chunk list of the hand-written model `KittyChunks.chunks` that the C03 framing
theorems (concatenation, sizes, m flags, first-chunk keys) are stated about.

Subset: one `with self.get_payload() as <stream>:` block whose body consists of
  * tuple assignments whose right-hand sides are names or `<stream>.read(size)` (evaluated left
    to right, each read advancing the stream), 
  * `yield KITTY_TRANSMISSION % (<control>, <name>)` with <control> one of
      f"{self.get_control_data()},m={bool(<name>):d}"  -> (first chunk: keys, m = <name> non-empty)
      "m=1" / "m=0"                                     -> (continuation chunk, m = 1 / 0),
  * `while <name>:` (at most one, at the top level of the block) and `if <name>:` (truthiness of
    a string = non-empty).
A chunk is the model's triple (carries the control keys?, m flag, data).  The Python loop has no
bound; the Gallina loop runs on fuel = length of the payload, which suffices whenever size > 0
(`chunks_fuel_irrelevant` in proofs/KittyChunksProofs.v); out of fuel yields nothing.
"""
from __future__ import annotations

import ast
import os
import sys
from pathlib import Path

sys.path.insert(0, str(Path(__file__).resolve().parent))
from tx_pure import Refuse, V, find_class, need, parse  # noqa: E402

VERIF = Path(__file__).resolve().parent.parent.parent
OUT = VERIF / "coq" / "gen" / "ChunksSrc.v"


class G:
    def __init__(self, stream):
        self.stream = stream
        self.n = 0
        self.loops = []  # generated Fixpoints
        self.vars = []   # string variables in scope, in order of first assignment

    def tmp(self):
        self.n += 1
        return f"t{self.n}_"

    def yield_term(self, s):
        v = s.value.value
        need(isinstance(v, ast.BinOp) and isinstance(v.op, ast.Mod) and ast.unparse(v.left) == "KITTY_TRANSMISSION"
             and isinstance(v.right, ast.Tuple) and len(v.right.elts) == 2, f"get_chunks: yield form `{ast.unparse(s)}`")
        ctrl, data = v.right.elts
        need(isinstance(data, ast.Name) and data.id in self.vars, f"get_chunks: yielded data `{ast.unparse(data)}`")
        if isinstance(ctrl, ast.Constant) and ctrl.value in ("m=1", "m=0"):
            return f"(false, {'true' if ctrl.value == 'm=1' else 'false'}, {V(data.id)})"
        need(isinstance(ctrl, ast.JoinedStr), f"get_chunks: control string `{ast.unparse(ctrl)}`")
        parts = ctrl.values
        need(len(parts) == 3 and isinstance(parts[0], ast.FormattedValue)
             and ast.unparse(parts[0].value) == "self.get_control_data()"
             and isinstance(parts[1], ast.Constant) and parts[1].value == ",m="
             and isinstance(parts[2], ast.FormattedValue) and parts[2].format_spec is not None
             and ast.unparse(parts[2].format_spec) == "f'd'", f"get_chunks: first-chunk control `{ast.unparse(ctrl)}`")
        b = parts[2].value
        need(isinstance(b, ast.Call) and ast.unparse(b.func) == "bool" and len(b.args) == 1
             and isinstance(b.args[0], ast.Name) and b.args[0].id in self.vars, f"get_chunks: m flag `{ast.unparse(b)}`")
        return f"(true, nonempty {V(b.args[0].id)}, {V(data.id)})"

    def block(self, stmts, ind, tail):
        """-> Gallina term of type `list chunk` for the yields of stmts followed by `tail` (a term)"""
        pad = "  " * ind
        if not stmts:
            return pad + tail
        s, rest = stmts[0], stmts[1:]
        if isinstance(s, ast.Assign):
            need(len(s.targets) == 1, "get_chunks: chained assignment")
            tg = s.targets[0]
            tgs = tg.elts if isinstance(tg, ast.Tuple) else [tg]
            vals = s.value.elts if isinstance(s.value, ast.Tuple) else [s.value]
            need(len(tgs) == len(vals) and all(isinstance(t, ast.Name) for t in tgs), f"get_chunks: assignment `{ast.unparse(s)}`")
            out, tmps = "", []
            for v in vals:
                t = self.tmp()
                if isinstance(v, ast.Name):
                    need(v.id in self.vars, f"get_chunks: `{v.id}` used before assignment")
                    out += f"{pad}let {t} := {V(v.id)} in\n"
                else:
                    need(ast.unparse(v) == f"{self.stream}.read(size)", f"get_chunks: right-hand side `{ast.unparse(v)}`")
                    out += f"{pad}let '({t}, stream) := read size stream in\n"
                tmps.append(t)
            for t, tmpn in zip(tgs, tmps):
                out += f"{pad}let {V(t.id)} := {tmpn} in\n"
                if t.id not in self.vars:
                    self.vars.append(t.id)
            return out + self.block(rest, ind, tail)
        if isinstance(s, ast.Expr) and isinstance(s.value, ast.Yield):
            return f"{pad}{self.yield_term(s)} ::\n" + self.block(rest, ind, tail)
        if isinstance(s, ast.If):
            need(isinstance(s.test, ast.Name) and s.test.id in self.vars and not s.orelse, f"get_chunks: if `{ast.unparse(s.test)}`")
            need(not any(isinstance(n, (ast.While, ast.Assign)) for b in s.body for n in ast.walk(b)),
                 "get_chunks: loop or assignment inside an if")
            after = self.block(rest, ind + 1, tail)
            return (f"{pad}if nonempty {V(s.test.id)} then\n" + self.block(list(s.body), ind + 1, "(\n" + after + ")")
                    + f"\n{pad}else\n" + after)
        if isinstance(s, ast.While):
            need(isinstance(s.test, ast.Name) and s.test.id in self.vars and not s.orelse, f"get_chunks: while `{ast.unparse(s.test)}`")
            need(not self.loops, "get_chunks: more than one loop")
            need(not any(isinstance(n, ast.While) for b in s.body for n in ast.walk(b)), "get_chunks: nested loop")
            vs = list(self.vars)
            name = "src_chunks_loop"
            params = " ".join(V(x) for x in vs)
            before = list(self.vars)
            body = self.block(list(s.body), 3, f"{name} fuel' size {params} stream")
            need(self.vars == before, "get_chunks: a new variable is introduced inside the loop")
            after = self.block(rest, 2, tail)
            self.loops.append(
                f"Fixpoint {name} (fuel size : nat) ({params} stream : list C) {{struct fuel}} : list (chunk C) :=\n"
                f"  if nonempty {V(s.test.id)} then\n    match fuel with\n    | O => []\n    | S fuel' =>\n{body}\n    end\n"
                f"  else\n{after}.\n")
            return f"{pad}{name} (length payload) size {params} stream"
        raise Refuse(f"get_chunks: statement outside the subset: `{ast.unparse(s).splitlines()[0]}` (line {s.lineno})")


def main():
    kt = parse("src/term_image/image/kitty.py")
    cls = find_class(kt, "Transmission")
    fs = [n for n in cls.body if isinstance(n, ast.FunctionDef) and n.name == "get_chunks"]
    need(len(fs) == 1, f"Transmission.get_chunks: {len(fs)} definitions")
    fn = fs[0]
    need([a.arg for a in fn.args.args] == ["self", "size"], "get_chunks: parameter list changed")
    body = [s for s in fn.body if not (isinstance(s, ast.Expr) and isinstance(s.value, ast.Constant))]
    need(len(body) == 1 and isinstance(body[0], ast.With) and len(body[0].items) == 1
         and ast.unparse(body[0].items[0].context_expr) == "self.get_payload()"
         and isinstance(body[0].items[0].optional_vars, ast.Name), "get_chunks: not a single `with self.get_payload() as <name>:` block")
    # get_payload: the base64 text of the (possibly compressed) payload as a character stream
    gp = [n for n in cls.body if isinstance(n, ast.FunctionDef) and n.name == "get_payload"]
    need(len(gp) == 1 and ast.unparse(gp[0].body[-1]) == "return io.StringIO(self.encode().decode('ascii'))",
         "Transmission.get_payload: body changed")
    g = G(body[0].items[0].optional_vars.id)
    term = g.block(list(body[0].body), 1, "[]")
    text = ("(** GENERATED by harness/tx/tx_chunks.py from the working tree of the repository — do not edit.\n"
            "    Regenerated (and rewritten only if changed) on every check run. *)\n"
            "From Coq Require Import List Bool Arith.\nImport ListNotations.\nFrom TI Require Import model.KittyChunks.\n"
            "Set Implicit Arguments.\n\nSection Src.\n  Variable C : Type.\n\n"
            "(** the loop of Transmission.get_chunks, on fuel *)\n" + "\n".join(g.loops) + "\n"
            "(** image/kitty.py: Transmission.get_chunks(size); payload = the characters of get_payload() *)\n"
            "Definition src_get_chunks (size : nat) (payload : list C) : list (chunk C) :=\n"
            "  let stream := payload in\n" + term + ".\nEnd Src.\n")
    if not OUT.exists() or OUT.read_text() != text:
        OUT.parent.mkdir(parents=True, exist_ok=True)
        OUT.write_text(text)


if __name__ == "__main__":
    try:
        main()
    except Refuse as e:
        print(f"tx_chunks: REFUSED: {e}")
        OUT.write_text(f"(* tx_chunks refused the current source: {str(e).replace('*)', '* )')} *)\n"
                       "Definition refused : True := I I.\n")
        sys.exit(1)
