"""Shared by the C01 / C02 plugins: generation of render cases, encoding into
model/RenderTie.v terms, evaluation."""
from __future__ import annotations

import core
import lexer

HEADER = ("From Coq Require Import List ZArith.\nImport ListNotations.\n"
          "From TI Require Import lib.Term lib.RectCheck model.Block model.RenderTie.\nOpen Scope Z_scope.\n")

MODES = ["1", "L", "LA", "P", "PA", "RGB", "RGBA", "CMYK", "HSV"]
ALPHAS = [None, 0.0, 0.5, 1 / 255, 254 / 255, 0.999, "#", "#102030", "#ffffff"]


def b(x):
    return "true" if x else "false"


def rgb_t(c):
    return f"({c[0]},{c[1]},{c[2]})"


def block_rows(res):
    w = res["render_px"][0]
    rgb, a = res["rgb"], res["a"]
    rows = []
    for x in range(0, len(rgb), 2 * w):
        up, lo = rgb[x:x + w], rgb[x + w:x + 2 * w]
        au, al = a[x:x + w], a[x + w:x + 2 * w]
        rows.append(list(zip(up, lo, au, al)))
    return rows


def rows_term(rows):
    return core.coq_list(rows, lambda r: core.coq_list(
        r, lambda p: f"{{| p1 := {rgb_t(p[0])}; p2 := {rgb_t(p[1])}; a1 := {p[2]}; a2 := {p[3]} |}}"))


def case_term(case, res, toks):
    """Coq term of the tcase, or None when the case cannot be expressed."""
    w, h = res["rendered_size"]
    style = case["style"]
    args = case.get("args", {})
    if style == "block":
        bg = case.get("term_bg")
        bgt = f"(Some {rgb_t(bg)})" if bg else "None"
        rc = (f"RBlock {b(res['alpha_mode'])} {b(case.get('on_kitty', False))} {bgt} "
              f"{b(args.get('split_cells', False))} {rows_term(block_rows(res))}")
    elif style == "kitty":
        method = (args.get("method") or "lines").lower()
        z = args.get("z_index", 0)
        rc = (f"{'RKittyLines' if method == 'lines' else 'RKittyWhole'} {core.z(z).replace('%Z', '')} "
              f"{b(args.get('mix', False))} {b(args.get('blend', True))}")
    else:
        method = (args.get("method") or "lines").lower()
        term = case.get("term", "")
        rc = (f"{'RItermLines' if method == 'lines' else 'RItermWhole'} {b(term == 'konsole')} "
              f"{b(term == 'wezterm')} {b(args.get('mix', False))}")
    return f"{{| t_w := {w}; t_h := {h}; t_case := {rc}; t_obs := {lexer.coq_toks(toks)} |}}"


def strip_payload(toks):
    return [t[:-1] if t[0] in ("kfirst", "kcont", "iterm") else t for t in toks]


def kitty_payload_errors(toks):
    """A kitty terminal displays a transmission only if its data decodes: base64, zlib when o=z,
    and s*v*bytes-per-pixel bytes for f=24/32.  Returns a message for the first transmission that
    a terminal would reject (the cells of that placement are then never covered)."""
    import base64
    import zlib
    i, n = 0, 0
    while i < len(toks):
        t = toks[i]
        if t[0] != "kfirst":
            i += 1
            continue
        keys, more, data = t[1], t[2], t[4]
        i += 1
        while more and i < len(toks) and toks[i][0] == "kcont":
            more, data = toks[i][1], data + toks[i][3]
            i += 1
        n += 1
        try:
            raw = base64.standard_b64decode(data)
            if keys.get("o") == "z":
                raw = zlib.decompress(raw)
            elif keys.get("o") is not None:
                return f"transmission {n}: unknown compression o={keys['o']!r}"
        except Exception as e:  # noqa: BLE001
            return f"transmission {n}: payload does not decode (o={keys.get('o')!r}): {type(e).__name__}"
        if keys.get("f") in (24, 32) and keys.get("s") and keys.get("v"):
            want = keys["s"] * keys["v"] * (3 if keys["f"] == 24 else 4)
            if len(raw) != want:
                return f"transmission {n}: {len(raw)} bytes of pixel data for s={keys['s']} v={keys['v']} f={keys['f']} ({want} expected)"
    return None


def evaluate(cases, tag):
    """Returns (codes per case, lex_errors per case, impl results, infrastructure errors)."""
    impl = core.run_impl_parallel("impl_render.py", cases)
    terms, owner = [], []
    codes = [0] * len(cases)
    lexerr = [None] * len(cases)
    for i, (c, r) in enumerate(zip(cases, impl)):
        if "error" in r:
            lexerr[i] = "render raised " + r["error"]
            continue
        try:
            full = lexer.lex(r["out"])
            toks = strip_payload(full)
        except lexer.LexError as e:
            lexerr[i] = f"unlexable output: {e}"
            continue
        bad = kitty_payload_errors(full) if c["style"] == "kitty" else None
        if bad:
            lexerr[i] = f"a kitty terminal rejects the render's data: {bad}"
            continue
        if r.get("pinned_sizes") and len({tuple(x) for x in r["pinned_sizes"]}) > 1:
            lexerr[i] = f"the image's rendered size changed DURING one render: {r['pinned_sizes']}"
            continue
        r["toks"] = toks
        terms.append(case_term(c, r, toks))
        owner.append(i)
    errors = []
    if terms:
        bad, errs = core.coq_shards(tag, HEADER, terms, "tcase", "bad cases", shard=120)
        errors += errs
        for idx, code in bad:
            codes[owner[idx]] = code
    return codes, lexerr, impl, errors


def explain(case, res, tag):
    """Ask Coq which clauses fail / where the tokens differ (for the replay file)."""
    term = case_term(case, res, res["toks"])
    text = HEADER + f"Set Printing Width 100000.\nEval vm_compute in (explain ({term})).\n"
    rc, out = core.coq_eval_file(f"{tag}_explain_{id(case)}", text)
    vals = core.parse_evals(out)
    return vals[0] if vals else out[-400:]


def gen_image(rng, max_px, kinds=("random", "runs", "uniform", "alpha-flip"), modes=MODES):
    return {"mode": rng.choice(modes), "size": [rng.randint(1, max_px), rng.randint(1, max_px)],
            "seed": rng.randrange(1 << 30), "kind": rng.choice(kinds)}


def describe(case):
    a = case.get("args", {})
    return (f"{case['style']} cells={case['cells']} img={case['img']['mode']}{case['img']['size']}/{case['img'].get('kind')} "
            f"alpha={case.get('alpha')!r} args={a} term={case.get('term', '')!r} cell_size={case.get('cell_size')} "
            f"on_kitty={case.get('on_kitty', False)} term_bg={case.get('term_bg')}")
